"""Driver: verify every contract of one source file; returns the VCs (discharged / refuted / unknown / unsupported)."""
from __future__ import annotations

import importlib
import os
import time

from .contract import REGISTRY
from .pyexec import Executor
from .pyvc import Unsupported, VC
from .smt import discharge


def load_contracts():
    for m in ("contracts.tokenizer_c", "contracts.subheader_c", "contracts.tokenize_c"):
        try:
            importlib.import_module(m)
        except ModuleNotFoundError as e:
            if m.split(".")[-1] not in str(e):
                raise
    return REGISTRY


def token_enum(repo: str) -> dict:
    """ordinals of peg_parser.tokenize.Token read from the real source (enum auto() numbering = order of definition)"""
    import ast
    src = open(os.path.join(repo, "peg_parser", "tokenize.py"), encoding="utf-8").read()
    mod = ast.parse(src)
    for n in mod.body:
        if isinstance(n, ast.ClassDef) and n.name == "Token":
            names = [s.targets[0].id for s in n.body if isinstance(s, ast.Assign) and isinstance(s.targets[0], ast.Name)]
            return {nm: i + 1 for i, nm in enumerate(names)}
    raise RuntimeError("Token enum not found")


BASELINE = os.path.join(os.path.dirname(os.path.dirname(os.path.abspath(__file__))), "baseline_obligations.json")


def adapted_contracts(repo: str, contracts: dict) -> tuple:
    """contracts re-written for functions whose binders were merely renamed since the baseline (engine/alpha.py);
    -> (contracts, {contract name: renaming})"""
    import ast
    import json
    from . import alpha
    try:
        base = json.load(open(BASELINE))
    except (OSError, ValueError):
        return contracts, {}
    trees: dict = {}
    out, applied = dict(contracts), {}
    for name, c in contracts.items():
        rel, qual = name.split(":", 1)
        b0 = base.get(name) or {}
        if not b0.get("shape"):
            continue
        if rel not in trees:
            try:
                trees[rel] = ast.parse(open(os.path.join(repo, rel), encoding="utf-8").read())
            except (OSError, SyntaxError):
                trees[rel] = None
        if trees[rel] is None:
            continue
        b, shp = alpha.describe(trees[rel], qual)
        if b is None or b == b0.get("binders"):
            continue
        if shp == b0["shape"]:
            m = alpha.renaming(b0.get("binders"), b)          # same statements, other names: every binder follows
        else:
            # the body changed as well: only the parameters (matched by position) can be followed; locals named in loop
            # invariants stay as written
            fn = alpha.find(trees[rel], qual)
            new_p = alpha.param_names(fn) if fn is not None else None
            old_p = b0.get("params")
            m = alpha.renaming(old_p, new_p) if old_p and new_p and len(old_p) == len(new_p) else {}
        if m:
            out[name] = alpha.adapt(c, m)
            applied[name] = m
    return out, applied


def verify_file(repo: str, relpath: str, only=None, timeout_ms: int = 10000, both: bool = False):
    from contracts.shapes import CLASSES, SPEC_FUNCS
    contracts, renamed = adapted_contracts(repo, load_contracts())
    src = open(os.path.join(repo, relpath), encoding="utf-8").read()
    te = token_enum(repo)
    out = {}
    for name, c in contracts.items():
        if not name.startswith(relpath + ":") or not c.verify:
            continue
        if only and name.split(":")[1] not in only:
            continue
        ex = Executor(src, relpath, contracts, CLASSES, te, SPEC_FUNCS, timeout_ms)
        ex.repo = repo
        t0 = time.time()
        try:
            ex.verify(c)
            vcs = ex.vcs
            err = None
        except Unsupported as u:
            vcs, err = ex.vcs, str(u)
        except RecursionError:
            vcs, err = ex.vcs, "recursion limit in the symbolic executor"
        discharge(vcs, timeout_ms, both)
        out[name] = {"vcs": vcs, "unsupported": err, "seconds": time.time() - t0, "stats": ex.stats, "renamed": renamed.get(name),
                     "assumptions": sorted(getattr(ex, "assumptions_used", ()))}
    return out
