"""E4 `gramref` -- rule-by-rule refinement of CPython's own grammar (spec/ref/python311.gram, verbatim).

refines(R): the alternatives of the real rule (those not gated by invalid_ rules), normalised by the declared refinement
map, are the alternatives of the reference rule in the same order; every EXTRA alternative must be either a declared
3.12-delta alternative (assumed) or provably gated by a xonsh-only lexeme (L2, computed on the IR of the generated
parser).  Action correspondence: reference actions of the simple form `_PyAST_<Node>(args..., EXTRA)` are translated
mechanically (positional -> ASDL field names) and compared with the real action's constructor call field by field.

The comparison is syntactic (DESIGN 3.5 honesty note): a language-preserving refactoring of a rule fails to unify and is
then handed to the bounded stand-in for a concrete witness.
"""
from __future__ import annotations

import ast
import re
from dataclasses import dataclass, field

RENAME = {"list": "plist", "tuple": "ptuple"}           # reference name -> real name
TOKEN_LITS = {"ASYNC": "async", "AWAIT": "await"}
XONSH_LITS = {"$", "?", "??", "!", "||", "&&", "@(", "!(", "![", "$(", "$[", "${", "@$(", ">&"}
XONSH_TYPES = {"SEARCH_PATH", "MACRO_PARAM", "WS"}

# ---- hand-written 3.12 delta: everything listed here is ASSUMED, never counted as proved (reference is 3.11)
DELTA_RULES = {
    "fstring": "PEP 701: f-strings are tokenised and parsed by the grammar in 3.12 (3.11: a STRING re-parsed by a helper)",
    "strings": "PEP 701: strings: (fstring | STRING)+",
    "decorators": "decorator expressions go through dec_maybe_call because '@(' is a xonsh operator (documented exclusion of C01)",
}
DELTA_OPTIONAL_ITEMS = {("class_def_raw", "type_params"), ("function_def_raw", "type_params")}       # PEP 695
DELTA_EXTRA_ALTS = {("simple_stmt", ('poslook', ('lit', 'type')), ): "PEP 695 type statement"}
DELTA_LOOKAHEAD = {("atom", "FSTRING_START"): "PEP 701: &(STRING | FSTRING_START) strings"}


def norm_item(it, side: str, rule: str):
    """-> hashable normal form, or None when the item is dropped by the refinement map"""
    k = it["k"]
    if k == "named":
        return norm_item(it["item"], side, rule)
    if k == "name":
        v = it["v"]
        if side == "ref":
            v = RENAME.get(v, v)
        if v in TOKEN_LITS:
            return ("lit", TOKEN_LITS[v])
        return ("name", v)
    if k == "string":
        return ("lit", ast.literal_eval(it["v"]))
    if k in ("group", "rhs"):
        alts = []
        for a in it["rhs"]["alts"]:
            items = tuple(x for x in (norm_item(i, side, rule) for i in a["items"]) if x is not None and x != ("cut",))
            if side == "our" and len(items) == 1 and items[0][0] == "lit" and items[0][1] in XONSH_LITS and len(it["rhs"]["alts"]) > 1:
                continue                      # xonsh spelling of a Python operator inside a group: ('or' | '||')
            if side == "our" and len(items) == 1 and items[0] == ("name", "FSTRING_START") and (rule, "FSTRING_START") in DELTA_LOOKAHEAD:
                continue
            alts.append(items)
        if len(alts) == 1 and len(alts[0]) == 1:
            return alts[0][0]
        return ("group", tuple(alts))
    if k == "forced":
        return norm_item(it["node"], side, rule)          # &&':' vs ':' differ only on failing inputs
    if k == "cut":
        return ("cut",)
    if k == "gather":
        return ("gather", norm_item(it["sep"], side, rule), norm_item(it["node"], side, rule))
    sub = norm_item(it["node"], side, rule)
    if k == "opt" and side == "our" and sub is not None and sub[0] == "name" and (rule, sub[1]) in DELTA_OPTIONAL_ITEMS:
        return None
    return (k, sub)


def inline_aliases(form, aliases):
    """replace references to pure alias rules (action-less ordered choice of single items) by their group"""
    if not isinstance(form, tuple):
        return form
    if form and form[0] == "name" and form[1] in aliases:
        return aliases[form[1]]
    return tuple(inline_aliases(x, aliases) for x in form)


def alt_forms(rule: dict, side: str, aliases: dict):
    out = []
    for a in rule["rhs"]["alts"]:
        items = tuple(x for x in (norm_item(i, side, rule["name"]) for i in a["items"]) if x is not None and x != ("cut",))
        out.append(inline_aliases(items, aliases))
    return out


def is_invalid_alt(form) -> bool:
    def walk(x):
        if isinstance(x, tuple):
            if len(x) == 2 and x[0] == "name" and isinstance(x[1], str) and x[1].startswith("invalid_"):
                return True
            return any(walk(y) for y in x)
        return False
    return walk(form)


def alias_rules(g: dict, side: str):
    out = {}
    for r in g["rules"]:
        alts = [a for a in r["rhs"]["alts"]
                if not (len(a["items"]) == 1 and (norm_item(a["items"][0], side, r["name"]) or ("", ""))[0] == "name"
                        and str((norm_item(a["items"][0], side, r["name"]) or ("", ""))[1]).startswith("invalid_"))]
        if len(alts) > 1 and all(len(a["items"]) == 1 for a in alts):      # structure only: actions do not affect the language
            forms = tuple((norm_item(a["items"][0], side, r["name"]),) for a in alts)
            if all(f[0] is not None and f[0][0] in ("name", "lit") for f in forms):
                nm = RENAME.get(r["name"], r["name"]) if side == "ref" else r["name"]
                out[nm] = ("group", forms)
    return out


@dataclass
class RefineResult:
    rule: str
    status: str                    # refines | assumed-delta | mismatch
    detail: str = ""
    extra_alts: list = field(default_factory=list)     # indices (0-based, in the real rule) of extra alternatives
    matched: list = field(default_factory=list)        # [(our alt index, ref alt index)]


def refine(our_g: dict, ref_g: dict, delta_rules=None, only=None):
    """`delta_rules`: rules not compared (default: the 3.12 delta); `only`: restrict to these (real) rule names"""
    delta_rules = DELTA_RULES if delta_rules is None else delta_rules
    ours = {r["name"]: r for r in our_g["rules"]}
    refs = {RENAME.get(r["name"], r["name"]): r for r in ref_g["rules"]}
    # pure alias rules (action-less ordered choice of single names/literals) are expanded on both sides, so that
    # `annotated_rhs` and `(yield_expr | star_expressions)` compare equal
    a_our = alias_rules(our_g, "our")
    a_ref = alias_rules(ref_g, "ref")
    results = []
    for name, r in ours.items():
        if name.startswith("invalid_") or name not in refs or (only is not None and name not in only):
            continue
        if name in delta_rules:
            results.append(RefineResult(name, "assumed-delta", delta_rules[name]))
            continue
        A = alt_forms(r, "our", a_our)
        B = [b for b in alt_forms(refs[name], "ref", a_ref) if not is_invalid_alt(b)]
        res = RefineResult(name, "refines")
        j = 0
        for i, a in enumerate(A):
            if is_invalid_alt(a):
                continue
            if j < len(B) and a == B[j]:
                res.matched.append((i, j))
                j += 1
                continue
            res.extra_alts.append(i)
        if j < len(B):
            res.status = "mismatch"
            res.detail = f"reference alternative {j + 1} `{show(B[j])}` has no counterpart (in order) among the real alternatives"
        results.append(res)
    return results


def show(form) -> str:
    if not isinstance(form, tuple):
        return str(form)
    if form and isinstance(form[0], str):
        k = form[0]
        if k == "lit":
            return repr(form[1])
        if k == "name":
            return form[1]
        if k == "group":
            return "(" + " | ".join(" ".join(show(x) for x in a) for a in form[1]) + ")"
        if k == "gather":
            return f"{show(form[1])}.{show(form[2])}+"
        if k in ("opt", "repeat0", "repeat1", "poslook", "neglook"):
            return {"opt": "[%s]", "repeat0": "%s*", "repeat1": "%s+", "poslook": "&%s", "neglook": "!%s"}[k] % show(form[1])
        if k == "cut":
            return "~"
    return " ".join(show(x) for x in form)


# ---------------------------------------------------------------------------------------------- actions
ENUMS = {"Add", "Sub", "Mult", "MatMult", "Div", "Mod", "Pow", "LShift", "RShift", "BitOr", "BitXor", "BitAnd", "FloorDiv",
         "Invert", "Not", "UAdd", "USub", "And", "Or", "Eq", "NotEq", "Lt", "LtE", "Gt", "GtE", "Is", "IsNot", "In", "NotIn"}
CTX = {"Load", "Store", "Del"}
SIMPLE = re.compile(r"^\s*_PyAST_(\w+)\s*\((.*)\)\s*$", re.S)


def split_args(s: str):
    out, depth, cur = [], 0, ""
    for ch in s:
        if ch in "([{":
            depth += 1
        elif ch in ")]}":
            depth -= 1
        if ch == "," and depth == 0:
            out.append(cur.strip())
            cur = ""
        else:
            cur += ch
    if cur.strip():
        out.append(cur.strip())
    return out


def compare_action(ref_action: str, our_action: str, fields_of):
    """-> (verdict, detail): verdict in {equal, differs, not-comparable}"""
    m = SIMPLE.match(ref_action or "")
    if not m:
        return "not-comparable", "reference action is not a plain _PyAST_<Node>(...) call"
    node, args = m.group(1), split_args(m.group(2))
    if not args or args[-1] != "EXTRA":
        if node not in ("alias", "arg", "keyword", "withitem", "comprehension", "match_case", "arguments"):
            return "not-comparable", "reference action has no EXTRA (no position)"
    else:
        args = args[:-1]
    fields = fields_of(node)
    if fields is None or len(args) > len(fields):
        return "not-comparable", f"unknown node {node} or arity"
    try:
        tree = ast.parse(our_action.replace("LOCATIONS", "**LOCATIONS"), mode="eval").body
    except SyntaxError:
        return "not-comparable", "real action does not parse as an expression"
    if not (isinstance(tree, ast.Call) and isinstance(tree.func, ast.Attribute) and isinstance(tree.func.value, ast.Name)
            and tree.func.value.id == "ast"):
        return "not-comparable", "real action is not a direct ast.<Node>(...) call (builder or conditional)"
    if tree.func.attr != node:
        return "differs", f"constructor is ast.{tree.func.attr}, reference builds {node}"
    kws = {k.arg: k.value for k in tree.keywords if k.arg}
    pos = list(tree.args)
    for i, a in enumerate(pos):
        if i < len(fields):
            kws.setdefault(fields[i], a)
    for fname, ra in zip(fields, args):
        ov = kws.get(fname)
        ok, why = arg_equal(ra, ov)
        if ok is None:
            return "not-comparable", f"field {fname}: {why}"
        if not ok:
            return "differs", f"field {fname}: real `{ast.unparse(ov) if ov is not None else '<missing>'}` vs reference `{ra}`"
    return "equal", ""


def arg_equal(ra: str, ov):
    ra = ra.strip()
    if ov is None:
        return (True, "") if ra == "NULL" else (False, "missing")
    o = ast.unparse(ov)
    if ra == "NULL":
        return (o in ("None", "[]"), "")
    if re.fullmatch(r"[a-z_]\w*", ra):
        if ra in ("NULL",):
            return True, ""
        # plain item variable: same variable, possibly `x or []` / `x.string` for identifiers handled below
        if o == ra or o == f"{ra} or []":
            return True, ""
        if isinstance(ov, ast.Call):
            return None, f"real action builds the operand inline (`{o[:40]}...`) where the reference passes `{ra}`"
        return False, ""
    if ra in ENUMS:
        return (o == f"ast.{ra}()", "")
    if ra in CTX:
        return (o == ra, "")
    mm = re.fullmatch(r"(\w+)->v\.Name\.id", ra)
    if mm:
        # the reference takes the identifier out of a Name node; the real rules pass the identifier (or its token) itself
        return (o in (f"{mm.group(1)}.string", f"{mm.group(1)}.id", mm.group(1)), "")
    if re.fullmatch(r"\d+", ra):
        return (o == ra, "")
    return None, f"reference argument `{ra}` is a helper call"
