"""C04: typing of every grammar action against the ASDL of the running CPython (`type(R)` of DESIGN 3.3).

A small abstract interpreter over the action expressions of the extracted IR.  Abstract values:
  ("tok",) ("str",) ("int",) ("bool",) ("none",) ("any",)
  ("node", cls, ctx)         an ast node of class `cls` (ctx in Load/Store/Del/None=not an expression-with-context/"?"=unknown)
  ("list", T) ("opt", T) ("tuple", (T1..Tn)) ("union", (T1..Tn))
Rule result types are the least fixpoint of the alternatives' action types.  Obligations are generated at every
constructor call `ast.X(...)`:
  keyword  every keyword is a field or a position attribute of X            (catches misspelt fields)
  required every field without `?`/`*` default is supplied, position attributes for stmt/expr/... nodes are supplied
  field    the abstract type of each supplied value fits the ASDL type of the field (list for `*`, None only for `?`,
           node category), and the expression context required at that field (Store for binding targets, Del for del
           targets, Load elsewhere)
An abstract value ("any",) never fails an obligation: what cannot be typed is counted as unchecked, not as proved.
"""
from __future__ import annotations

import ast
from dataclasses import dataclass, field

from .pegir import PE, ParserIR, Rule

ANY = ("any",)
BOT = ("bot",)      # not yet computed (fixpoint iteration): neutral for join, never checked
NONE_T = ("none",)
TOK = ("tok",)
STR = ("str",)
INT = ("int",)
BOOL = ("bool",)

POS_ATTRS = ("lineno", "col_offset", "end_lineno", "end_col_offset")

# builders of subheader.py: declared result types (their bodies are specified in E1 where under contract)
BUILDERS = {
    "span": ("locs",), "set_expr_context": "arg0-with-ctx", "check_version": "arg2", "handle_fstring": ("node", "JoinedStr", "Load"),
    "concatenate_strings": ("node", "expr", "Load"), "make_arguments": ("node", "arguments", None), "set_decorators": "arg0",
    "get_comparison_ops": ("list", ("node", "cmpop", None)), "get_comparators": ("list", ("node", "expr", "Load")),
    "extract_import_level": INT, "expand_env_name": "env", "expand_env_expr": "env", "expand_help": ("node", "Call", "Load"),
    "expand_search_path": ("node", "Call", "Load"), "handle_proc": ("node", "Call", "Load"), "proc_inject": ("node", "Starred", "Load"),
    "proc_pyexpr": ("node", "Starred", "Load"), "proc_args": ("list", ("node", "expr", "Load")), "macro_call": ("node", "Call", "Load"),
    "handle_with_macro_stmt": ("node", "With", None), "handle_func_macro_start": "arg0", "handle_with_macro_start": "arg0",
    "handle_proc_macro_start": "arg0", "proc_macro_arg": ("node", "Constant", "Load"), "ensure_real": ANY, "ensure_imaginary": ANY,
    "check_fstring_conversion": INT,
}


CATEGORY: dict = {}      # concrete node class -> its ASDL sum type (filled by Typer.__init__)


def is_node(t):
    return t[0] == "node"


def join(a, b):
    if a == b:
        return a
    if a is None or a == BOT:
        return b
    if b is None or b == BOT:
        return a
    if a == ANY or b == ANY:
        return ANY
    if a == NONE_T:
        return b if b[0] == "opt" else ("opt", b)
    if b == NONE_T:
        return a if a[0] == "opt" else ("opt", a)
    if a[0] == "opt" or b[0] == "opt":
        ia = a[1] if a[0] == "opt" else a
        ib = b[1] if b[0] == "opt" else b
        return ("opt", join(ia, ib))
    if a[0] == "list" and b[0] == "list":
        return ("list", join(a[1], b[1]))
    if a[0] == "node" and b[0] == "node":
        ctx = a[2] if a[2] == b[2] else "?"
        if a[1] == b[1]:
            return ("node", a[1], ctx)
        ca, cb = CATEGORY.get(a[1], a[1]), CATEGORY.get(b[1], b[1])
        return ("node", ca, ctx) if ca == cb else ANY
    if a[0] == "tuple" and b[0] == "tuple" and len(a[1]) == len(b[1]):
        return ("tuple", tuple(join(x, y) for x, y in zip(a[1], b[1])))
    return ANY


@dataclass
class TypeProblem:
    rule: str
    alt: int
    kind: str
    text: str


class Typer:
    def __init__(self, ir: ParserIR, asdl: dict, emitted_tokens=None, only=None):
        self.ir = ir
        self.emitted = emitted_tokens        # token types the tokenizer can produce (None = unknown: assume all)
        self.only = only                     # restrict obligations to these rules (reachable from the entry points)
        self.fields = asdl["fields"]
        self.sig = asdl["sig"]
        self.rtype: dict = {n: BOT for n in ir.rules}
        self.problems: list = []
        self.checked = 0
        self.unchecked = 0
        self.collect = False
        for c in self.fields:
            CATEGORY[c] = self.category(c)

    # ------------------------------------------------------------------ ASDL helpers
    def bases(self, cls):
        return self.sig.get(cls, {}).get("__bases__", [])

    def category(self, cls):
        """the abstract ASDL sum type a concrete class belongs to (expr, stmt, ...) or the class itself"""
        for b in [cls] + self.bases(cls):
            if b in ("expr", "stmt", "pattern", "operator", "unaryop", "cmpop", "boolop", "expr_context", "excepthandler", "type_param", "mod"):
                return b
        return cls

    def needs_position(self, cls):
        return bool(self.sig.get(cls, {}).get("__attributes__"))

    def field_type(self, cls, f):
        return self.sig.get(cls, {}).get(f)

    # ------------------------------------------------------------------ item / rule types
    def pe_type(self, pe: PE):
        k = pe.kind
        if k == "token" and self.emitted is not None and pe.arg not in self.emitted:
            return NONE_T                  # the tokenizer never produces this type: the item can only fail
        if k in ("expect", "token", "name", "keyword", "soft_keyword", "any_token"):
            return TOK
        if k == "rule":
            return self.rtype.get(pe.arg, ANY)
        if k == "repeated":
            s = self.pe_type(pe.subs[0])
            return ("list", s)
        if k == "gathered":
            s = self.pe_type(pe.subs[0])
            return ("list", s)
        if k == "seq_alts":
            t = BOT
            for s in pe.subs:
                t = join(t, self.pe_type(s))
            return t
        if k == "forced":
            return self.pe_type(pe.subs[0])
        if k == "poslook":
            return self.pe_type(pe.subs[0])
        if k == "neglook":
            return BOOL
        return ANY

    def item_env(self, alt):
        env = {}
        for it in alt.items:
            if it.pe is None or not it.var:
                continue
            t = self.pe_type(it.pe)
            if t == BOT:
                pass
            elif it.optional and it.pe.kind != "repeated":      # `e*` is a list even when it matches nothing; `[rule]` may be None
                t = t if t[0] == "opt" else ("opt", t)
            env[it.var] = t
        return env

    # ------------------------------------------------------------------ expressions
    def ev(self, e, env, rule, ai):
        m = getattr(self, "t_" + type(e).__name__, None)
        if m is None:
            return ANY
        return m(e, env, rule, ai)

    def t_Constant(self, e, env, rule, ai):
        v = e.value
        if v is None:
            return NONE_T
        if isinstance(v, bool):
            return BOOL
        if isinstance(v, int):
            return INT
        if isinstance(v, str):
            return STR
        return ANY

    def t_Name(self, e, env, rule, ai):
        if e.id in env:
            return env[e.id]
        if e.id in ("Load", "Store", "Del"):
            return ("node", e.id, None)
        return ANY

    def t_List(self, e, env, rule, ai):
        t = BOT
        for x in e.elts:
            if isinstance(x, ast.Starred):
                s = self.ev(x.value, env, rule, ai)
                t = join(t, s[1] if s[0] == "list" else (BOT if s == BOT else ANY))
            else:
                t = join(t, self.ev(x, env, rule, ai))
        return ("list", t)

    def t_Tuple(self, e, env, rule, ai):
        if any(isinstance(x, ast.Starred) for x in e.elts):
            return ANY
        return ("tuple", tuple(self.ev(x, env, rule, ai) for x in e.elts))

    def t_IfExp(self, e, env, rule, ai):
        # `x if x else y`, `b[0] if b else []`: the test narrows an optional variable
        env_t, env_f = dict(env), dict(env)
        if isinstance(e.test, ast.Name) and e.test.id in env and env[e.test.id] is not None:
            t = env[e.test.id]
            if t[0] == "opt":
                env_t[e.test.id] = t[1]
                env_f[e.test.id] = NONE_T
        return join(self.ev(e.body, env_t, rule, ai), self.ev(e.orelse, env_f, rule, ai))

    def t_BoolOp(self, e, env, rule, ai):
        if isinstance(e.op, ast.Or) and len(e.values) == 2:
            a, b = self.ev(e.values[0], env, rule, ai), self.ev(e.values[1], env, rule, ai)
            if a[0] == "opt":
                return join(a[1], b)
            if a == NONE_T:
                return b
            if a[0] == "list":
                return join(a, b)
            return join(a, b)
        return ANY

    def t_BinOp(self, e, env, rule, ai):
        if isinstance(e.op, ast.Add):
            a, b = self.ev(e.left, env, rule, ai), self.ev(e.right, env, rule, ai)
            if a[0] == "list" and b[0] == "list":
                return ("list", join(a[1], b[1]))
            if a == STR and b == STR:
                return STR
            if a == INT and b == INT:
                return INT
        return ANY

    def t_Attribute(self, e, env, rule, ai):
        v = self.ev(e.value, env, rule, ai)
        if v == BOT:
            return BOT
        if v == TOK:
            if e.attr in ("string", "line"):
                return STR
            if e.attr in ("start", "end"):
                return ("tuple", (INT, INT))
        if is_node(v) and e.attr in POS_ATTRS:
            return INT
        if is_node(v) and e.attr == "id":
            return STR
        return ANY

    def t_Subscript(self, e, env, rule, ai):
        v = self.ev(e.value, env, rule, ai)
        if v == BOT:
            return BOT
        if v[0] == "tuple" and isinstance(e.slice, ast.Constant) and isinstance(e.slice.value, int) and -len(v[1]) <= e.slice.value < len(v[1]):
            return v[1][e.slice.value]
        if v[0] == "list" and not isinstance(e.slice, ast.Slice):
            return v[1]
        if v[0] == "list":
            return v
        return ANY

    def t_ListComp(self, e, env, rule, ai):
        if len(e.generators) != 1:
            return ANY
        g = e.generators[0]
        it = self.ev(g.iter, env, rule, ai)
        env2 = dict(env)
        el = it[1] if it[0] == "list" else ANY
        self.bind_target(g.target, el, env2)
        return ("list", self.ev(e.elt, env2, rule, ai))

    def bind_target(self, t, ty, env):
        if isinstance(t, ast.Name):
            env[t.id] = ty
        elif isinstance(t, (ast.Tuple, ast.List)):
            for i, x in enumerate(t.elts):
                sub = ty[1][i] if ty[0] == "tuple" and i < len(ty[1]) else ANY
                self.bind_target(x, sub, env)

    def t_Call(self, e, env, rule, ai):
        f = e.func
        # ast.X(...)
        if isinstance(f, ast.Attribute) and isinstance(f.value, ast.Name) and f.value.id == "ast":
            if f.attr == "literal_eval":
                return ANY
            return self.constructor(f.attr, e, env, rule, ai)
        if isinstance(f, ast.Attribute) and isinstance(f.value, ast.Name) and f.value.id == "self":
            return self.builder(f.attr, e, env, rule, ai)
        if isinstance(f, ast.Name) and f.id == "list":
            return ("list", ANY)
        if isinstance(f, ast.Attribute) and f.attr == "join":
            return STR
        return ANY

    def builder(self, name, e, env, rule, ai):
        spec = BUILDERS.get(name)
        args = [self.ev(a, env, rule, ai) for a in e.args if not isinstance(a, ast.Starred)]
        for kw in e.keywords:
            if kw.arg is not None:
                self.ev(kw.value, env, rule, ai)
        if name.startswith("raise_"):
            # C11: the helpers need a token or a positioned node (known_location / known_range / starting_from)
            if name in ("raise_syntax_error_known_location", "raise_syntax_error_known_range", "raise_syntax_error_starting_from"):
                for a, at in zip(e.args[1:], args[1:]):
                    if at in (ANY, BOT):
                        self.count(False)
                        continue
                    self.count(True)
                    ok = at == TOK or is_node(at)
                    if not ok:
                        self.problem(rule, ai, "errarg", f"self.{name}(..., `{ast.unparse(a)[:50]}`): argument of abstract type {fmt(at)} where a token or a positioned node is required")
            return NONE_T
        if spec is None:
            return ANY
        if spec == "arg0":
            return args[0] if args else ANY
        if spec == "arg2":
            return args[2] if len(args) > 2 else ANY
        if spec == "arg0-with-ctx":
            ctx = ast.unparse(e.args[1]) if len(e.args) > 1 else "?"
            a0 = args[0] if args else ANY
            if is_node(a0):
                return ("node", a0[1], ctx)
            if a0[0] == "opt" and is_node(a0[1]):
                return ("node", a0[1][1], ctx)
            return ("node", "expr", ctx)
        if spec == "env":
            ctx = "Load"
            for kw in e.keywords:
                if kw.arg == "ctx":
                    ctx = ast.unparse(kw.value)
            return ("node", "Subscript", ctx)
        return spec

    def constructor(self, cls, e, env, rule, ai):
        if cls not in self.fields:
            self.problem(rule, ai, "keyword", f"ast.{cls} is not a node class of the running CPython")
            return ANY
        fields = self.fields[cls]
        attrs = self.sig.get(cls, {}).get("__attributes__", [])
        given = {}
        has_locs = False
        for i, a in enumerate(e.args):
            if i < len(fields):
                given[fields[i]] = a
        for kw in e.keywords:
            if kw.arg is None:
                has_locs = True          # **self.span(...) / **locs / **tok.loc(): the four position attributes
                continue
            if kw.arg not in fields and kw.arg not in attrs:
                self.problem(rule, ai, "keyword", f"ast.{cls}(... {kw.arg}=...) : `{kw.arg}` is neither a field {fields} nor a position attribute of {cls}")
            given[kw.arg] = kw.value
        self.count(True)
        ctx = ast.unparse(given["ctx"]) if "ctx" in given else None
        self._cur_ctx = ctx
        for f in fields:
            ft = self.field_type(cls, f) or ""
            if f not in given:
                if not (ft.endswith("?")) and not (ft.endswith("*")) and ft:
                    self.problem(rule, ai, "required", f"ast.{cls}: required field `{f}` ({ft}) is not supplied")
                # a list field that is simply absent is read as empty by compile() (checked: FunctionDef without decorator_list
                # compiles); an explicit None is not (see check_field)
                continue
            vt = self.ev(given[f], env, rule, ai)
            self._cur_ctx = ctx
            self.check_field(cls, f, ft, vt, given[f], rule, ai)
        if attrs and not has_locs and not all(a in given for a in POS_ATTRS if a in attrs):
            self.problem(rule, ai, "required", f"ast.{cls}: position attributes {attrs} are not supplied (no LOCATIONS / **locs)")
        return ("node", cls, ctx if "ctx" in fields else None)

    def expected_ctx(self, cls, f):
        if (cls, f) in (("Assign", "targets"), ("AugAssign", "target"), ("AnnAssign", "target"), ("For", "target"), ("AsyncFor", "target"),
                        ("comprehension", "target"), ("withitem", "optional_vars"), ("NamedExpr", "target")):
            return "Store"
        if (cls, f) == ("Delete", "targets"):
            return "Del"
        if cls in ("Tuple", "List", "Starred") and f in ("elts", "value"):
            return "same"
        if (cls, f) == ("TypeAlias", "name"):
            return "Store"
        return "Load"

    def check_field(self, cls, f, ft, vt, src, rule, ai):
        if not ft:
            return
        if ft.rstrip("?*") == "constant" and not ft.endswith("*"):
            self.count(True)
            return
        base = ft.rstrip("?*")
        star, opt = ft.endswith("*"), ft.endswith("?")
        text = f"ast.{cls}.{f} ({ft}) <- `{ast.unparse(src)[:60]}`"
        if vt == ANY or vt is None or vt == BOT or (vt[0] in ("list", "opt") and vt[1] in (ANY, BOT)):
            self.count(False)
            return
        self.count(True)
        if star:
            if vt[0] == "opt" or vt == NONE_T:
                self.problem(rule, ai, "field", f"{text}: may be None, a list is required")
                return
            if vt[0] != "list":
                self.problem(rule, ai, "field", f"{text}: value of abstract type {fmt(vt)} where a list is required")
                return
            el = vt[1]
            if el[0] == "opt" and base in ("expr", "stmt"):
                if not (cls == "Dict" and f == "keys") and not (cls == "arguments" and f == "kw_defaults"):
                    self.problem(rule, ai, "field", f"{text}: list elements may be None")
            self.check_elem(cls, f, base, el, text, rule, ai)
            return
        if vt == NONE_T or vt[0] == "opt":
            if not opt:
                self.problem(rule, ai, "field", f"{text}: may be None but the field is required")
            if vt == NONE_T:
                return
            vt = vt[1]
            if vt == NONE_T:
                return
        self.check_elem(cls, f, base, vt, text, rule, ai)

    def check_elem(self, cls, f, base, vt, text, rule, ai):
        if vt == ANY or vt is None or vt == BOT:
            return
        if vt[0] == "opt":
            vt = vt[1]
        if base in ("identifier", "string"):
            if vt not in (STR,) and vt != ANY:
                self.problem(rule, ai, "field", f"{text}: {fmt(vt)} where an identifier/string is required")
            return
        if base == "int":
            if vt not in (INT, BOOL):
                self.problem(rule, ai, "field", f"{text}: {fmt(vt)} where an int is required")
            return
        if base == "constant":
            return
        if not is_node(vt):
            if vt[0] in ("tok", "str", "int", "bool", "list", "tuple"):
                self.problem(rule, ai, "field", f"{text}: {fmt(vt)} where a `{base}` node is required")
            return
        vcls, vctx = vt[1], vt[2]
        if "|" not in vcls and vcls in self.fields or vcls in ("expr", "stmt", "pattern"):
            cat = self.category(vcls) if vcls in self.fields else vcls
            if base in ("expr", "stmt", "pattern", "operator", "unaryop", "cmpop", "boolop", "expr_context", "excepthandler", "type_param"):
                if cat != base:
                    self.problem(rule, ai, "field", f"{text}: a `{vcls}` node where a `{base}` is required")
                    return
            elif base in self.fields and vcls != base and cat != base:
                self.problem(rule, ai, "field", f"{text}: a `{vcls}` node where a `{base}` is required")
                return
        if base == "expr" and vctx not in (None, "?"):
            want = self.expected_ctx(cls, f)
            if want == "same":
                want = getattr(self, "_cur_ctx", None)
            if want in ("Load", "Store", "Del") and vctx != want:
                self.problem(rule, ai, "ctx", f"{text}: expression context is {vctx}, {want} is required at this field")

    def problem(self, rule, ai, kind, text):
        if self.collect:
            self.problems.append(TypeProblem(rule, ai, kind, text))

    def count(self, checked: bool):
        if self.collect:
            if checked:
                self.checked += 1
            else:
                self.unchecked += 1

    # ------------------------------------------------------------------ driver
    def alt_type(self, r: Rule, ai: int):
        a = r.alts[ai]
        if r.shape == "seq_alts":
            return self.pe_type(a.items[0].pe)
        if a.action is None:
            return ANY
        env = self.item_env(a)
        return self.ev(a.action, env, r.name, ai)

    def run(self):
        for _round in range(12):
            changed = False
            for n, r in self.ir.rules.items():
                t = BOT
                for ai in range(len(r.alts)):
                    if r.alts[ai].gated:
                        continue
                    at = self.alt_type(r, ai)
                    if at == NONE_T and len(r.alts) > 1:
                        continue
                    t = join(t, at)
                if t != self.rtype[n]:
                    self.rtype[n] = t
                    changed = True
            if not changed:
                break
        self.collect = True
        for n, r in self.ir.rules.items():
            if self.only is not None and n not in self.only:
                continue
            for ai in range(len(r.alts)):
                self.alt_type(r, ai)
        return self.problems


def fmt(t) -> str:
    if t is None or t == BOT:
        return "bottom"
    k = t[0]
    if k == "node":
        return f"{t[1]}" + (f"[{t[2]}]" if t[2] else "")
    if k in ("list", "opt"):
        return f"{k}[{fmt(t[1])}]"
    if k == "tuple":
        return "(" + ", ".join(fmt(x) for x in t[1]) + ")"
    return k
