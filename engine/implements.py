"""`implements(R)`: every extracted parser method is the PEG meaning of its grammar rule.

Input: the grammar as dumped by harness/dump_grammar.py (parsed by the repository's own pegen front end) and
the IR extracted from the shipped module by engine/pegir.py.  For every grammar rule the obligation is that the
method has: the decorator the grammar's flags prescribe, the same alternatives in the same order, per alternative
the same items (same parsing expression, optional-ness, cut position, invalid gating, bound variable) and the same
action after LOCATIONS / UNREACHABLE substitution.  Helper rules (`_tmp_N`) are matched *up to renaming* by
bisimulation: a group in the grammar corresponds to whatever helper the method calls, provided that helper in
turn implements the group's right-hand side.

This is a decision procedure of our own (structural unification), named as back end `pegir-unify` in evidence.
"""
from __future__ import annotations

import ast
import re
from dataclasses import dataclass

from .pegir import PE, Alt, Item, ParserIR, Rule

SPECIAL_XONSH = {"SOFT_KEYWORD", "KEYWORD", "NAME", "ANY_TOKEN"}
STOCK_LEAVES = {"NAME", "NUMBER", "STRING", "FSTRING_START", "FSTRING_MIDDLE", "FSTRING_END", "OP", "TYPE_COMMENT"}
STOCK_EXPECT = {"NEWLINE", "DEDENT", "INDENT", "ENDMARKER", "ASYNC", "AWAIT"}


@dataclass
class Mismatch:
    rule: str
    alt: int            # -1: rule level
    what: str

    def __str__(self):
        where = f"{self.rule}" + (f" alt {self.alt + 1}" if self.alt >= 0 else "")
        return f"{where}: {self.what}"


class Matcher:
    def __init__(self, grammar: dict, ir: ParserIR, dialect: str = "xonsh",
                 location_formatting: str = "**self.span(_lnum, _col)", unreachable: str = "None"):
        self.g = grammar
        self.ir = ir
        self.dialect = dialect
        self.tokens = set(grammar["tokens"])
        self.rules = {r["name"]: r for r in grammar["rules"]}
        self.loc = location_formatting
        self.unreach = unreachable
        self.helper_memo: dict = {}      # (repr(rhs), helper name) -> list[Mismatch] | None (in progress)
        self.used_helpers: set = set()
        self.keywords: set = set()
        self.soft_keywords: set = set()

    # ---- grammar item -> expected parsing expression -------------------------------------------
    def _unwrap(self, it):
        while it["k"] == "named":
            it = it["item"]
        return it

    def leaf_name(self, v: str):
        """expected PE + default variable name for a NameLeaf"""
        if self.dialect == "xonsh":
            if v in SPECIAL_XONSH:
                return PE(v.lower()), v.lower()
            if v.isupper() and v in self.tokens:
                return PE("token", v), "_" + v.lower()
            return PE("rule", v), v
        else:
            if v == "SOFT_KEYWORD":
                return PE("soft_keyword"), "soft_keyword"
            if v in STOCK_LEAVES:
                return PE(v.lower()), v.lower()
            if v in STOCK_EXPECT:
                return PE("expect", v), "_" + v.lower()
            return PE("rule", v), v

    def note_keyword(self, raw: str):
        val = ast.literal_eval(raw)
        if re.match(r"[a-zA-Z_]\w*\Z", val):
            (self.keywords if raw.endswith("'") else self.soft_keywords).add(val)
        return val

    def expected(self, it):
        """-> (expected-PE-or-group, default_name, optional_wrapped)

        expected PE may contain pseudo nodes PE('group', repr, (rhs_json,)) to be matched against a helper rule.
        """
        k = it["k"]
        if k == "named":
            pe, name, opt = self.expected(it["item"])
            return pe, (it["name"] or name), opt
        if k == "name":
            pe, name = self.leaf_name(it["v"])
            return pe, name, False
        if k == "string":
            return PE("expect", self.note_keyword(it["v"])), "literal", False
        if k in ("group", "rhs"):
            rhs = it["rhs"]
            if len(rhs["alts"]) == 1 and len(rhs["alts"][0]["items"]) == 1:
                return self.expected(rhs["alts"][0]["items"][0])
            return PE("group", rhs["repr"], (rhs,)), None, False   # name = helper's name (unknown)
        if k == "opt":
            pe, _n, _o = self.expected(it["node"])
            return pe, "opt", True
        if k in ("repeat0", "repeat1"):
            node = it["node"]
            if node["k"] == "name":
                sub, _n = self.leaf_name(node["v"])
            else:
                sub, _n, _o = self.expected({"k": "rhs", "rhs": {"alts": [{"items": [{"k": "named", "name": None, "item": node}],
                                                                    "icut": -1, "action": None}],
                                                          "repr": "<inline>"}})
            if self.dialect == "xonsh":
                return PE("repeated", None, (sub,)), ("zero_or_more" if k == "repeat0" else "one_or_more"), k == "repeat0"
            return PE("loop", k, (sub,)), None, k == "repeat0"
        if k == "gather":
            elem, _n, _o = self.expected(it["node"])
            sep, _n2, _o2 = self.expected(it["sep"])
            if self.dialect == "xonsh":
                return PE("gathered", None, (elem, sep)), "gathered", False
            return PE("gatherloop", None, (elem, sep)), None, False
        if k in ("poslook", "neglook"):
            sub, _n, _o = self.expected(it["node"])
            return PE(k, None, (sub,)), None, False
        if k == "forced":
            node = it["node"]
            if node["k"] == "group":
                sub, _n, _o = self.expected({"k": "rhs", "rhs": node["rhs"]})
                return PE("forced", None, (sub,)), "forced", False
            val = ast.literal_eval(node["v"])
            self.note_keyword(node["v"])
            return PE("forced", repr(val) if False else node["v"], (PE("expect", val),)), "forced", False
        if k == "cut":
            return None, "cut", False
        raise ValueError(k)

    # ---- matching ------------------------------------------------------------------------------
    def match_pe(self, exp: PE, act: PE, ctx: str, out: list):
        if exp.kind == "group":
            if act.kind != "rule" or act.arg not in self.ir.rules or not act.arg.startswith("_tmp_"):
                out.append(f"{ctx}: expected a helper rule for group {exp.arg}, found {act}")
                return
            sub = self.match_helper(exp.subs[0], act.arg)
            if sub:
                out.append(f"{ctx}: helper {act.arg} does not implement group: " + "; ".join(str(m) for m in sub[:3]))
            return
        if exp.kind in ("loop", "gatherloop"):
            # stock pegen: a helper `_loop0_N` / `_loop1_N` / `_gather_N`
            if act.kind != "rule" or act.arg not in self.ir.rules:
                out.append(f"{ctx}: expected a loop helper, found {act}")
                return
            sub = self.match_loop_helper(exp, act.arg)
            if sub:
                out.append(f"{ctx}: helper {act.arg}: " + "; ".join(sub[:3]))
            return
        if exp.kind != act.kind:
            out.append(f"{ctx}: expected {exp}, found {act}")
            return
        if exp.kind == "forced":
            # the expectation text only matters for the error message: compare the literal too
            if exp.arg is not None and act.arg is not None and exp.arg != act.arg:
                out.append(f"{ctx}: forced expectation text {act.arg!r} != {exp.arg!r}")
        elif exp.arg != act.arg:
            out.append(f"{ctx}: expected {exp}, found {act}")
            return
        if len(exp.subs) != len(act.subs):
            out.append(f"{ctx}: arity differs: expected {exp}, found {act}")
            return
        for e, a in zip(exp.subs, act.subs):
            self.match_pe(e, a, ctx, out)

    def match_loop_helper(self, exp: PE, helper: str):
        r = self.ir.rules[helper]
        self.used_helpers.add(helper)
        out: list = []
        if exp.kind == "loop":
            want = "loop0" if exp.arg == "repeat0" else "loop1"
            if r.shape != "loop" or r.loop_kind != want:
                return [f"expected a {want} helper, found shape {r.shape}/{r.loop_kind}"]
            items = r.alts[0].real_items()
            if len(items) != 1:
                return ["loop helper with != 1 item"]
            self.match_pe(exp.subs[0], items[0].pe, helper, out)
            if not (isinstance(r.alts[0].action, ast.Name) and r.alts[0].action.id == items[0].var):
                out.append("loop helper does not append its item")
            return out
        # gather: `_gather_N: elem=E seq=_loop0_M { [elem] + seq }`, `_loop0_M: SEP elem=E { elem }`
        if r.shape != "alts" or len(r.alts) != 1:
            return ["gather helper shape"]
        items = r.alts[0].real_items()
        if len(items) != 2 or items[1].pe.kind != "rule":
            return ["gather helper items"]
        self.match_pe(exp.subs[0], items[0].pe, helper, out)
        if ast.unparse(r.alts[0].action) != f"[{items[0].var}] + {items[1].var}":
            out.append("gather helper action is not [elem] + seq")
        lp = self.ir.rules.get(items[1].pe.arg)
        if lp is None or lp.shape != "loop" or lp.loop_kind != "loop0":
            out.append("gather helper does not use a loop0 helper")
            return out
        self.used_helpers.add(lp.name)
        li = lp.alts[0].real_items()
        if len(li) != 2:
            out.append("gather loop items")
            return out
        self.match_pe(exp.subs[1], li[0].pe, lp.name, out)
        self.match_pe(exp.subs[0], li[1].pe, lp.name, out)
        if not (isinstance(lp.alts[0].action, ast.Name) and lp.alts[0].action.id == li[1].var):
            out.append("gather loop does not append elem")
        return out

    def match_helper(self, rhs: dict, helper: str):
        key = (rhs["repr"], helper)
        if key in self.helper_memo:
            r = self.helper_memo[key]
            return [] if r is None else r          # in progress => coinductive assumption
        self.helper_memo[key] = None
        self.used_helpers.add(helper)
        pseudo = {"name": helper, "type": None, "memo": False, "left_recursive": False, "leader": False,
                  "nullable": False, "rhs": rhs}
        res = self.match_rule(pseudo, helper_mode=True)
        self.helper_memo[key] = res
        return res

    def alts_uses_locations(self, alts) -> bool:
        for alt in alts:
            if alt["action"] and "LOCATIONS" in alt["action"]:
                return True
            for n in alt["items"]:
                it = n["item"] if n["k"] == "named" else n
                if it["k"] == "group" and self.alts_uses_locations(it["rhs"]["alts"]):
                    return True
        return False

    def has_invalid(self, node) -> bool:
        k = node["k"]
        if k == "name":
            return node["v"].startswith("invalid")
        if k in ("string", "cut"):
            return False
        if k == "named":
            return self.has_invalid(node["item"])
        if k in ("group", "rhs"):
            return any(any(self.has_invalid(i) for i in a["items"]) for a in node["rhs"]["alts"])
        if k in ("opt", "repeat0", "repeat1", "gather", "poslook", "neglook", "forced"):
            return self.has_invalid(node["node"])
        return False

    def flatten(self, rule) -> dict:
        rhs = rule["rhs"]
        if (not rule["name"].startswith("_loop") and len(rhs["alts"]) == 1 and len(rhs["alts"][0]["items"]) == 1):
            it = rhs["alts"][0]["items"][0]
            inner = it["item"] if it["k"] == "named" else it
            if inner["k"] == "group":
                return inner["rhs"]
        return rhs

    def expected_decorator(self, rule, helper_mode: bool):
        if rule["left_recursive"]:
            return "memoize_left_rec" if rule["leader"] else "logger"
        if self.dialect == "xonsh":
            return "memoize" if rule["memo"] else None
        return "memoize"

    def match_rule(self, rule: dict, helper_mode: bool = False):
        name = rule["name"]
        out: list = []
        r = self.ir.rules.get(name)
        if r is None:
            if name in self.ir.unrecognised:
                return [Mismatch(name, -1, f"method shape not recognised: {self.ir.unrecognised[name].reason}")]
            return [Mismatch(name, -1, "no method for this grammar rule in the shipped parser")]
        dec = self.expected_decorator(rule, helper_mode)
        if r.decorator != dec:
            out.append(Mismatch(name, -1, f"decorator is {r.decorator!r}, grammar flags prescribe {dec!r}"))
        wi = name.endswith("without_invalid")
        if r.without_invalid != wi:
            out.append(Mismatch(name, -1, "call_invalid_rules save/restore prologue does not match the rule name"))
        rhs = self.flatten(rule)
        alts = rhs["alts"]
        simple = (self.dialect == "xonsh" and len(rule["rhs"]["alts"]) > 1
                  and not any(a["action"] for a in rule["rhs"]["alts"])
                  and not any(len(a["items"]) > 1 for a in rule["rhs"]["alts"]))
        if simple:
            if r.shape != "seq_alts":
                out.append(Mismatch(name, -1, f"expected the seq_alts shape, found {r.shape}"))
                return out
            alts = rule["rhs"]["alts"]
            if len(alts) != len(r.alts):
                out.append(Mismatch(name, -1, f"{len(r.alts)} alternatives, grammar has {len(alts)}"))
                return out
            for i, (ga, ra) in enumerate(zip(alts, r.alts)):
                exp, _n, opt = self.expected(ga["items"][0])
                msgs: list = []
                if exp is None or opt:
                    msgs.append("item kind cannot appear in a seq_alts alternative")
                else:
                    self.match_pe(exp, ra.items[0].pe, f"{name} alt {i + 1}", msgs)
                out.extend(Mismatch(name, i, m) for m in msgs)
            return out
        if r.shape != "alts":
            out.append(Mismatch(name, -1, f"expected if-chain shape, found {r.shape}"))
            return out
        uses = self.alts_uses_locations(rule["rhs"]["alts"])
        if r.uses_span != uses:
            out.append(Mismatch(name, -1, f"reads _lnum/_col: {r.uses_span}, grammar uses LOCATIONS: {uses}"))
        if len(alts) != len(r.alts):
            out.append(Mismatch(name, -1, f"{len(r.alts)} alternatives, grammar has {len(alts)}"))
            return out
        for i, (ga, ra) in enumerate(zip(alts, r.alts)):
            for m in self.match_alt(name, i, ga, ra, wi):
                out.append(Mismatch(name, i, m))
        return out

    def match_alt(self, rname: str, idx: int, ga: dict, ra: Alt, without_invalid: bool):
        msgs: list = []
        has_cut = any(self._unwrap(i)["k"] == "cut" for i in ga["items"])
        has_inv = any(self.has_invalid(i) for i in ga["items"])
        action = ga["action"]
        if not action and has_inv:
            action = "UNREACHABLE"
        unreachable = False
        used = None
        if action:
            if "LOCATIONS" in action:
                action = action.replace("LOCATIONS", self.loc)
            if "UNREACHABLE" in action:
                unreachable = True
                action = action.replace("UNREACHABLE", self.unreach)
            try:
                used = {n.id for n in ast.walk(ast.parse(action)) if isinstance(n, ast.Name)}
            except SyntaxError as e:
                return [f"grammar action does not parse: {e}"]
            if has_cut:
                used.add("cut")
        if ra.gated != has_inv:
            msgs.append(f"invalid-rule gating: method {'has' if ra.gated else 'lacks'} the call_invalid_rules gate, "
                        f"grammar alternative {'references' if has_inv else 'does not reference'} an invalid_ rule")
        if ra.has_cut != has_cut:
            msgs.append("cut presence differs")
        if has_cut and not ra.cut_guard_after:
            msgs.append("`if cut: return None` guard missing after the alternative")
        if not ra.reset_after:
            msgs.append("`self._reset(mark)` missing after the alternative")
        if without_invalid and not ra.cleanup_ok:
            msgs.append("call_invalid_rules is not restored before the return")
        ritems = [i for i in ra.items if not i.is_gate]
        if len(ritems) != len(ga["items"]):
            msgs.append(f"{len(ritems)} items, grammar has {len(ga['items'])}")
            return msgs
        local_names: list = []
        for j, (gi, ri) in enumerate(zip(ga["items"], ritems)):
            exp, dname, opt = self.expected(gi)
            ctx = f"item {j + 1}"
            if exp is None:            # cut
                if not ri.is_cut:
                    msgs.append(f"{ctx}: expected a cut")
                continue
            if ri.is_cut:
                msgs.append(f"{ctx}: unexpected cut")
                continue
            if ri.optional != opt:
                msgs.append(f"{ctx}: optional-ness differs (method: {ri.optional}, grammar: {opt})")
            self.match_pe(exp, ri.pe, ctx, msgs)
            # variable binding
            if dname is None and exp.kind == "group" and ri.pe.kind == "rule":
                dname = ri.pe.arg
            elif dname is None and exp.kind in ("loop", "gatherloop") and ri.pe.kind == "rule":
                dname = ri.pe.arg
            name = dname
            if unreachable:
                name = None
            elif gi["k"] == "named" and gi["name"]:
                name = gi["name"]
            if used is not None and name not in used:
                name = None
            if name:
                orig, c = name, 0
                while name in local_names:
                    c += 1
                    name = f"{orig}_{c}"
                local_names.append(name)
            if (ri.var or None) != (name or None):
                msgs.append(f"{ctx}: bound variable is {ri.var!r}, expected {name!r}")
        if not action:
            if len(local_names) == 1:
                action = local_names[0]
            else:
                action = "[" + ", ".join(local_names) + "]"
        try:
            exp_ast = ast.dump(ast.parse(action, mode="eval").body)
        except SyntaxError as e:
            msgs.append(f"expected action does not parse: {e}")
            return msgs
        act_ast = ast.dump(ra.action) if ra.action is not None else "<none>"
        if exp_ast != act_ast:
            msgs.append("action differs: method returns `" + (ast.unparse(ra.action) if ra.action is not None else "?")[:160]
                        + "`, grammar action is `" + ast.unparse(ast.parse(action, mode='eval').body)[:160] + "`")
        return msgs

    def run(self):
        """-> dict rule name -> list[Mismatch]; plus table checks"""
        res = {}
        for name, rule in self.rules.items():
            res[name] = self.match_rule(rule)
        return res

    def table_checks(self):
        out = []
        kw, skw = tuple(sorted(self.keywords)), tuple(sorted(self.soft_keywords))
        if self.ir.keywords is not None and tuple(self.ir.keywords) != kw:
            out.append(f"KEYWORDS table {self.ir.keywords} != quoted identifiers of the grammar {kw}")
        if self.ir.soft_keywords is not None and tuple(self.ir.soft_keywords) != skw:
            out.append(f"SOFT_KEYWORDS table {self.ir.soft_keywords} != double-quoted identifiers of the grammar {skw}")
        if self.ir.keywords is None or self.ir.soft_keywords is None:
            out.append("KEYWORDS / SOFT_KEYWORDS table missing or not a literal")
        extra = [n for n in self.ir.rules if n not in self.rules and n not in self.used_helpers]
        if extra:
            out.append(f"methods that implement no grammar rule or reachable helper: {extra[:10]}")
        if self.ir.unrecognised:
            out.append(f"methods of unrecognised shape: {sorted(self.ir.unrecognised)[:10]}")
        return out
