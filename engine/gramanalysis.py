"""Independent re-computation of the generator's grammar analyses (nullable, left-recursive, leader) from the grammar
dump, for comparison with what pegen.parser_generator computed (C17).  Conventions follow pegen: a lookahead item is
treated as a non-nullable, name-less item when computing first-position calls (documented quirk of NullableVisitor)."""
from __future__ import annotations

import networkx as nx


def analyse(grammar: dict, skip_nullable_prefix: bool = True):
    """skip_nullable_prefix=False: only the FIRST item of every alternative counts as a first-position call (used to recognise
    grammars whose left recursion is hidden behind a nullable prefix, which C17's quantifier excludes)"""
    rules = {r["name"]: r for r in grammar["rules"]}
    nullable = {n: False for n in rules}

    def item_nullable(it) -> bool:
        k = it["k"]
        if k == "named":
            return item_nullable(it["item"])
        if k == "name":
            return nullable.get(it["v"], False)
        if k == "string":
            return it["v"] in ("''", '""')
        if k in ("group", "rhs"):
            return any(all(item_nullable(i) for i in a["items"]) for a in it["rhs"]["alts"])
        if k in ("opt", "repeat0", "forced"):
            return True
        if k in ("repeat1", "gather", "cut", "poslook", "neglook"):
            return False
        raise ValueError(k)

    changed = True
    while changed:
        changed = False
        for n, r in rules.items():
            if not nullable[n] and any(all(item_nullable(i) for i in a["items"]) for a in r["rhs"]["alts"]):
                nullable[n] = True
                changed = True

    def initial(it) -> set:
        k = it["k"]
        if k == "named":
            return initial(it["item"])
        if k == "name":
            return {it["v"]}
        if k in ("string", "cut", "poslook", "neglook", "forced"):
            return set()
        if k in ("group", "rhs"):
            out = set()
            for a in it["rhs"]["alts"]:
                for i in a["items"]:
                    out |= initial(i)
                    if not skip_nullable_prefix or not item_nullable(i):
                        break
            return out
        if k in ("opt", "repeat0", "repeat1", "gather"):
            return initial(it["node"])
        raise ValueError(k)

    g = nx.DiGraph()
    for n, r in rules.items():
        g.add_node(n)
        for a in r["rhs"]["alts"]:
            for i in a["items"]:
                for m in initial(i):
                    if m in rules:
                        g.add_edge(n, m)
                if not skip_nullable_prefix or not item_nullable(i):
                    break
    left, leader = {n: False for n in rules}, {n: False for n in rules}
    candidates = {}
    for scc in nx.strongly_connected_components(g):
        if len(scc) > 1:
            for n in scc:
                left[n] = True
            cands = []
            for v in scc:
                sub = g.subgraph(scc - {v})
                if nx.is_directed_acyclic_graph(sub):
                    cands.append(v)
            if cands:
                leader[min(cands)] = True
            for n in scc:
                candidates[n] = (frozenset(scc), frozenset(cands))
        else:
            (n,) = scc
            if g.has_edge(n, n):
                left[n] = leader[n] = True
                candidates[n] = (frozenset(scc), frozenset(scc))
    analyse.candidates = candidates
    return nullable, left, leader
