"""Back ends: every VC is one query `axioms /\\ path-condition /\\ not goal`; unsat = discharged.

z3 (python API, in worker processes fed with SMT-LIB text) is primary; /usr/bin/cvc5 takes z3's `unknown`s
(and, in the thorough tier, re-checks everything: disagreement = checker defect).  `unknown`/timeout is never a
violation.
"""
from __future__ import annotations

import multiprocessing as mp
import os
import subprocess
import tempfile
import time

import z3

from .pyvals import VAL_AXIOMS


def to_smt2(pc, goal) -> str:
    s = z3.Solver()
    s.add(*VAL_AXIOMS)
    s.add(*pc)
    s.add(z3.Not(goal))
    return s.to_smt2()


def _z3_once(text, timeout_ms, ematch_only=False):
    t0 = time.time()
    try:
        s = z3.Solver()
        s.set("timeout", timeout_ms)
        if ematch_only:
            # second configuration of the portfolio: E-matching only (no model-based instantiation, no auto-configuration); it is
            # incomplete for `sat`, so only its `unsat` answers are used
            s.set("auto_config", False)
            s.set("mbqi", False)
        s.from_string(text)
        r = s.check()
        if r == z3.unsat:
            return "unsat", "", time.time() - t0
        if r == z3.sat:
            m = s.model()
            items = []
            for d in m.decls():
                try:
                    items.append(f"{d.name()} = {m[d]}")
                except Exception:
                    pass
            return "sat", "; ".join(sorted(items))[:3000], time.time() - t0
        return "unknown", s.reason_unknown(), time.time() - t0
    except Exception as e:  # noqa: BLE001
        return "error", repr(e)[:500], time.time() - t0


def _run_z3(args):
    """portfolio inside one worker: z3 with a short budget, then cvc5, then z3 with the full budget.
    -> (verdict, info, seconds, backend)"""
    text, timeout_ms = args
    r, info, secs = _z3_once(text, min(3000, timeout_ms))
    if r in ("unsat", "sat"):
        return r, info, secs, "z3"
    if "forall" in text:
        r1, _i1, secs1 = _z3_once(text, min(3000, timeout_ms), ematch_only=True)
        secs += secs1
        if r1 == "unsat":
            return r1, "", secs, "z3"
    r2, info2, secs2 = run_cvc5(text, max(1, timeout_ms // 1000))
    if r2 == "unsat":
        return "unsat", "", secs + secs2, "cvc5"
    r3, info3, secs3 = _z3_once(text, timeout_ms)
    if r3 in ("unsat", "sat"):
        return r3, info3, secs + secs2 + secs3, "z3"
    if r2 == "sat":
        return "sat", "(cvc5 model not extracted)", secs + secs2 + secs3, "cvc5"
    return "unknown", f"z3: {r3} {info3}; cvc5: {r2} {info2}", secs + secs2 + secs3, "z3+cvc5"


def run_cvc5(text: str, timeout_s: int):
    t0 = time.time()
    with tempfile.NamedTemporaryFile("w", suffix=".smt2", delete=False) as f:
        f.write("(set-logic ALL)\n" + text.replace("(check-sat)", "").replace("seq.nth_u", "seq.nth").replace("seq.nth_i", "seq.nth") + "\n(check-sat)\n")
        path = f.name
    try:
        p = subprocess.run(["/usr/bin/cvc5", "--strings-exp", f"--tlimit={timeout_s * 1000}", path], capture_output=True, text=True,
                           timeout=timeout_s + 5)
        out = (p.stdout or "").strip().splitlines()
        r = out[0] if out else "error"
        if r not in ("sat", "unsat", "unknown"):
            return "error", ((p.stdout or "") + (p.stderr or ""))[:300], time.time() - t0
        return r, (p.stderr or "")[:300], time.time() - t0
    except subprocess.TimeoutExpired:
        return "unknown", "cvc5 timeout", time.time() - t0
    finally:
        os.unlink(path)


_pool = None


def pool():
    global _pool
    if _pool is None:
        _pool = mp.get_context("fork").Pool(min(16, os.cpu_count() or 4))
    return _pool


def discharge(vcs, timeout_ms: int = 10000, both: bool = False):
    """sets vc.status in {discharged, refuted, unknown}, vc.model, vc.seconds, vc.backend"""
    def conjuncts(g):
        if z3.is_and(g):
            out = []
            for c in g.children():
                out.extend(conjuncts(c))
            return out
        if z3.is_implies(g):
            a, b = g.children()
            return [z3.Implies(a, c) for c in conjuncts(b)]
        if z3.is_quantifier(g) and g.is_forall():
            n = g.num_vars()
            vs = [z3.Const(g.var_name(i), g.var_sort(i)) for i in range(n)]
            body = z3.substitute_vars(g.body(), *reversed(vs))
            parts = conjuncts(body)
            if len(parts) > 1:
                return [z3.ForAll(vs, c) for c in parts]
        return [g]

    parts = []          # per vc: list of smt2 texts (one query per top-level conjunct of the goal: small queries are stable ones)
    for vc in vcs:
        raw = vc.goal if z3.is_expr(vc.goal) else z3.BoolVal(bool(vc.goal))
        # split BEFORE simplification (simplify turns => into a flat disjunction); queries keep the un-simplified terms
        # (simplify rewrites Nth into seq.nth_i/nth_u, which the triggers of the instantiated lemmas do not match)
        cs = [c for c in conjuncts(raw) if not z3.is_true(z3.simplify(c))]
        vc.goal = z3.simplify(raw)
        if not cs:
            vc.status, vc.backend, vc.seconds = "discharged", "z3-simplify", 0.0
            parts.append(None)
        else:
            parts.append([to_smt2(vc.pc, c) for c in cs])
    jobs = [(t, timeout_ms) for ts in parts if ts is not None for t in ts]
    results = pool().map(_run_z3, jobs, chunksize=2) if jobs else []
    it = iter(results)
    for vc, ts in zip(vcs, parts):
        if ts is None:
            continue
        rs = [next(it) for _ in ts]
        vc.seconds = sum(r[2] for r in rs)
        vc.backend = "+".join(sorted({r[3] for r in rs}))
        sat = [r for r in rs if r[0] == "sat"]
        unk = [r for r in rs if r[0] not in ("sat", "unsat")]
        if sat:
            vc.status, vc.model = "refuted", sat[0][1]
        elif unk:
            vc.status, vc.model = "unknown", unk[0][1]
        else:
            vc.status = "discharged"
    texts = [ts[0] if ts else None for ts in parts]
    for vc, t in zip(vcs, texts):
        if t is None:
            continue
        if both and vc.status == "discharged" and vc.backend == "z3":
            r2, info2, secs2 = run_cvc5(t, max(1, timeout_ms // 1000))
            if r2 == "sat":
                vc.status, vc.model = "unknown", "z3 says unsat, cvc5 says sat: checker defect"
            elif r2 == "unsat":
                vc.backend = "z3+cvc5"
    return vcs
