"""Sidecar contract objects (plain data; no edit of /repo).  Clause bodies are Python expressions parsed with `ast`
and evaluated by the same symbolic evaluator as the code, extended with old(e), implies(a, b),
all(<e> for j in range(a, b)), any(...), and spec functions registered in contracts/spec.py."""
from __future__ import annotations

from dataclasses import dataclass, field
from typing import Optional


@dataclass
class Contract:
    name: str                                  # "<file>:<Class>.<method>" or "<file>:<function>[.<nested>]"
    params: dict = field(default_factory=dict)  # parameter name -> type string (see pyexec.mk)
    returns: Optional[str] = None
    requires: list = field(default_factory=list)
    ensures: list = field(default_factory=list)
    raises: list = field(default_factory=list)          # exception classes that may escape
    raises_when: dict = field(default_factory=dict)     # class -> spec expr over the PRE state: the call raises iff it holds
    may_raise: list = field(default_factory=list)       # classes that may be raised under an unspecified condition
    always_raises: bool = False
    loops: dict = field(default_factory=dict)           # loop ordinal -> {"inv": [...], "dec": "expr"} (ordinal in source order)
    modifies: list = field(default_factory=list)        # "self._index", "self._tokenizer._tokens", ...
    closure: dict = field(default_factory=dict)         # free variables of nested functions -> type string
    pure: bool = False
    verify: bool = True                                 # False: contract is ASSUMED (body not verified) -- listed in evidence
    why_assumed: str = ""
    vararg: Optional[str] = None                        # type of *args if any
    properties: list = field(default_factory=list)      # property ids this contract serves
    witness: dict = field(default_factory=dict)          # ensures clause -> {existential var: witness expr over locals} (proof hint only)
    raises_ensures: list = field(default_factory=list)  # clauses over `exc` that hold whenever the function raises
    strict_progress: bool = False                       # rule-like method: success => index strictly increases (has an ensures saying so)
    product: dict = field(default_factory=dict)          # relational (2-run) obligation: {"on": "self._verbose", "observe": [...]}
    rulefn_preserves: list = field(default_factory=list)  # ASSUMED of every uninterpreted rule-like call made by this function
    generator: bool = False                             # generator function: ensures may mention `yielded` (tokens yielded by this call)
    yields: str = "Tok"                                 # what `yielded` holds: "Tok" (tokens) or "node" (NodeAbs records: span, identity, ghost index)
    returns_same: dict = field(default_factory=dict)     # spec expr over the PRE state -> parameter: when it holds the call returns THAT argument object
                                                         # (verified as `implies(cond, result is param)`; call sites hand the object on)
    requires_assumed: dict = field(default_factory=dict)  # ghost precondition -> why it is ASSUMED (not checked) at call sites; listed in evidence
    opaque: list = field(default_factory=list)           # locals whose values are NOT modelled: statements that only compute / update them are skipped
                                                         # (sound as long as they flow only into values the contract leaves unconstrained)
    opaque_loops: dict = field(default_factory=dict)     # loop ordinal -> {"via": local, "over": abstract list, "writes": [attrs]}: a loop that only builds the opaque
                                                         # local `via` from the elements of `over`; skipped after SYNTACTIC side conditions (see pyexec.opaque_loop)
    local_asserts: dict = field(default_factory=dict)    # local name -> spec expr over the locals: an obligation stated right after every assignment to that
                                                         # local (what the value computed at that point must be; lets a contract speak about an intermediate text)
    inline: list = field(default_factory=list)           # module-level helper functions whose REAL bodies are executed at their call sites (no contract of their own)
    alias: dict = field(default_factory=dict)            # parameter -> path it aliases at every call site (e.g. endprog -> state.end_progs.top); checked at call sites
    floor: int = 1                                      # vacuity guard: minimum number of obligations expected


REGISTRY: dict = {}


def C(name, **kw) -> Contract:
    c = Contract(name, **kw)
    REGISTRY[name] = c
    return c
