"""E1 `pyvc` -- verification-condition generator for the hand-written functions (DESIGN 3.2).

On every run the real source file is read with `ast`, the function under contract is located by qualified name and
its body is executed symbolically, path by path.  Obligations (VCs) are emitted for:
  post        each `ensures` clause on every returning path
  raises      every raising path raises a class the contract allows
  invariant   loop invariant on entry / preserved by an arbitrary iteration
  variant     loop variant bounded below and strictly decreasing
  pre         callee precondition at every call site (callers see callee CONTRACTS only, never bodies)
  safety      every subscript / dict lookup / next() / assert / attribute-of-None / unpacking cannot raise
Each VC is `path-condition ==> goal`, discharged by z3 (cvc5 takes unknowns in engine/smt.py).

Python semantics assumed by the encoding (A1): ints are mathematical integers; `and`/`or` short-circuit with Python
truthiness; negative indices wrap once; slices clamp; tuples are fixed-arity products; NamedTuple fields are
immutable; evaluation order left-to-right.  What is not modelled makes the function's obligations UNDECIDED
(`Unsupported`), never silently skipped.
"""
from __future__ import annotations

import ast
import time
from dataclasses import dataclass, field
from typing import Any, Optional

import z3

from .pyvals import (NONE, Exc, IntSeq, NoneVal, PAbs, PyCache, PyCallable, PyConst, PyGen, PyKey, PyList, PyLit, PyMap, PyObj,
                     PyOpt, PyStrSet, PyTuple, StrSeq, Tok, TokSeq, Val, ValSeq, clone, fresh, is_bool, is_int, is_seq, is_str,
                     is_tok, is_val, is_z3, same_obj_z3, tok_fields, truthy)


class Unsupported(Exception):
    pass


@dataclass
class VC:
    id: str
    kind: str
    desc: str
    pc: list
    goal: Any
    lineno: int = 0
    function: str = ""
    status: str = "open"
    seconds: float = 0.0
    model: Any = None
    backend: str = ""


class St:
    """one symbolic path"""

    def __init__(self):
        self.pc: list = []
        self.env: dict = {}
        self.old: Optional["St"] = None
        self.trace: list = []

    def clone(self) -> "St":
        n = St()
        n.pc = list(self.pc)
        memo: dict = {}
        n.env = {k: clone(v, memo) for k, v in self.env.items()}
        n.old = self.old
        n.trace = list(self.trace)
        n._memo = memo
        return n

    def assume(self, c):
        if c is True or (is_z3(c) and z3.is_true(c)):
            return
        self.pc.append(c)


# uninterpreted spec-level functions over strings (external str methods get ASSUMED contracts, DESIGN 3.2)
S = z3.StringSort()
str_lower = z3.Function("str_lower", S, S)
str_strip = z3.Function("str_strip", S, S)
str_rstrip_nl = z3.Function("str_rstrip_crlf", S, S)
str_isspace = z3.Function("str_isspace", S, z3.BoolSort())
str_repr = z3.Function("str_repr", S, S)
is_keyword = z3.Function("is_keyword", S, z3.BoolSort())
is_soft_keyword = z3.Function("is_soft_keyword", S, z3.BoolSort())
token_named = z3.Function("token_named", S, z3.IntSort())
join_lines = z3.Function("join_lines", StrSeq, S)
dedent = z3.Function("textwrap_dedent", S, S)


LIT_TRUTHY = z3.Function("literal_truthy", Val, z3.BoolSort())


def Tr(v):
    """Python truthiness of a value as a z3 Bool (or Python bool)"""
    if v is NONE:
        return z3.BoolVal(False)
    if isinstance(v, bool):
        return z3.BoolVal(v)
    if isinstance(v, int):
        return z3.BoolVal(v != 0)
    if isinstance(v, str):
        return z3.BoolVal(len(v) > 0)
    if is_bool(v):
        return v
    if is_int(v):
        return v != 0
    if is_str(v) or is_seq(v):
        return z3.Length(v) > 0
    if is_val(v):
        return truthy(v)
    if is_tok(v):
        return z3.BoolVal(True)
    if isinstance(v, (PyTuple, PyList)):
        return z3.BoolVal(len(v.items) > 0)
    if isinstance(v, PyMap):
        return v.nonempty if hasattr(v, "nonempty") else z3.BoolVal(True)
    if isinstance(v, PyObj) and v.cls == "EPStack":
        return v.fields["n"] > 0
    if isinstance(v, PyOpt):
        return z3.And(z3.Not(v.isnone), Tr(v.some))
    if type(v).__name__ == "PyAbsList":
        return v.n > 0
    if type(v).__name__ == "PyComp":
        return v.length > 0
    if isinstance(v, PyLit):
        return LIT_TRUTHY(v.val)              # non-empty str / bytes value (uninterpreted)
    if isinstance(v, (PyObj, PyCallable, PyConst, PyGen)):
        return z3.BoolVal(True)
    raise Unsupported(f"truthiness of {type(v).__name__}")


def lift(v):
    """Python constants -> z3"""
    if isinstance(v, bool):
        return z3.BoolVal(v)
    if isinstance(v, int):
        return z3.IntVal(v)
    if isinstance(v, str):
        return z3.StringVal(v)
    return v


def eq(a, b):
    """Python == as a z3 Bool"""
    a, b = lift(a), lift(b)
    if type(a).__name__ == "PyUnion" or type(b).__name__ == "PyUnion":
        u, x = (a, b) if type(a).__name__ == "PyUnion" else (b, a)
        return z3.Or([z3.And(u.kind == k, eq(alt, x)) for k, alt in enumerate(u.alts)])
    if isinstance(a, PyLit) and isinstance(b, PyLit):
        return z3.And(a.isbytes == b.isbytes, a.val == b.val)
    if isinstance(a, PyOpt) or isinstance(b, PyOpt):
        o, x = (a, b) if isinstance(a, PyOpt) else (b, a)
        if x is NONE:
            return o.isnone
        if isinstance(x, PyOpt):
            return z3.Or(z3.And(o.isnone, x.isnone), z3.And(z3.Not(o.isnone), z3.Not(x.isnone), eq(o.some, x.some)))
        return z3.And(z3.Not(o.isnone), eq(o.some, x))
    if a is NONE or b is NONE:
        if a is NONE and b is NONE:
            return z3.BoolVal(True)
        o = b if a is NONE else a
        if isinstance(o, PyObj) and o.cls == "ModeView":
            return o.fields["kind"] == 0            # kind 0 is the abstraction of `mode=None`
        if is_val(o):
            return o == NoneVal
        return z3.BoolVal(False)
    if isinstance(a, PyTuple) and isinstance(b, PyTuple):
        if len(a.items) != len(b.items):
            return z3.BoolVal(False)
        return z3.And([eq(x, y) for x, y in zip(a.items, b.items)]) if a.items else z3.BoolVal(True)
    if is_z3(a) and is_z3(b):
        if a.sort() != b.sort():
            if z3.is_bool(a) and z3.is_int(b):
                return z3.If(a, 1, 0) == b
            if z3.is_int(a) and z3.is_bool(b):
                return a == z3.If(b, 1, 0)
            return z3.BoolVal(False)
        return a == b
    if isinstance(a, PyObj) and isinstance(b, PyObj):
        return same_obj_z3(a, b)
    if isinstance(a, (PyObj, PyConst, PyCallable)) or isinstance(b, (PyObj, PyConst, PyCallable)):
        return z3.BoolVal(a is b or (isinstance(a, PyConst) and isinstance(b, PyConst) and a.name == b.name))
    raise Unsupported(f"== between {type(a).__name__} and {type(b).__name__}")


def lex_lt(a: PyTuple, b: PyTuple, strict: bool):
    """lexicographic comparison of equal-arity int tuples"""
    if len(a.items) != len(b.items):
        raise Unsupported("comparison of tuples of different arity")
    if not a.items:
        return z3.BoolVal(not strict)
    x, y = lift(a.items[0]), lift(b.items[0])
    rest = lex_lt(PyTuple(a.items[1:]), PyTuple(b.items[1:]), strict)
    return z3.Or(x < y, z3.And(x == y, rest))
