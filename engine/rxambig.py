"""E3b -- a sufficient syntactic condition against exponential backtracking of `re` on the tokenizer's patterns (C03: every
input terminates -- in practice).

A backtracking matcher needs exponential time on a failing suffix when some text can be split in more than polynomially many ways
between the iterations of an unbounded loop; the classic shape is a loop whose body can END in an unbounded inner repeat over
characters that can also START the body ( `(?:[^x]+|\\.)*` : "aaa" = a+a+a = aa+a = ... ).  The unrolled-loop idiom
`[^x\\]*(?:\\.[^x\\]*)*` avoids it: every iteration of the outer loop starts with a character (the backslash) the trailing inner
repeat cannot consume.

Obligation per unbounded repeat `(B){m,}` in a pattern:   first(B)  /\\  tail_repeat_chars(B)  ==  {}
   first(B)              characters a match of B can start with
   tail_repeat_chars(B)  characters of every unbounded repeat that can be the LAST thing a match of B consumes
Character sets are computed over a finite alphabet (all of ASCII plus representatives of the non-ASCII classes), classes such as
\\w are evaluated by `re` itself on that alphabet.  Lookarounds are treated as empty (they consume nothing); back-references and
conditional groups are reported as unsupported.  The condition is sufficient for "no two ways to split a text among iterations by
moving a run of one character class across the iteration boundary"; it is a lemma about the pattern text, decided syntactically.
"""
from __future__ import annotations

import re

try:                                   # Python >= 3.11
    import re._parser as sre_parse
    import re._constants as sre_c
except ImportError:                    # pragma: no cover
    import sre_parse
    import sre_constants as sre_c

ALPHABET = [chr(i) for i in range(128)] + ["é", "ß", "Ж", "中", "٣", " ", " ", "\U0001f600"]
FULL = frozenset(ALPHABET)


class Unsupported(Exception):
    pass


def _cat(code):
    pat = {sre_c.CATEGORY_DIGIT: r"\d", sre_c.CATEGORY_NOT_DIGIT: r"\D", sre_c.CATEGORY_SPACE: r"\s", sre_c.CATEGORY_NOT_SPACE: r"\S",
           sre_c.CATEGORY_WORD: r"\w", sre_c.CATEGORY_NOT_WORD: r"\W"}.get(code)
    if pat is None:
        raise Unsupported(f"category {code}")
    return frozenset(c for c in ALPHABET if re.fullmatch(pat, c))


def _in_set(items, flags):
    neg = False
    out = set()
    for op, av in items:
        if op is sre_c.NEGATE:
            neg = True
        elif op is sre_c.LITERAL:
            out.add(chr(av))
        elif op is sre_c.RANGE:
            out.update(c for c in ALPHABET if av[0] <= ord(c) <= av[1])
        elif op is sre_c.CATEGORY:
            out.update(_cat(av))
        else:
            raise Unsupported(f"set item {op}")
    if flags & re.IGNORECASE:
        out |= {c.lower() for c in out} | {c.upper() for c in out}
    s = frozenset(out) & FULL
    return FULL - s if neg else s


def analyse(node_list, flags):
    """-> (first, nullable, tail_repeat_chars) of a sequence of parsed items"""
    first, nullable = frozenset(), True
    infos = [_item(op, av, flags) for op, av in node_list]
    for f, n, _t in infos:
        if nullable:
            first |= f
        nullable = nullable and n
    tail = frozenset()
    for f, n, t in reversed(infos):
        tail |= t
        if not n:
            break
    return first, nullable, tail


def _item(op, av, flags):
    if op is sre_c.LITERAL:
        c = chr(av)
        s = {c, c.lower(), c.upper()} if flags & re.IGNORECASE else {c}
        return frozenset(s) & FULL, False, frozenset()
    if op is sre_c.NOT_LITERAL:
        return FULL - {chr(av)}, False, frozenset()
    if op is sre_c.ANY:
        return (FULL if flags & re.DOTALL else FULL - {"\n"}), False, frozenset()
    if op is sre_c.IN:
        return _in_set(av, flags), False, frozenset()
    if op is sre_c.AT or op in (sre_c.ASSERT, sre_c.ASSERT_NOT):
        return frozenset(), True, frozenset()
    if op is sre_c.SUBPATTERN:
        _g, add, dele, p = av
        return analyse(list(p), (flags | add) & ~dele)
    if op is sre_c.BRANCH:
        first, nullable, tail = frozenset(), False, frozenset()
        for alt in av[1]:
            f, n, t = analyse(list(alt), flags)
            first |= f
            nullable = nullable or n
            tail |= t
        return first, nullable, tail
    if op in (sre_c.MAX_REPEAT, sre_c.MIN_REPEAT) or (hasattr(sre_c, "POSSESSIVE_REPEAT") and op is sre_c.POSSESSIVE_REPEAT):
        lo, hi, p = av
        f, n, t = analyse(list(p), flags)
        unbounded = hi == sre_c.MAXREPEAT
        # the characters this repeat itself can keep consuming at its end: everything its body can consist of at the end, i.e. the
        # body's own tail repeats plus (when unbounded) whatever a further iteration can start with
        tail = t | (f if unbounded else frozenset())
        return f, (lo == 0 or n), tail
    if op is sre_c.GROUPREF or op is sre_c.GROUPREF_EXISTS:
        raise Unsupported("back-reference / conditional group")
    if hasattr(sre_c, "ATOMIC_GROUP") and op is sre_c.ATOMIC_GROUP:
        return analyse(list(av), flags)
    raise Unsupported(f"regex construct {op}")


def problems(pattern: str, flags: int = 0):
    """-> list of (description) for every unbounded repeat whose body can start with a character its own trailing inner repeat consumes"""
    tree = sre_parse.parse(pattern, flags)
    flags = tree.state.flags if hasattr(tree, "state") else flags
    out = []

    def walk(items, fl):
        for op, av in items:
            if op in (sre_c.MAX_REPEAT, sre_c.MIN_REPEAT):
                lo, hi, p = av
                if hi == sre_c.MAXREPEAT:
                    f, _n, t = analyse(list(p), fl)
                    amb = f & t
                    if amb:
                        shown = "".join(sorted(amb))[:12]
                        out.append(f"the loop body can start with {shown!r}..., which an unbounded repeat at the END of the same body also consumes "
                                   f"(a run of such characters can be split among iterations in exponentially many ways)")
                walk(list(p), fl)
            elif op is sre_c.SUBPATTERN:
                walk(list(av[3]), (fl | av[1]) & ~av[2])
            elif op is sre_c.BRANCH:
                for alt in av[1]:
                    walk(list(alt), fl)
            elif op in (sre_c.ASSERT, sre_c.ASSERT_NOT):
                walk(list(av[1]), fl)
    walk(list(tree), flags)
    return out
