"""Keeping sidecar contracts attached to the code under harmless renamings.

Loop invariants, variants and postconditions mention parameters and locals of the real function by name.  A commit that only
renames such a binder (same statements, same order) must not turn every obligation of that function into an alarm.  For each
verified function the baseline records the ordered list of its binders and a hash of its AST with every binder replaced by its
position in that list (its *shape*).  When the current function has the same shape but other binder names, the contract is
re-written with the induced renaming before verification; any other change leaves the contract as it is (and is then judged by
the obligations as usual).
"""
from __future__ import annotations

import ast
import copy
import dataclasses
import hashlib

KEEP = {"self", "result", "exc", "yielded", "_i", "old", "implies", "all", "any", "len", "range", "Token", "True", "False", "None"}


def binders(fn: ast.FunctionDef) -> list:
    """names bound inside `fn`, in a deterministic order: parameters first, then first binding occurrence in source order
    (nested function bodies are not entered: they have their own contracts)"""
    out: list = []

    def add(n):
        if isinstance(n, str) and n not in out:
            out.append(n)

    a = fn.args
    for x in a.posonlyargs + a.args:
        add(x.arg)
    if a.vararg:
        add(a.vararg.arg)
    for x in a.kwonlyargs:
        add(x.arg)
    if a.kwarg:
        add(a.kwarg.arg)

    def target(t):
        if isinstance(t, ast.Name):
            add(t.id)
        elif isinstance(t, (ast.Tuple, ast.List)):
            for e in t.elts:
                target(e)
        elif isinstance(t, ast.Starred):
            target(t.value)

    def visit(n):
        if isinstance(n, (ast.FunctionDef, ast.AsyncFunctionDef, ast.Lambda, ast.ClassDef)) and n is not fn:
            if not isinstance(n, ast.Lambda):
                add(n.name)
            return
        if isinstance(n, ast.Assign):
            for t in n.targets:
                target(t)
        elif isinstance(n, (ast.AugAssign, ast.AnnAssign)):
            target(n.target)
        elif isinstance(n, (ast.For, ast.AsyncFor)):
            target(n.target)
        elif isinstance(n, ast.comprehension):
            target(n.target)
        elif isinstance(n, ast.NamedExpr):
            target(n.target)
        elif isinstance(n, ast.withitem) and n.optional_vars is not None:
            target(n.optional_vars)
        elif isinstance(n, ast.ExceptHandler) and n.name:
            add(n.name)
        elif isinstance(n, (ast.Import, ast.ImportFrom)):
            for al in n.names:
                add((al.asname or al.name).split(".")[0])
        for c in ast.iter_child_nodes(n):
            visit(c)

    for s in fn.body:
        visit(s)
    return out


def shape(fn: ast.FunctionDef, names: list) -> str:
    idx = {n: f"_b{i}" for i, n in enumerate(names)}
    t = copy.deepcopy(fn)
    t.name = "_f"
    t.decorator_list = []
    t.returns = None

    class R(ast.NodeTransformer):
        def visit_Name(self, n):
            if n.id in idx:
                n.id = idx[n.id]
            return n

        def visit_arg(self, n):
            n.annotation = None
            if n.arg in idx:
                n.arg = idx[n.arg]
            return n

        def visit_ExceptHandler(self, n):
            self.generic_visit(n)
            if n.name in idx:
                n.name = idx[n.name]
            return n

        def visit_AnnAssign(self, n):
            self.generic_visit(n)
            n.annotation = ast.Constant(value=None)
            return n

    R().visit(t)
    return hashlib.sha256(ast.dump(t).encode()).hexdigest()[:16]


def param_names(fn: ast.FunctionDef) -> list:
    a = fn.args
    return [x.arg for x in a.posonlyargs + a.args] + ([a.vararg.arg] if a.vararg else []) + [x.arg for x in a.kwonlyargs] + ([a.kwarg.arg] if a.kwarg else [])


def find(src_tree: ast.Module, qual: str):
    body = src_tree.body
    node = None
    for p in qual.split("#")[0].split("."):
        node = next((n for n in body if isinstance(n, (ast.FunctionDef, ast.ClassDef)) and n.name == p), None)
        if node is None:
            return None
        body = node.body
    return node if isinstance(node, ast.FunctionDef) else None


def describe(src_tree: ast.Module, qual: str):
    """-> (binders, shape) of the function `Class.method` | `func` | `func.inner` in a parsed module, or (None, None)"""
    body = src_tree.body
    node = None
    for p in qual.split("#")[0].split("."):
        node = next((n for n in body if isinstance(n, (ast.FunctionDef, ast.ClassDef)) and n.name == p), None)
        if node is None:
            return None, None
        body = node.body
    if not isinstance(node, ast.FunctionDef):
        return None, None
    b = binders(node)
    return b, shape(node, b)


def renaming(old: list, new: list) -> dict:
    if old is None or new is None or len(old) != len(new):
        return {}
    m = {a: b for a, b in zip(old, new) if a != b and a not in KEEP}
    # a renaming that collides (two old names onto one new name, or onto a name used as spec vocabulary) is not applied
    if len(set(m.values())) != len(m) or any(v in KEEP for v in m.values()):
        return {}
    return m


def rename_expr(text: str, m: dict) -> str:
    if not m or not isinstance(text, str):
        return text
    try:
        t = ast.parse(text, mode="eval")
    except SyntaxError:
        return text

    class R(ast.NodeTransformer):
        def visit_Name(self, n):
            if n.id in m:
                n.id = m[n.id]
            return n

        def visit_Call(self, n):
            # the callee name of a spec function is vocabulary, not a program variable
            n.args = [self.visit(a) for a in n.args]
            n.keywords = [self.visit(k) for k in n.keywords]
            if not isinstance(n.func, ast.Name):
                n.func = self.visit(n.func)
            return n

    return ast.unparse(R().visit(t))


def rename_path(p: str, m: dict) -> str:
    head, _, rest = p.partition(".")
    return m.get(head, head) + ("." + rest if rest else "")


def adapt(c, m: dict):
    """the contract with every program variable renamed by `m` (spec vocabulary untouched)"""
    if not m:
        return c
    rx = lambda t: rename_expr(t, m)        # noqa: E731
    loops = {}
    for k, lc in c.loops.items():
        d = dict(lc)
        d["inv"] = [rx(x) for x in lc.get("inv", [])]
        if lc.get("dec"):
            d["dec"] = rx(lc["dec"])
        if lc.get("types"):
            d["types"] = {m.get(n, n): t for n, t in lc["types"].items()}
        if lc.get("havoc"):
            d["havoc"] = [rename_path(x, m) for x in lc["havoc"]]
        loops[k] = d
    return dataclasses.replace(
        c,
        params={m.get(k, k): v for k, v in c.params.items()},
        requires=[rx(x) for x in c.requires], ensures=[rx(x) for x in c.ensures],
        raises_when={k: rx(v) for k, v in c.raises_when.items()}, raises_ensures=[rx(x) for x in c.raises_ensures],
        requires_assumed={rx(k): v for k, v in c.requires_assumed.items()},
        loops=loops, modifies=[rename_path(x, m) for x in c.modifies],
        witness={rx(k): {vk: rx(vv) for vk, vv in v.items()} for k, v in c.witness.items()},
        opaque=[m.get(n, n) for n in c.opaque],
        local_asserts={m.get(k, k): rx(v) for k, v in c.local_asserts.items()},
        opaque_loops={k: {**v, "via": m.get(v["via"], v["via"]), "over": m.get(v["over"], v["over"])} for k, v in c.opaque_loops.items()},
        returns_same={rx(k): m.get(v, v) for k, v in c.returns_same.items()},
        alias={m.get(k, k): rename_path(v, m) for k, v in c.alias.items()},
    )
