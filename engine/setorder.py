"""Determinism of the generator path: order-sensitive consumers of sets (filled in below)."""
from __future__ import annotations


def check_generator_path(repo: str):
    return []
