"""C16: determinism of the generation step under hash randomisation.

`str` hashes differ between interpreter runs, so the iteration order of a set of strings does.  The generated module must not
depend on it.  This module finds, syntactically, every place on the generator path where a set-typed expression is iterated or
otherwise consumed in an order-sensitive way, and compares the inventory with an audited table: each audited site carries the
reason why the order cannot reach the output; a site that is not in the table is an obligation that fails (a new source of
nondeterminism has to be audited before C16 can be claimed again).  Order-insensitive consumers (sorted, min, max, len, any, all,
set/frozenset construction, membership, set algebra, `|=`/update/add into a set) are accepted without audit.

The type inference is deliberately simple (names bound to set displays / comprehensions / set() / frozenset() / set algebra,
annotations mentioning Set / AbstractSet / FrozenSet / set[...], calls of `.initial_names()`, elements of containers annotated as
containers of sets); what it cannot type is not reported.  Regeneration under several PYTHONHASHSEED values is the bounded
evidence next to it.
"""
from __future__ import annotations

import ast
import os

FILES = ["tasks/generator.py", "pegen/parser_generator.py", "pegen/python_generator.py", "pegen/sccutils.py", "pegen/grammar.py", "pegen/build.py",
         "pegen/first_sets.py"]
SETISH = ("Set[", "AbstractSet[", "FrozenSet[", "set[", "frozenset[", "MutableSet[")
INSENSITIVE_CALLS = {"sorted", "min", "max", "len", "any", "all", "set", "frozenset", "sum", "bool", "isinstance"}

# (file, function, source text of the iterated expression) -> why the iteration order cannot reach the generated text
AUDITED = {
    ("pegen/parser_generator.py", "compute_left_recursives", "scc"):
        "loops over the members of an SCC only set flags on each member (left_recursive) or intersect candidate sets (leaders -= ...); "
        "both are commutative, and the leader is then picked with min()",
    ("pegen/parser_generator.py", "make_first_graph", "vertices"):
        "only inserts missing keys with an empty set; the dict is used as a graph (membership / SCC computation), its key order is never printed",
    ("pegen/sccutils.py", "strongly_connected_components", "edges[v]"):
        "path-based SCC algorithm: the SET of components is order-independent; their emission order is consumed only by the flag-setting loop above",
    ("pegen/sccutils.py", "strongly_connected_components", "vertices"):
        "as above (dict keys view of the first graph)",
    ("pegen/sccutils.py", "topsort", "set.union(*data.values()) - set(data.keys())"):
        "adds missing keys; not on the path of tasks/generator.py (used by pegen's C generator only)",
    ("pegen/sccutils.py", "find_cycles_in_scc", "graph[node]"):
        "enumerates ALL cycles through `start`; the caller intersects over all of them (order-independent)",
    ("pegen/sccutils.py", "find_cycles_in_scc", "dsts"):
        "builds a filtered set per source vertex (set comprehension: order-free)",
}


def _ann_is_set(a) -> bool:
    if a is None:
        return False
    t = ast.unparse(a)
    return t.startswith(SETISH) or t in ("set", "frozenset", "Set", "AbstractSet", "FrozenSet")


def _ann_elem_is_set(a) -> bool:
    """List[AbstractSet[str]], Dict[str, AbstractSet[str]], Iterable[Set[...]] ...: the elements / values are sets"""
    if a is None:
        return False
    t = ast.unparse(a)
    inner = t[t.find("[") + 1:] if "[" in t else ""
    return any(s in inner for s in SETISH)


SET_ATTRS: set = set()      # attribute names assigned / annotated as sets in some class on the generator path (x.<attr> is then a set)
RETURNS: dict = {}          # function / method name -> "set" | "elems" (from return annotations on the generator path)


class _Fn(ast.NodeVisitor):
    def __init__(self, rel, fn, class_attrs):
        self.rel, self.fn = rel, fn
        self.sets = set(class_attrs)            # expressions (source text) known to denote sets
        self.elem_sets = set()                  # containers whose elements are sets
        self.sites = []
        a = fn.args
        for x in a.posonlyargs + a.args + a.kwonlyargs:
            if _ann_is_set(x.annotation):
                self.sets.add(x.arg)
            if _ann_elem_is_set(x.annotation):
                self.elem_sets.add(x.arg)

    def is_set(self, e) -> bool:
        if isinstance(e, (ast.Set, ast.SetComp)):
            return True
        if isinstance(e, ast.Call):
            f = e.func
            if isinstance(f, ast.Name) and f.id in ("set", "frozenset"):
                return True
            nm = f.id if isinstance(f, ast.Name) else (f.attr if isinstance(f, ast.Attribute) else None)
            if RETURNS.get(nm) == "set":
                return True
            if isinstance(f, ast.Attribute) and f.attr in ("initial_names", "union", "intersection", "difference", "copy") and (f.attr == "initial_names" or self.is_set(f.value)
                                                                                                                           or ast.unparse(f.value) == "set"):
                return True
            if isinstance(f, ast.Attribute) and f.attr in ("keys",) and False:
                return False
        if isinstance(e, ast.BinOp) and isinstance(e.op, (ast.BitOr, ast.BitAnd, ast.Sub, ast.BitXor)):
            return self.is_set(e.left) or self.is_set(e.right)
        if isinstance(e, ast.Subscript) and ast.unparse(e.value) in self.elem_sets:
            return True
        if isinstance(e, ast.Attribute) and e.attr in SET_ATTRS:
            return True
        try:
            return ast.unparse(e) in self.sets
        except Exception:       # noqa: BLE001
            return False

    def bind(self, target, value_is_set, elem=False):
        if isinstance(target, ast.Name):
            (self.elem_sets if elem else self.sets).add(target.id) if value_is_set else None
        elif isinstance(target, ast.Attribute):
            (self.elem_sets if elem else self.sets).add(ast.unparse(target)) if value_is_set else None

    def visit_FunctionDef(self, n):
        # nested functions share what the enclosing function knows about its names
        for x in n.args.posonlyargs + n.args.args + n.args.kwonlyargs:
            if _ann_is_set(x.annotation):
                self.sets.add(x.arg)
            if _ann_elem_is_set(x.annotation):
                self.elem_sets.add(x.arg)
        self.generic_visit(n)

    visit_AsyncFunctionDef = visit_FunctionDef

    def is_elems(self, e) -> bool:
        if isinstance(e, ast.Call):
            f = e.func
            nm = f.id if isinstance(f, ast.Name) else (f.attr if isinstance(f, ast.Attribute) else None)
            if RETURNS.get(nm) == "elems":
                return True
            if nm in ("list", "tuple", "sorted", "reversed") and e.args:
                return self.is_elems(e.args[0])
        try:
            return ast.unparse(e) in self.elem_sets
        except Exception:       # noqa: BLE001
            return False

    def visit_Assign(self, n):
        for t in n.targets:
            self.bind(t, self.is_set(n.value))
            self.bind(t, self.is_elems(n.value), elem=True)
            if isinstance(t, ast.Tuple) and isinstance(n.value, ast.Tuple):
                for tt, vv in zip(t.elts, n.value.elts):
                    self.bind(tt, self.is_set(vv))
            # chained: graph[k] = names = rhs.initial_names()
        self.generic_visit(n)

    def visit_AnnAssign(self, n):
        if _ann_is_set(n.annotation) or (n.value is not None and self.is_set(n.value)):
            self.bind(n.target, True)
        if _ann_elem_is_set(n.annotation):
            self.bind(n.target, True, elem=True)
        self.generic_visit(n)

    def visit_AugAssign(self, n):
        if self.is_set(n.value) and isinstance(n.op, (ast.BitOr, ast.BitAnd, ast.Sub)):
            self.bind(n.target, True)
        self.generic_visit(n)

    def _site(self, it, node, how):
        self.sites.append({"file": self.rel, "function": self.fn.name, "iter": ast.unparse(it), "line": node.lineno, "how": how})

    def visit_For(self, n):
        if self.is_elems(n.iter):
            self.bind(n.target, True)            # for scc in sccs: scc is a set
        if self.is_set(n.iter):
            self._site(n.iter, n, "for-loop")
        self.generic_visit(n)

    def _comp(self, n):
        for g in n.generators:
            if self.is_set(g.iter) and not isinstance(n, ast.SetComp):
                self._site(g.iter, n, type(n).__name__)
        self.generic_visit(n)

    visit_ListComp = visit_GeneratorExp = visit_DictComp = _comp

    def visit_SetComp(self, n):
        self.generic_visit(n)                    # a set built from a set: order-free

    def visit_Call(self, n):
        f = n.func
        name = f.id if isinstance(f, ast.Name) else (f.attr if isinstance(f, ast.Attribute) else "")
        if name in ("list", "tuple", "iter", "next", "enumerate", "zip") and n.args and self.is_set(n.args[0]):
            self._site(n.args[0], n, name + "()")
        if name == "join" and n.args and self.is_set(n.args[0]):
            self._site(n.args[0], n, "str.join")
        if name == "pop" and isinstance(f, ast.Attribute) and not n.args and self.is_set(f.value):
            self._site(f.value, n, "set.pop()")
        if name in INSENSITIVE_CALLS:
            # the argument is consumed without regard to order: do not descend into a generator expression over a set
            for a in n.args:
                if isinstance(a, (ast.GeneratorExp, ast.ListComp)):
                    for g in a.generators:
                        self.visit(g.iter)
                    continue
                self.visit(a)
            return
        self.generic_visit(n)


def inventory(repo: str):
    sites = []
    RETURNS.clear()
    SET_ATTRS.clear()
    for rel in FILES:
        path = os.path.join(repo, rel)
        if os.path.exists(path):
            for fn in ast.walk(ast.parse(open(path, encoding="utf-8").read())):
                if isinstance(fn, (ast.FunctionDef, ast.AsyncFunctionDef)) and fn.returns is not None:
                    if _ann_is_set(fn.returns):
                        RETURNS[fn.name] = "set"
                    elif _ann_elem_is_set(fn.returns):
                        RETURNS[fn.name] = "elems"
            for m in ast.walk(ast.parse(open(path, encoding="utf-8").read())):
                if isinstance(m, ast.AnnAssign) and isinstance(m.target, ast.Attribute) and _ann_is_set(m.annotation):
                    SET_ATTRS.add(m.target.attr)
    for rel in FILES:
        path = os.path.join(repo, rel)
        if not os.path.exists(path):
            continue
        tree = ast.parse(open(path, encoding="utf-8").read())
        for cls in [None] + [c for c in ast.walk(tree) if isinstance(c, ast.ClassDef)]:
            body = tree.body if cls is None else cls.body
            attrs = set()
            if cls is not None:
                for m in ast.walk(cls):
                    if isinstance(m, ast.AnnAssign) and isinstance(m.target, ast.Attribute) and (_ann_is_set(m.annotation)):
                        attrs.add(ast.unparse(m.target))
                    if isinstance(m, ast.Assign) and len(m.targets) == 1 and isinstance(m.targets[0], ast.Attribute) and isinstance(m.value, ast.Call) \
                            and isinstance(m.value.func, ast.Name) and m.value.func.id in ("set", "frozenset"):
                        attrs.add(ast.unparse(m.targets[0]))
            for fn in body:
                if isinstance(fn, (ast.FunctionDef, ast.AsyncFunctionDef)):
                    v = _Fn(rel, fn, attrs)
                    v.visit(fn)
                    sites.extend(v.sites)
    return sites


def check_generator_path(repo: str):
    from checks.common import DISCHARGED, FAILED, Obligation
    out = []
    sites = inventory(repo)
    seen = set()
    for s in sites:
        key = (s["file"], s["function"], s["iter"])
        if key in seen:
            continue
        seen.add(key)
        oid = "C16.setorder." + s["file"].replace("/", "_").replace(".py", "") + "." + s["function"] + "." + "".join(c if c.isalnum() else "_" for c in s["iter"])[:40]
        desc = f"{s['file']}:{s['function']} consumes the set `{s['iter']}` in iteration order ({s['how']}, line {s['line']}): the order cannot reach the generated module"
        if key in AUDITED:
            out.append(Obligation(oid, "determinism", desc + " -- audited: " + AUDITED[key], DISCHARGED, "audited-inventory", function=f"{s['file']}:{s['function']}"))
        else:
            out.append(Obligation(oid, "determinism", desc, FAILED, "audited-inventory",
                                  detail="order-sensitive consumption of a set on the generator path that is not in the audited table "
                                         "(str hashes are randomised per interpreter run: regenerating may produce a different module)",
                                  witness=s, function=f"{s['file']}:{s['function']}"))
    out.append(Obligation("C16.setorder.inventory", "determinism",
                          f"inventory of order-sensitive consumers of sets on the generator path: {len(seen)} site(s) in {len(FILES)} files, all audited",
                          DISCHARGED if all(o.status == DISCHARGED for o in out) else FAILED, "audited-inventory",
                          detail="" if all(o.status == DISCHARGED for o in out) else "unaudited sites present"))
    return out
