"""E1 executor: statements, calls (callee CONTRACTS only), loops with invariants/variants, verification driver."""
from __future__ import annotations

import ast
import re
import os
import time
from typing import Optional

import z3

from .contract import Contract
from .pyexpr import ExprMixin, PyDictLit
from .pymatch import MODE_KINDS, MatchMixin, PyPattern
from .pyvals import (LE_BYTES, LE_VAL, LE_NUMKIND, NONE, Exc, IntSeq, NoneVal, PAbs, PyCache, PyComp, PyUnion, PyAbsList, PyCallable, PyConst, PyGen, PyKey, PyList, PyLit, PyMap, PyObj, PyOpt, PyRuleSeq, PyStrDict,
                     PyStrSet, PyTuple, StrSeq, Tok, TokSeq, Val, ValSeq, VAL_AXIOMS, NodeAbs, NodeAbsSeq, ident_of, clone, fresh, is_bool, is_int, is_seq,
                     is_str, is_tok, is_val, is_z3, tok_fields, truthy)
from .pyvc import (VC, St, Tr, Unsupported, dedent, eq, is_keyword, is_soft_keyword, join_lines, lift, str_isspace, str_lower,
                   str_repr, str_rstrip_nl, str_strip, token_named)

I = z3.IntSort()
# uninterpreted rule-like callables: deterministic in (callable id, index, abstract state, memo cache)
_AP, _AT, _AE = z3.ArraySort(I, z3.BoolSort()), z3.ArraySort(I, Val), z3.ArraySort(I, I)
F_res = z3.Function("F_res", I, I, PAbs, _AP, _AT, _AE, Val)
F_idx = z3.Function("F_idx", I, I, PAbs, _AP, _AT, _AE, I)
F_abs = z3.Function("F_abs", I, I, PAbs, _AP, _AT, _AE, PAbs)
F_cp = z3.Function("F_cache_present", I, I, PAbs, _AP, _AT, _AE, _AP)
F_ct = z3.Function("F_cache_tree", I, I, PAbs, _AP, _AT, _AE, _AT)
F_ce = z3.Function("F_cache_end", I, I, PAbs, _AP, _AT, _AE, _AE)

EXC_CLASSES = {"SyntaxError", "IndentationError", "TokenError", "ValueError", "KeyError", "IndexError", "TypeError",
               "StopIteration", "AssertionError", "AttributeError", "RuntimeError", "Exception"}
SUBCLASS = {"IndentationError": "SyntaxError"}


def exc_matches(cls, handler):
    while cls is not None:
        if cls == handler or handler == "Exception":
            return True
        cls = SUBCLASS.get(cls)
    return False


class Flow:
    def __init__(self, kind, value=None):
        self.kind, self.value = kind, value   # normal | return | raise | break | continue


class Executor(MatchMixin, ExprMixin):
    def __init__(self, module_src: str, filename: str, contracts: dict, classes: dict, token_enum: dict, spec_funcs: dict,
                 solver_timeout_ms: int = 10000):
        self.src = module_src
        self.filename = filename
        self.tree = ast.parse(module_src)
        self.contracts = contracts          # qualified name -> Contract   (all files)
        self.classes = classes
        self.token_enum = token_enum
        self.spec_funcs = spec_funcs
        self.vcs: list = []
        self.spec_mode = False
        self.cur: Optional[Contract] = None
        self.timeout = solver_timeout_ms
        self.globals = {"TokenizerState": PyConst("TokenizerState"), "Token": PyConst("Token"), "Target": PyConst("Target"), "sys": PyConst("sys"), "ast": PyConst("ast"), "Load": PyConst("Load"),
                        "Store": PyConst("Store"), "Del": PyConst("Del"), "TokenInfo": PyConst("TokenInfo"),
                        "tabsize": z3.IntVal(8)}
        for c in EXC_CLASSES:
            self.globals[c] = PyConst(c)
        self.globals.update(self.stage2_globals())
        self.loop_counter = 0
        self._feas = z3.Solver()
        self._feas.set("timeout", 200)
        self._feas.set("rlimit", 3000000)
        self.vc_counter = 0
        self.witness_hints = None
        self.product_run = None
        self.product_related = ()
        self.loop_log = {}
        self.cur_loop = None
        self.assuming = False
        self._id_seen = {}
        self.stats = {"paths": 0, "forks": 0}
        self.axioms: list = []
        self._axiom_ids: set = set()

    # ------------------------------------------------------------------ infrastructure
    def feasible(self, st, cond) -> bool:
        self.stats["forks"] += 1
        self._feas.push()
        try:
            self._feas.add(*VAL_AXIOMS)
            self._feas.add(*self.axioms)
            self._feas.add(*st.pc)
            self._feas.add(cond)
            return self._feas.check() != z3.unsat
        finally:
            self._feas.pop()

    def vc(self, st, goal, kind, desc, lineno=0, suffix=""):
        import zlib
        self.vc_counter += 1
        fn = self.cur.name if self.cur else "?"
        short = fn.split(":")[-1]
        # stable id: function + kind + clause text (not line numbers / counters, so harmless edits keep ids)
        key = f"{kind}|{' '.join(desc.split())}"
        h = "%06x" % (zlib.crc32(key.encode()) & 0xFFFFFF)
        n = self._id_seen.get((short, h), 0) + 1
        self._id_seen[(short, h)] = n
        vid = f"{short}.{kind}.{h}.{n}{suffix}"
        self.vcs.append(VC(vid, kind, desc, list(self.axioms) + list(st.pc), goal, lineno, fn))

    def add_axiom(self, a):
        """definitional axiom of a spec function (recursive definitions over the index of a sequence argument): hypothesis of every later VC"""
        if a.get_id() not in self._axiom_ids:
            self._axiom_ids.add(a.get_id())
            self.axioms.append(a)

    def find_function(self, qual: str):
        """'Class.method' | 'func' | 'func.inner'"""
        parts = qual.split(".")
        body = self.tree.body
        node = None
        for p in parts:
            node = None
            for n in body:
                if isinstance(n, (ast.FunctionDef, ast.ClassDef)) and n.name == p:
                    node = n
                    break
            if node is None:
                return None
            body = node.body
        return node if isinstance(node, ast.FunctionDef) else None

    def method_contract(self, cls: str, name: str) -> Optional[Contract]:
        for k, c in self.contracts.items():
            q = k.split(":")[1]
            if q == f"{cls}.{name}":
                return c
        return None

    def function_contract(self, name: str) -> Optional[Contract]:
        for k, c in self.contracts.items():
            if k.split(":")[1] == name and k.split(":")[0] == self.filename:
                return c
        return None

    def contract_for_attr(self, name: str) -> Optional[Contract]:
        for k, c in self.contracts.items():
            if k.split(":")[1].split(".")[-1] == name:
                return c
        return None

    # ------------------------------------------------------------------ symbolic values from type strings
    def mk(self, ty: str, prefix: str, st: St):
        """-> list of alternative values (opt[...] forks)"""
        ty = ty.strip()
        if ty.startswith("opt["):
            return [NONE] + self.mk(ty[4:-1], prefix, st)
        if ty == "int":
            return [fresh(prefix, I)]
        if ty == "nat":
            v = fresh(prefix, I)
            st.assume(v >= 0)
            return [v]
        if ty == "bool":
            return [fresh(prefix, z3.BoolSort())]
        if ty == "str":
            return [fresh(prefix, z3.StringSort())]
        if ty == "Tok":
            return [fresh(prefix, Tok)]
        if ty == "val":
            return [fresh(prefix, Val)]
        if ty == "seq[Tok]":
            return [fresh(prefix, TokSeq)]
        if ty == "seq[int]":
            return [fresh(prefix, IntSeq)]
        if ty == "seq[str]":
            return [fresh(prefix, StrSeq)]
        if ty == "seq[val]":
            return [fresh(prefix, ValSeq)]
        if ty == "pos":
            return [PyTuple([fresh(prefix + "_l", I), fresh(prefix + "_c", I)])]
        if ty == "lit":
            return [PyLit(fresh(prefix + "_isbytes", z3.BoolSort()), fresh(prefix + "_val", Val), fresh(prefix + "_numkind", I))]
        if ty == "mode":
            k = fresh(prefix + "_kind", I)
            st.assume(z3.And(k >= 0, k <= 3))
            return [PyObj("ModeView", {"kind": k, "parenlevel": fresh(prefix + "_lev", I)})]
        if ty == "pattern":
            return [PyPattern(fresh(prefix + "_kind", I), fresh(prefix + "_q", z3.StringSort()))]
        if ty.startswith("optv["):
            inner = self.mk(ty[5:-1], prefix, st)
            if len(inner) != 1:
                raise Unsupported("optv of a forking type")
            return [PyOpt(fresh(prefix + "_none", z3.BoolSort()), inner[0])]
        if ty.startswith("union["):
            out = []
            for t in ty[6:-1].split("|"):
                out.extend(self.mk(t.strip(), prefix, st))
            return out
        if ty == "version":
            a, b = fresh(prefix + "_maj", I), fresh(prefix + "_min", I)
            st.assume(z3.And(a >= 0, b >= 0))
            return [PyTuple([a, b])]
        if ty == "map":
            m = PyMap.fresh(prefix)
            m.nonempty = fresh(prefix + "_ne", z3.BoolSort())
            k = z3.Int("mk!q")
            st.assume(z3.Implies(z3.Not(m.nonempty), z3.ForAll([k], z3.Not(z3.Select(m.present, k)))))
            return [m]
        if ty == "cache":
            return [PyCache.fresh(prefix)]
        if ty == "gen[Tok]":
            p = fresh(prefix + "_pos", I)
            items = fresh(prefix + "_items", TokSeq)
            st.assume(z3.And(p >= 0, p <= z3.Length(items)))
            return [PyGen(items, p)]
        if ty in ("rulefn", "rulefn+"):
            return [PyCallable("rulefn", prefix, ident=fresh(prefix + "_id", I), strict=ty.endswith("+"))]
        if ty == "pabs":
            return [fresh(prefix, PAbs)]
        if ty == "linesrc":
            p = fresh(prefix + "_pos", I)
            items = fresh(prefix + "_lines", StrSeq)
            jq = z3.Int("ls!q")
            st.assume(z3.And(p >= 0, p <= z3.Length(items)))
            # A3: readline yields finitely many non-empty lines and then '' forever
            st.assume(z3.ForAll([jq], z3.Implies(z3.And(jq >= 0, jq < z3.Length(items)), z3.Length(items[jq]) > 0)))
            return [PyCallable("linesrc", prefix, bound=PyGen(items, p))]
        if ty.startswith("obj:"):
            shape = self.classes[ty[4:]]          # `Cls#variant`: another shape of the same class (a node whose children differ by role)
            cls = ty[4:].split("#")[0]
            o = PyObj(cls, {})
            variants = None
            for f, fty in shape.items():
                if f.startswith("__"):
                    continue
                if fty == "initdict":
                    o.fields[f] = self.init_dict(cls, f)
                    continue
                if fty == "initset":
                    o.fields[f] = self.init_set(cls, f)
                    continue
                if f.startswith("is:") and f.endswith("?"):
                    o.fields["?" + f[:-1]] = fresh(f"{prefix}.{f[:-1]}", z3.BoolSort())       # ghost: is the node of that class?
                    continue
                if f.endswith("?"):
                    # an attribute the object may lack: its value and, as ghost, whether it is there (read by has_field)
                    o.fields[f[:-1]] = self.mk(fty, f"{prefix}.{f[:-1]}", st)[0]
                    o.fields["?" + f[:-1]] = fresh(f"{prefix}.has_{f[:-1]}", z3.BoolSort())
                    continue
                alts = self.mk(fty, f"{prefix}.{f}", st)
                if len(alts) != 1:
                    if variants is not None or shape.get("__invariant__"):
                        raise Unsupported(f"more than one field of forking type in the shape of {cls} (or one together with an invariant)")
                    variants = (f, alts)
                    continue
                o.fields[f] = alts[0]
            if variants is not None:
                # one object per alternative of the forking field (the other fields are the same symbols: the alternatives are exclusive)
                f, alts = variants
                return [PyObj(cls, {**o.fields, f: a}) for a in alts]
            if shape.get("__invariant__"):
                # class invariant of the abstraction (established by the only constructor call site, fields immutable afterwards:
                # both facts are separate obligations, see the shape's comment)
                si = St()
                si.pc = st.pc
                si.env = {"self": o}
                was = self.assuming
                self.assuming = True
                try:
                    for inv in shape["__invariant__"]:
                        st.assume(Tr(self.spec_eval(inv, si)))
                finally:
                    self.assuming = was
            return [o]
        if ty.startswith("const:"):
            return [PyConst(ty[6:])]
        if ty == "none":
            return [NONE]
        if ty == "list0":
            return [PyList([])]
        if ty.startswith("list1["):
            return [PyList([x]) for x in self.mk(ty[6:-1], prefix + "_0", st)]
        if ty.startswith("abslist["):
            # length unknown; first / last element of the given shape (one alternative per combination of their shapes)
            outs = []
            n = fresh(prefix + "_n", I)
            st.assume(n >= 0)
            for a in self.mk(ty[8:-1], prefix + "_first", st):
                for b in self.mk(ty[8:-1], prefix + "_last", st):
                    for o in (a, b):
                        if isinstance(o, PyObj):
                            o.ident = fresh("id_elt", I)
                    outs.append(PyAbsList(n, a, b))
            return outs
        if ty.startswith("objseq["):
            return [self.mk_objseq(ty[7:-1], prefix, st)]
        if ty.startswith("(") and ty.endswith(")"):
            outs = [[]]
            for k, t in enumerate(self.split_top(ty[1:-1], ",")):
                alts = self.mk(t, f"{prefix}_{k}", st)
                outs = [o + [a] for o in outs for a in alts]
            return [PyTuple(o) for o in outs]
        if ty.startswith("oneof["):
            return [z3.StringVal(t.strip().strip("'")) for t in ty[6:-1].split("|")]
        raise Unsupported(f"type {ty}")

    @staticmethod
    def split_top(text: str, sep: str):
        out, depth, cur = [], 0, ""
        for ch in text:
            if ch in "[(":
                depth += 1
            elif ch in "])":
                depth -= 1
            if ch == sep and depth == 0:
                out.append(cur.strip())
                cur = ""
            else:
                cur += ch
        if cur.strip():
            out.append(cur.strip())
        return out

    def mk_objseq(self, elt_ty: str, prefix: str, st: St):
        """a list argument whose elements are objects / tuples / tokens of the given shape: unknown length, every field of the
        element at index j is an uninterpreted function of j, its identity is a function of j too (injective, apart from every
        object the code allocates: elements are pairwise distinct objects -- separation assumption, reported in the evidence)"""
        self.objseq_count = getattr(self, "objseq_count", 0) + 1
        sid = self.objseq_count
        j = fresh(f"{prefix}_j", I)
        n = fresh(f"{prefix}_len", I)
        st.assume(n >= 0)
        pc0 = len(st.pc)
        alts = self.mk(elt_ty, f"{prefix}_e", st)
        tmpl = alts[0] if len(alts) == 1 else PyUnion(fresh(f"{prefix}_kind", I), alts)
        if isinstance(tmpl, PyUnion):
            st.assume(z3.And(tmpl.kind >= 0, tmpl.kind < len(alts)))
        side = st.pc[pc0:]
        del st.pc[pc0:]
        consts: dict = {}

        def collect(e):
            if z3.is_const(e) and e.decl().kind() == z3.Z3_OP_UNINTERPRETED:
                consts.setdefault(e.get_id(), e)
            for c in e.children():
                collect(c)

        def walk(v, f):
            if isinstance(v, PyObj):
                for x in v.fields.values():
                    walk(x, f)
            elif isinstance(v, (PyList, PyTuple)):
                for x in v.items:
                    walk(x, f)
            elif isinstance(v, PyUnion):
                f(v.kind)
                for x in v.alts:
                    walk(x, f)
            elif isinstance(v, PyLit):
                f(v.isbytes)
                f(v.val)
            elif isinstance(v, PyAbsList):
                f(v.n)
                walk(v.first, f)
                walk(v.last, f)
            elif is_z3(v):
                f(v)
        walk(tmpl, collect)
        for c in side:
            collect(c)
        sub = [(c, z3.Function(f"{c.decl().name()}@", I, c.sort())(j)) for c in consts.values() if not z3.eq(c, NoneVal)]

        def app(v):
            if isinstance(v, PyObj):
                k = getattr(self, "_objseq_obj", 0) + 1
                self._objseq_obj = k
                return PyObj(v.cls, {f: app(x) for f, x in v.fields.items()}, ident=-(1 + (sid * 37 + k) + 4096 * j))
            if isinstance(v, (PyList, PyTuple)):
                return type(v)([app(x) for x in v.items])
            if isinstance(v, PyUnion):
                return PyUnion(app(v.kind), [app(x) for x in v.alts])
            if isinstance(v, PyLit):
                return PyLit(app(v.isbytes), app(v.val), app(v.numkind))
            if isinstance(v, PyAbsList):
                return PyAbsList(app(v.n), app(v.first), app(v.last))
            if is_z3(v):
                return z3.substitute(v, *sub) if sub else v
            return v
        elt = app(tmpl)
        if side:
            jq = z3.Int("os!q")
            body = z3.substitute(z3.substitute(z3.And(side), *sub), (j, jq)) if sub else z3.And(side)
            st.assume(z3.ForAll([jq], z3.Implies(z3.And(jq >= 0, jq < n), body)))
        self.assumptions_used = getattr(self, "assumptions_used", set())
        self.assumptions_used.add("elements of a list argument are pairwise distinct objects, distinct from every other argument (separation)")
        return PyComp(n, j, elt)

    def init_dict(self, cls: str, field: str):
        """the constant str->str dict literal assigned to self.<field> in the real <cls>.__init__"""
        fn = self.find_function(f"{cls}.__init__")
        if fn is None and getattr(self, "repo", None):
            # the class lives in another module of the package: read its real source
            pkg = os.path.join(self.repo, os.path.dirname(self.filename))
            for f in sorted(os.listdir(pkg)):
                if not f.endswith(".py") or f == "parser.py":
                    continue
                try:
                    mod = ast.parse(open(os.path.join(pkg, f), encoding="utf-8").read())
                except (OSError, SyntaxError):
                    continue
                for c in mod.body:
                    if isinstance(c, ast.ClassDef) and c.name == cls:
                        fn = next((m for m in c.body if isinstance(m, ast.FunctionDef) and m.name == "__init__"), None)
                if fn is not None:
                    break
        for n in ast.walk(fn) if fn is not None else []:
            tgt = n.target if isinstance(n, ast.AnnAssign) else (n.targets[0] if isinstance(n, ast.Assign) and len(n.targets) == 1 else None)
            if (isinstance(tgt, ast.Attribute) and tgt.attr == field and isinstance(tgt.value, ast.Name) and tgt.value.id == "self"
                    and isinstance(n.value, ast.Dict)):
                try:
                    return PyStrDict({ast.literal_eval(k): ast.literal_eval(v) for k, v in zip(n.value.keys, n.value.values)})
                except Exception:
                    break
        return PyConst(f"{cls}.{field}:not-a-constant-dict-literal")        # only the code that reads it becomes unsupported

    def init_set(self, cls: str, field: str):
        """the constant set of Token members assigned to self.<field> in the real <cls>.__init__ (e.g. Tokenizer._not_body)"""
        d = None
        fn = self.find_function(f"{cls}.__init__")
        if fn is None and getattr(self, "repo", None):
            pkg = os.path.join(self.repo, os.path.dirname(self.filename))
            for f in sorted(os.listdir(pkg)):
                if f.endswith(".py") and f != "parser.py":
                    try:
                        mod = ast.parse(open(os.path.join(pkg, f), encoding="utf-8").read())
                    except (OSError, SyntaxError):
                        continue
                    for c in mod.body:
                        if isinstance(c, ast.ClassDef) and c.name == cls:
                            fn = next((m for m in c.body if isinstance(m, ast.FunctionDef) and m.name == "__init__"), None)
                    if fn is not None:
                        break
        for n in ast.walk(fn) if fn is not None else []:
            tgt = n.target if isinstance(n, ast.AnnAssign) else (n.targets[0] if isinstance(n, ast.Assign) and len(n.targets) == 1 else None)
            if (isinstance(tgt, ast.Attribute) and tgt.attr == field and isinstance(tgt.value, ast.Name) and tgt.value.id == "self"
                    and isinstance(n.value, ast.Set)):
                items = []
                for e in n.value.elts:
                    if isinstance(e, ast.Attribute) and isinstance(e.value, ast.Name) and e.value.id == "Token" and e.attr in self.token_enum:
                        items.append(z3.IntVal(self.token_enum[e.attr]))
                    else:
                        items = None
                        break
                if items is not None:
                    d = PyStrSet(items)
        return d if d is not None else PyConst(f"{cls}.{field}:not-a-constant-set-of-Token-members")

    def fresh_like(self, v, prefix):
        if v is NONE:
            return NONE
        if is_z3(v):
            return fresh(prefix, v.sort())
        if isinstance(v, PyTuple):
            return PyTuple([self.fresh_like(x, prefix) for x in v.items])
        if isinstance(v, PyOpt):
            return PyOpt(fresh(prefix + "_none", z3.BoolSort()), self.fresh_like(v.some, prefix))
        if isinstance(v, PyLit):
            return PyLit(fresh(prefix + "_isbytes", z3.BoolSort()), fresh(prefix + "_val", Val), fresh(prefix + "_numkind", I))
        if isinstance(v, PyMap):
            m = PyMap.fresh(prefix)
            m.nonempty = fresh(prefix + "_ne", z3.BoolSort())
            return m
        if isinstance(v, PyCache):
            return PyCache.fresh(prefix)
        if isinstance(v, PyGen):
            return PyGen(v.items, fresh(prefix + "_pos", I))
        if isinstance(v, PyCallable) and v.kind == "linesrc":
            np_ = fresh(prefix + "_pos", I)
            return PyCallable("linesrc", v.name, bound=PyGen(v.bound.items, np_))
        if isinstance(v, (PyObj, PyConst, PyCallable, PyStrDict, PyStrSet)):
            return v
        raise Unsupported(f"havoc of {type(v).__name__}")

    # ------------------------------------------------------------------ statements
    def exec_block(self, stmts, st):
        """-> list[(St, Flow)]"""
        paths = [(st, Flow("normal"))]
        for s in stmts:
            nxt = []
            for p, fl in paths:
                if fl.kind != "normal":
                    nxt.append((p, fl))
                else:
                    nxt.extend(self.exec_stmt(s, p))
            paths = nxt
        return paths

    OPAQUE_PURE = {"enumerate", "len", "range", "sorted", "list", "tuple", "str", "int", "isinstance"}

    def is_opaque_stmt(self, s) -> bool:
        """the statement only computes / updates locals the contract declares opaque (no effect on modelled state)"""
        opq = set(self.cur.opaque) if self.cur and self.cur.opaque else set()
        if opq and isinstance(s, ast.If) and not s.orelse and s.body and all(self.is_opaque_stmt(b) for b in s.body):
            # `if <test over opaque locals / re>: <opaque statements>`: whether the branch is taken only changes opaque locals
            tnames = {n.id for n in ast.walk(s.test) if isinstance(n, ast.Name)}
            tcalls = [n for n in ast.walk(s.test) if isinstance(n, ast.Call)]
            if tnames <= opq | {"re"} and all(isinstance(c.func, ast.Attribute) and isinstance(c.func.value, ast.Name) and c.func.value.id in opq | {"re"} for c in tcalls):
                return True
        if not opq or not isinstance(s, (ast.Assign, ast.AugAssign, ast.AnnAssign, ast.Expr, ast.For)):
            return False
        names, attrs, calls = self.assigned_in([s])
        if isinstance(s, ast.Expr) and not (isinstance(s.value, ast.Call) and isinstance(s.value.func, ast.Attribute)
                                            and isinstance(s.value.func.value, ast.Name) and s.value.func.value.id in opq):
            return False
        if attrs or not names <= opq or (not names and not isinstance(s, ast.Expr)):
            return False
        for c in calls:
            f = c.func
            if isinstance(f, ast.Attribute) and isinstance(f.value, ast.Name) and (f.value.id in opq or f.value.id == "re"):
                continue
            if isinstance(f, ast.Name) and f.id in self.OPAQUE_PURE:
                continue
            return False
        return not any(isinstance(n, (ast.Yield, ast.YieldFrom, ast.Await, ast.Return, ast.Break, ast.Continue, ast.Raise)) for n in ast.walk(s))

    def exec_stmt(self, s, st):
        if self.is_opaque_stmt(s):
            names, _a, _c = self.assigned_in([s])
            for n in names:
                st.env[n] = PyConst("opaque")
            return [(st, Flow("normal"))]
        m = getattr(self, "s_" + type(s).__name__, None)
        if m is None:
            raise Unsupported(f"statement {type(s).__name__} at line {s.lineno}")
        return m(s, st)

    def _after(self, results, fn):
        out = []
        for st, v in results:
            if isinstance(v, Exc):
                out.append((st, Flow("raise", v)))
            else:
                r = fn(st, v)
                out.extend(r if r is not None else [(st, Flow("normal"))])
        return out

    def s_Pass(self, s, st):
        return [(st, Flow("normal"))]

    def s_Import(self, s, st):
        for a in s.names:
            st.env[a.asname or a.name] = PyConst(a.name)
        return [(st, Flow("normal"))]

    s_ImportFrom = s_Import

    def s_Expr(self, s, st):
        if isinstance(s.value, ast.Constant):
            return [(st, Flow("normal"))]
        return self._after(self.eval(s.value, st), lambda p, v: None)

    def s_Return(self, s, st):
        if s.value is None:
            return [(st, Flow("return", NONE))]
        return self._after(self.eval(s.value, st), lambda p, v: [(p, Flow("return", v))])

    def s_Break(self, s, st):
        return [(st, Flow("break"))]

    def s_Continue(self, s, st):
        return [(st, Flow("continue"))]

    def s_Assert(self, s, st):
        def k(p, v):
            self.safety(p, Tr(v), f"assert {ast.unparse(s.test)[:60]} (AssertionError)", s)
        return self._after(self.eval(s.test, st), k)

    def s_Raise(self, s, st):
        if s.exc is None:
            cur = st.env.get("__handling__")
            if not isinstance(cur, Exc):
                raise Unsupported("bare raise outside a handler")
            return [(st, Flow("raise", cur))]
        return self._after(self.eval(s.exc, st), lambda p, v: [(p, Flow("raise", self.as_exc(v, s)))])

    def as_exc(self, v, node):
        if isinstance(v, PyObj) and v.cls in EXC_CLASSES:
            e = Exc(v.cls, node.lineno)
            e.obj = v
            return e
        if isinstance(v, PyConst) and v.name in EXC_CLASSES:
            e = Exc(v.name, node.lineno)
            e.obj = PyObj(v.name, {"bare": z3.BoolVal(True)})
            return e
        raise Unsupported(f"raise of {v!r}")

    def s_Assign(self, s, st):
        def k(p, v):
            for t in s.targets:
                r = self.assign_target(t, v, p, s)
                if isinstance(r, Exc):
                    return [(p, Flow("raise", r))]
                la = self.cur.local_asserts.get(t.id) if (self.cur and isinstance(t, ast.Name) and self.cur.local_asserts and getattr(self, "_inline_depth", 0) == 0) else None
                if la:
                    try:
                        g = Tr(self.spec_eval(la, p))
                    except Unsupported as u:
                        self.vc(p, z3.BoolVal(False), "assert", f"after `{t.id} = ...`: `{la}` cannot be evaluated: {u}", s.lineno)
                    else:
                        self.vc(p, g, "assert", f"after `{t.id} = ...`: `{la}`", s.lineno)
        return self._after(self.eval(s.value, st), k)

    def s_AnnAssign(self, s, st):
        if s.value is None:
            return [(st, Flow("normal"))]

        def k(p, v):
            self.assign_target(s.target, v, p, s)
        return self._after(self.eval(s.value, st), k)

    def s_AugAssign(self, s, st):
        load = ast.copy_location(ast.BinOp(left=self._as_load(s.target), op=s.op, right=s.value), s)
        ast.fix_missing_locations(load)

        def k(p, v):
            self.assign_target(s.target, v, p, s)
        return self._after(self.eval(load, st), k)

    def _as_load(self, t):
        t2 = ast.parse(ast.unparse(t), mode="eval").body
        for n in ast.walk(t2):
            n.lineno = getattr(t, "lineno", 0)
            n.col_offset = 0
        return t2

    def assign_target(self, t, v, st, node=None):
        if isinstance(t, ast.Name):
            st.env[t.id] = v
            return None
        if isinstance(t, (ast.Tuple, ast.List)):
            if (isinstance(v, PyCallable) and v.kind == "rulefn" and len(t.elts) == 2 and isinstance(t.elts[1], ast.Starred)
                    and isinstance(t.elts[0], ast.Name)):
                # `method, *args = arg` for a (callable, args...) reference: the pair denotes one rule-like callable
                st.env[t.elts[0].id] = v
                st.env[t.elts[1].value.id] = PyConst("varargs")
                return None
            if isinstance(v, (PyTuple, PyList)):
                items = v.items
            elif is_tok(v):
                items = [Tok.type(v), Tok.string(v), tok_fields(v)["start"], tok_fields(v)["end"], Tok.line(v)]
            else:
                raise Unsupported(f"unpacking of {type(v).__name__} line {getattr(t, 'lineno', '?')}")
            if any(isinstance(x, ast.Starred) for x in t.elts):
                raise Unsupported("starred unpacking")
            if len(items) != len(t.elts):
                self.vc(st, z3.BoolVal(False), "safety", "unpacking arity (ValueError)", getattr(t, "lineno", 0))
                return Exc("ValueError", getattr(t, "lineno", 0))
            for x, i in zip(t.elts, items):
                self.assign_target(x, i, st, node)
            return None
        if isinstance(t, ast.Attribute):
            o = self.eval1(t.value, st)
            if not isinstance(o, PyObj):
                raise Unsupported("attribute store on non-object")
            fty = (self.classes.get(o.cls) or {}).get(t.attr)
            if isinstance(v, PyList) and isinstance(fty, str) and fty.startswith("seq["):
                # a list literal stored in a field the shape models as a symbolic sequence (constructors: `self._tokens = []`)
                sort = {"seq[val]": ValSeq, "seq[Tok]": TokSeq, "seq[int]": IntSeq, "seq[str]": StrSeq}[fty]
                sq = z3.Empty(sort)
                for x in v.items:
                    if not is_z3(lift(x)):
                        raise Unsupported(f"list literal stored in {o.cls}.{t.attr} holds something that is not of the element sort")
                    sq = z3.Concat(sq, z3.Unit(lift(x)))
                v = sq
            elif isinstance(v, PyList) and not v.items and fty == "obj:EPStack":
                v = PyObj("EPStack", {"n": z3.IntVal(0), "top": self.mk("obj:EndProg", "top0", st)[0]})       # the empty frame stack
            elif type(v).__name__ == "PyDictLit" and not v.d and fty == "cache":
                c0 = PyCache.fresh("emptycache")
                k = z3.Int("ck!q")
                st.assume(z3.ForAll([k], z3.Not(z3.Select(c0.present, k))))
                v = c0
            elif type(v).__name__ == "PyDictLit" and not v.d and fty == "map":
                m = PyMap.fresh("emptymap")
                k = z3.Int("mk!q")
                st.assume(z3.ForAll([k], z3.Not(z3.Select(m.present, k))))
                m.nonempty = z3.BoolVal(False)
                v = m
            o.fields[t.attr] = v
            return None
        if isinstance(t, ast.Subscript):
            o = self.eval1(t.value, st)
            k = self.eval1(t.slice, st)
            if isinstance(o, PyMap):
                k = lift(k)
                o.present = z3.Store(o.present, k, True)
                o.value = z3.Store(o.value, k, lift(v))
                o.nonempty = z3.BoolVal(True)
                return None
            if isinstance(o, PyCache):
                if not (isinstance(k, PyKey) and isinstance(v, PyTuple) and len(v.items) == 2):
                    raise Unsupported("cache store shape")
                tree = v.items[0]
                tree = NoneVal if tree is NONE else tree
                o.present = z3.Store(o.present, k.mark, True)
                o.tree = z3.Store(o.tree, k.mark, tree)
                o.end = z3.Store(o.end, k.mark, lift(v.items[1]))
                return None
            if isinstance(o, PyDictLit):
                kk = z3.simplify(lift(k))
                if z3.is_string_value(kk):
                    o.d[kk.as_string()] = v
                    return None
            if isinstance(o, PyComp) and isinstance(t.value, ast.Name) and is_tok(v):
                # seq[c] = <token>: the same list with that element replaced (element-wise description: If(j == c, new, old))
                kk = z3.simplify(lift(k))
                if not (z3.is_int_value(kk) and kk.as_long() >= 0):
                    raise Unsupported("store into a list argument at a symbolic / negative index")
                elt = o.elt
                if is_tok(elt):
                    new = z3.If(o.j == kk, v, elt)
                elif isinstance(elt, PyUnion) and any(is_tok(a) for a in elt.alts):
                    ti = next(i for i, a in enumerate(elt.alts) if is_tok(a))
                    self.vc(st, o.at(kk).kind == ti, "safety", f"`{ast.unparse(t)[:50]} = <token>` replaces a token (the element's kind is unchanged)", getattr(t, "lineno", 0))
                    new = PyUnion(elt.kind, [z3.If(o.j == kk, v, a) if i == ti else a for i, a in enumerate(elt.alts)])
                else:
                    raise Unsupported("store of a token into a list of non-tokens")
                self.safety(st, kk < o.length, f"index of `{ast.unparse(t)[:50]}` in range (IndexError)", t)
                st.env[t.value.id] = PyComp(o.length, o.j, new)
                return None
            raise Unsupported(f"subscript store on {type(o).__name__}")
        raise Unsupported("assignment target")

    def s_If(self, s, st):
        def k(p, c):
            out = []
            for p2, b in self.fork(p, Tr(c)):
                out.extend(self.exec_block(s.body if b else s.orelse, p2))
            return out
        return self._after(self.eval(s.test, st), k)

    def s_Try(self, s, st):
        res = self.exec_block(s.body, st)
        out = []
        for p, fl in res:
            handled = False
            if fl.kind == "raise" and s.handlers:
                for h in s.handlers:
                    names = [h.type] if not isinstance(h.type, ast.Tuple) else h.type.elts
                    if any(isinstance(n, ast.Name) and exc_matches(fl.value.cls, n.id) for n in names):
                        if h.name:
                            p.env[h.name] = getattr(fl.value, "obj", PyConst(fl.value.cls))
                        p.env["__handling__"] = fl.value          # what a bare `raise` in the handler re-raises
                        out.extend(self.exec_block(h.body, p))
                        handled = True
                        break
            if not handled:
                if fl.kind == "normal" and s.orelse:
                    out.extend(self.exec_block(s.orelse, p))
                else:
                    out.append((p, fl))
        if s.finalbody:
            fin = []
            for p, fl in out:
                for p2, fl2 in self.exec_block(s.finalbody, p):
                    fin.append((p2, fl if fl2.kind == "normal" else fl2))
            out = fin
        return out

    def s_With(self, s, st):
        if len(s.items) != 1:
            raise Unsupported("with items")
        it = s.items[0]

        def k(p, v):
            if it.optional_vars is not None:
                self.assign_target(it.optional_vars, v, p, s)
            return self.exec_block(s.body, p)
        return self._after(self.eval(it.context_expr, st), k)

    def s_FunctionDef(self, s, st):
        st.env[s.name] = PyCallable("nested", s.name)
        return [(st, Flow("normal"))]

    # ------------------------------------------------------------------ loops
    def assigned_in(self, stmts):
        """names assigned, attribute paths stored, in a loop body (syntactic, for havoc)"""
        names, attrs, calls = set(), set(), []
        for n in ast.walk(ast.Module(body=list(stmts), type_ignores=[])):
            tg = []
            if isinstance(n, ast.Assign):
                tg = n.targets
            elif isinstance(n, (ast.AugAssign, ast.AnnAssign)):
                tg = [n.target]
            elif isinstance(n, ast.NamedExpr):
                tg = [n.target]
            elif isinstance(n, (ast.For, ast.comprehension)):
                tg = [n.target]
            elif isinstance(n, ast.Call):
                calls.append(n)
                if isinstance(n.func, ast.Attribute) and n.func.attr in ("append", "pop", "clear", "extend", "add"):
                    tg = [n.func.value]
            for t in tg:
                for x in ast.walk(t):
                    if isinstance(x, ast.Name) and isinstance(t, (ast.Name, ast.Tuple, ast.List)):
                        names.add(x.id)
                if isinstance(t, ast.Name):
                    names.add(t.id)
                elif isinstance(t, ast.Attribute):
                    attrs.add(ast.unparse(t))
                elif isinstance(t, ast.Subscript):
                    attrs.add(ast.unparse(t.value)) if not isinstance(t.value, ast.Name) else names.add(t.value.id)
        return names, attrs, calls

    def rel_fresh(self, v, prefix, path):
        """product mode: loop-carried variables in the relational invariant get the SAME symbol in both runs"""
        if self.product_run is not None and path in self.product_related and is_z3(v):
            return z3.Const(f"rel!{self.cur_loop}!{path}", v.sort())
        if self.product_run is not None and path in self.product_related and isinstance(v, PyCache):
            return PyCache(z3.Const(f"rel!{self.cur_loop}!{path}!p", v.present.sort()), z3.Const(f"rel!{self.cur_loop}!{path}!t", v.tree.sort()),
                           z3.Const(f"rel!{self.cur_loop}!{path}!e", v.end.sort()))
        return self.fresh_like(v, prefix)

    def havoc_path(self, st, path: str, prefix: str, env=None):
        env = st.env if env is None else env
        parts = path.split(".")
        if parts[0] not in env:
            return
        if len(parts) == 1:
            v0 = env[parts[0]]
            if isinstance(v0, PyCallable) and v0.kind == "linesrc":
                v0.bound.pos = fresh(prefix + parts[0] + "_pos", I)      # in place: the caller's binding denotes the same source
                return
            env[parts[0]] = self.rel_fresh(env[parts[0]], prefix + parts[0], path)
            return
        o = env[parts[0]]
        for p in parts[1:-1]:
            if not isinstance(o, PyObj):
                return
            o = o.fields.get(p)
        if isinstance(o, PyObj) and parts[-1] in o.fields:
            cur = o.fields[parts[-1]]
            if isinstance(cur, PyObj) and cur.cls in self.classes:
                # an object-valued location is overwritten: it now holds ANOTHER object (fresh identity, unconstrained fields);
                # names still bound to the old object keep denoting the old one
                o.fields[parts[-1]] = self.mk("obj:" + cur.cls, prefix + path, st)[0]
            else:
                o.fields[parts[-1]] = self.rel_fresh(cur, prefix + path, path)

    def havoc_for_loop(self, st, body, extra_paths=(), types=None):
        names, attrs, calls = self.assigned_in(body)
        types = types or {}
        forks = []
        for n in sorted(names):
            if n in types:
                alts = self.mk(types[n], f"h_{n}", st)
                for a in alts:
                    if isinstance(a, PyObj):
                        a.ident = fresh(f"id_{n}", I)        # WHICH object the variable holds after some iterations is not known
                if len(alts) != 1:
                    forks.append((n, alts))                  # the caller continues once per alternative (infeasible ones die on the invariant)
                    continue
                st.env[n] = alts[0] if isinstance(alts[0], (PyObj, PyAbsList)) else self.rel_fresh(alts[0], f"h_{n}", n)      # mk's objects are fresh already
            elif n in st.env:
                if isinstance(st.env[n], PyObj):
                    raise Unsupported(f"loop assigns the object-valued local `{n}`: declare its type in the sidecar (loops/types)")
                st.env[n] = self.rel_fresh(st.env[n], f"h_{n}", n)
        st.loop_forks = forks
        for a in sorted(attrs) + list(extra_paths):
            self.havoc_path(st, a, "h_")
        if any(isinstance(n, (ast.Yield, ast.YieldFrom)) for b in body for n in ast.walk(b)) and "yielded" in st.env:
            st.env["yielded"] = fresh("h_yielded", st.env["yielded"].sort())
        for c in calls:
            f = c.func
            tgt = None
            if isinstance(f, ast.Name) and self.function_contract(f.id) is not None:
                fc = self.function_contract(f.id)
                pn = [p for p in fc.params]
                amap = {p: ast.unparse(a) for p, a in zip(pn, c.args)}
                for m in fc.modifies:
                    head = m.split(".")[0]
                    if head in amap:
                        self.havoc_path(st, amap[head] + m[len(head):], "h_")
            if isinstance(f, ast.Attribute):
                tgt = self.contract_for_attr(f.attr)
                try:
                    recv = ast.unparse(f.value)
                except Exception:
                    recv = None
                if tgt is not None and recv is not None:
                    for m in tgt.modifies:
                        self.havoc_path(st, m.replace("self", recv, 1) if m.startswith("self") else m, "h_")
            if isinstance(f, ast.Name) and f.id in st.env and isinstance(st.env[f.id], PyCallable) and st.env[f.id].kind == "rulefn":
                self.havoc_rulefn_effects(st)
            if isinstance(f, ast.Name) and f.id == "next":
                for a0 in c.args[:1]:
                    self.havoc_path(st, ast.unparse(a0), "h_")

    def parser_objs(self, st):
        me = st.env.get("self")
        if isinstance(me, PyObj) and me.cls == "Parser":
            return me, me.fields["_tokenizer"]
        if isinstance(me, PyObj) and me.cls == "Tokenizer":
            return None, me
        raise Unsupported("no parser/tokenizer object in scope for a rule-like call")

    def havoc_rulefn_effects(self, st):
        parser, tk = self.parser_objs(st)
        tk.fields["_index"] = self.rel_fresh(tk.fields["_index"], "h_index", "self._tokenizer._index")
        tk.fields["_abs"] = self.rel_fresh(tk.fields["_abs"], "h_abs", "self._tokenizer._abs")
        tk.fields["_tokens"] = fresh("h_tokens", TokSeq)
        g = tk.fields["_tokengen"]
        tk.fields["_tokengen"] = type(g)(g.items, fresh("h_gpos", I))
        tk.fields["_stack"] = fresh("h_stack", TokSeq)
        for fl in ("_call_macro", "_with_macro", "_proc_macro"):
            tk.fields[fl] = fresh("h" + fl, z3.BoolSort())
        tk.fields["_lines"] = self.fresh_like(tk.fields["_lines"], "h_lines")
        if parser is not None:
            parser.fields["_cache"] = self.rel_fresh(parser.fields["_cache"], "h_cache", "self._cache")

    def loop_contract(self, node):
        k = self.loop_ordinals.get(id(node))
        lc = self.cur.loops.get(k) if self.cur else None
        if lc is None:
            raise Unsupported(f"loop #{k} at line {node.lineno} of {self.cur.name} has no invariant in the sidecar (stale contract?)")
        return k, lc

    def spec_eval(self, expr: str, st, extra=None):
        saved = self.spec_mode
        self.spec_mode = True
        try:
            e = ast.parse(expr, mode="eval").body
            if extra:
                bak = {k: st.env.get(k, _MISSING) for k in extra}
                st.env.update(extra)
            try:
                return self.eval1(e, st)
            finally:
                if extra:
                    for k, v in bak.items():
                        if v is _MISSING:
                            st.env.pop(k, None)
                        else:
                            st.env[k] = v
        finally:
            self.spec_mode = saved

    def check_invariants(self, st, lc, kind, lineno, extra=None):
        for inv in lc.get("inv", []):
            try:
                g = self.spec_eval(inv, st, extra)
            except (Unsupported, AttributeError, KeyError, TypeError) as u:
                self.vc(st, z3.BoolVal(False), kind, f"loop invariant `{inv}` cannot be evaluated on this path: {u}", lineno)
                continue
            self.vc(st, Tr(g), kind, f"loop invariant `{inv}`", lineno)

    def assume_invariants(self, st, lc, extra=None):
        self.assuming = True
        try:
            for inv in lc.get("inv", []):
                st.assume(Tr(self.spec_eval(inv, st, extra)))
        finally:
            self.assuming = False

    def coerce_loop_types(self, st, lc):
        """a Python-side empty list that the loop grows is re-typed as a symbolic sequence (declared in the sidecar)"""
        for n, ty in (lc.get("types") or {}).items():
            v = st.env.get(n)
            if v is NONE and ty == "val":
                st.env[n] = NoneVal
            if ty.startswith("optv[") and not isinstance(v, PyOpt) and n in st.env:
                some = self.mk(ty[5:-1], f"o_{n}", st)[0] if v is NONE else v
                st.env[n] = PyOpt(z3.BoolVal(v is NONE), some)
            if isinstance(v, PyList) and not v.items and ty.startswith("abslist["):
                st.env[n] = PyAbsList(z3.IntVal(0), NONE, NONE)
            if isinstance(v, PyList) and ty.startswith("seq["):
                sort = {"seq[val]": ValSeq, "seq[Tok]": TokSeq, "seq[int]": IntSeq, "seq[str]": StrSeq}[ty]
                sq = z3.Empty(sort)
                for x in v.items:
                    sq = z3.Concat(sq, z3.Unit(lift(x)))
                st.env[n] = sq

    def s_While(self, s, st):
        k, lc = self.loop_contract(s)
        if s.orelse:
            raise Unsupported("while-else")
        self.coerce_loop_types(st, lc)
        self.check_invariants(st, lc, "invariant-entry", s.lineno)
        self.cur_loop = k
        if self.product_run is not None:
            self.loop_log.setdefault((self.product_run, k), []).append(("entry", st.clone()))
        self.havoc_for_loop(st, s.body + [ast.Expr(value=s.test)], lc.get("havoc", ()), lc.get("types"))
        if st.loop_forks:
            raise Unsupported("loop variable of forking type (opt/union) in a while / generator loop")
        self.assume_invariants(st, lc)
        out = []
        v0 = lift(self.spec_eval(lc["dec"], st)) if lc.get("dec") else None
        for p, c in self.eval(s.test, st):
            if isinstance(c, Exc):
                out.append((p, Flow("raise", c)))
                continue
            for p2, b in self.fork(p, Tr(c)):
                if not b:
                    if self.product_run is not None:
                        self.loop_log.setdefault((self.product_run, k), []).append(("exit", p2))
                    out.append((p2, Flow("normal")))
                    continue
                for p3, fl in self.exec_block(s.body, p2):
                    if self.product_run is not None:
                        self.loop_log.setdefault((self.product_run, k), []).append(("cont" if fl.kind in ("normal", "continue") else "exit", p3))
                    if fl.kind in ("normal", "continue"):
                        self.check_invariants(p3, lc, "invariant-preserved", s.lineno)
                        if v0 is not None:
                            v1 = lift(self.spec_eval(lc["dec"], p3))
                            self.vc(p3, z3.And(v0 >= 0, v1 < v0), "variant", f"loop variant `{lc['dec']}` is bounded below and decreases", s.lineno)
                        elif not lc.get("nodec_ok"):
                            self.vc(p3, z3.BoolVal(False), "variant", "loop has no variant in the sidecar", s.lineno)
                    elif fl.kind == "break":
                        out.append((p3, Flow("normal")))
                    else:
                        out.append((p3, fl))
        return out

    def opaque_loop(self, s, st, spec):
        """`for p in <over>:` that only builds the opaque local `via` out of the elements and merges an element INTO THE LAST ONE KEPT.
        Side conditions checked on the syntax of the real loop (violated => unsupported, never silently skipped):
          (1) the only stores are `via = / via.append(p)` and `via[-1].<attr> (op)= ...` with attr in `writes`;
          (2) every `via[-1].<attr>` store sits in an if-branch that does not also append p: so the object written is an element visited
              EARLIER than the current one -- never the current element, hence never the last element of `over`;
          (3) no other call than isinstance / `via.append`.
        Effect on modelled state: `via` is opaque; of the FIRST element of `over` the attributes in `writes` are unknown afterwards when the
        list has more than one element (it may have absorbed its successors); the LAST element and every start position are unchanged."""
        via, over, writes = spec["via"], spec["over"], set(spec["writes"])
        if not (isinstance(s.target, ast.Name) and isinstance(s.iter, ast.Name) and s.iter.id == over and not s.orelse):
            raise Unsupported("opaque loop: not `for <name> in <over>`")
        pvar = s.target.id

        def is_via_last(t):
            return (isinstance(t, ast.Subscript) and isinstance(t.value, ast.Name) and t.value.id == via and isinstance(t.slice, ast.UnaryOp)
                    and isinstance(t.slice.op, ast.USub) and isinstance(t.slice.operand, ast.Constant) and t.slice.operand.value == 1)

        def appends(stmts):
            return any(isinstance(n, ast.Call) and isinstance(n.func, ast.Attribute) and n.func.attr == "append" for b in stmts for n in ast.walk(b))

        def check(stmts):
            for b in stmts:
                if isinstance(b, ast.If):
                    for branch in (b.body, b.orelse):
                        stores = [n for x in branch for n in ast.walk(x) if isinstance(n, (ast.Assign, ast.AugAssign))]
                        if stores and appends(branch):
                            raise Unsupported("opaque loop: a branch both writes through the kept element and appends the current one")
                    check(b.body)
                    check(b.orelse)
                elif isinstance(b, (ast.Assign, ast.AugAssign)):
                    tg = b.targets if isinstance(b, ast.Assign) else [b.target]
                    for t in tg:
                        if isinstance(t, ast.Name) and t.id == via:
                            continue
                        if isinstance(t, ast.Attribute) and is_via_last(t.value) and t.attr in writes:
                            continue
                        raise Unsupported(f"opaque loop: store to `{ast.unparse(t)}` is not covered by its side conditions")
                elif isinstance(b, ast.Expr) and isinstance(b.value, ast.Call):
                    c = b.value
                    if not (isinstance(c.func, ast.Attribute) and isinstance(c.func.value, ast.Name) and c.func.value.id == via and c.func.attr == "append"
                            and len(c.args) == 1 and isinstance(c.args[0], ast.Name) and c.args[0].id == pvar):
                        raise Unsupported(f"opaque loop: call `{ast.unparse(c)[:60]}`")
                elif isinstance(b, ast.Pass):
                    continue
                else:
                    raise Unsupported(f"opaque loop: statement `{ast.unparse(b)[:60]}`")
        check(s.body)
        for n in ast.walk(ast.Module(body=s.body, type_ignores=[])):
            if isinstance(n, ast.Call) and not (isinstance(n.func, ast.Name) and n.func.id == "isinstance") and not (
                    isinstance(n.func, ast.Attribute) and n.func.attr == "append"):
                raise Unsupported(f"opaque loop: call `{ast.unparse(n)[:60]}`")
        lst = st.env.get(over)
        if not isinstance(lst, PyAbsList):
            raise Unsupported("opaque loop: not over an abstract list")
        if isinstance(lst.first, PyObj):
            for a in writes:
                if a in lst.first.fields:
                    cur = lst.first.fields[a]
                    nv = self.fresh_like(cur, f"merged_{a}")
                    lst.first.fields[a] = z3.If(lst.n > 1, nv, cur) if is_z3(cur) else (nv if not z3.is_false(z3.simplify(lst.n > 1)) else cur)
        st.env[via] = PyConst("opaque")
        st.env[pvar] = PyConst("opaque")
        return [(st, Flow("normal"))]

    def s_For(self, s, st):
        if s.orelse:
            raise Unsupported("for-else")
        ol = (self.cur.opaque_loops or {}).get(self.loop_ordinals.get(id(s))) if self.cur else None
        if ol:
            return self.opaque_loop(s, st, ol)
        # for [idx,] x in [enumerate(]generator[)]
        inner = s.iter.args[0] if (isinstance(s.iter, ast.Call) and isinstance(s.iter.func, ast.Name) and s.iter.func.id == "enumerate"
                                   and len(s.iter.args) == 1 and not s.iter.keywords) else None
        probe = inner if inner is not None else s.iter
        if isinstance(probe, (ast.Name, ast.Attribute)):
            try:
                gv = self.eval1(probe, st)
            except Unsupported:
                gv = None
            if isinstance(gv, PyGen):
                return self.gen_for(s, st, gv, inner is not None)
        out = []
        for p, it in self.eval(s.iter, st):
            if isinstance(it, Exc):
                out.append((p, Flow("raise", it)))
                continue
            if isinstance(it, (PyList, PyTuple)):
                paths = [(p, Flow("normal"))]
                for x in it.items:
                    nxt = []
                    for q, fl in paths:
                        if fl.kind != "normal":
                            nxt.append((q, fl))
                            continue
                        self.assign_target(s.target, x, q, s)
                        for q2, fl2 in self.exec_block(s.body, q):
                            if fl2.kind == "continue":
                                fl2 = Flow("normal")
                            nxt.append((q2, fl2))
                    paths = nxt
                out.extend((q, Flow("normal") if fl.kind == "break" else fl) for q, fl in paths)
                continue
            out.extend(self.sym_for(s, p, it))
        return out

    def gen_for(self, s, st, g, with_index: bool):
        """for [idx,] x in [enumerate(]<generator>[)]: every iteration pulls the next item; the loop ends when the generator is exhausted.
        Ghost `_i` = number of items pulled by this loop so far."""
        k, lc = self.loop_contract(s)
        pos0 = g.pos
        self.coerce_loop_types(st, lc)
        self.check_invariants(st, lc, "invariant-entry", s.lineno, {"_i": z3.IntVal(0)})
        self.havoc_for_loop(st, s.body, lc.get("havoc", ()), lc.get("types"))
        if st.loop_forks:
            raise Unsupported("loop variable of forking type (opt/union) in a while / generator loop")
        i = fresh("i", I)
        st.assume(z3.And(i >= 0, pos0 + i <= z3.Length(g.items)))
        g.pos = pos0 + i
        self.assume_invariants(st, lc, {"_i": i})
        out = []
        for p2, more in self.fork(st, pos0 + i < z3.Length(g.items)):
            if not more:
                out.append((p2, Flow("normal")))            # StopIteration ends the loop
                continue
            g2 = self.eval1(s.iter.args[0] if with_index else s.iter, p2)
            item = g2.items[pos0 + i]
            g2.pos = pos0 + i + 1
            self.assign_target(s.target, PyTuple([i, item]) if with_index else item, p2, s)
            for p3, fl in self.exec_block(s.body, p2):
                if fl.kind in ("normal", "continue"):
                    self.check_invariants(p3, lc, "invariant-preserved", s.lineno, {"_i": i + 1})
                elif fl.kind == "break":
                    out.append((p3, Flow("normal")))
                else:
                    out.append((p3, fl))
        return out

    def sym_for(self, s, st, it):
        """for x in <symbolic sequence>: ghost index `_i` = number of completed iterations"""
        k, lc = self.loop_contract(s)
        if is_seq(it) or is_str(it):
            n = z3.Length(it)
            elem = lambda j: (it[j] if is_seq(it) else z3.SubString(it, j, 1))
        elif isinstance(it, PyRuleSeq):
            n = z3.Length(it.ids)
            elem = lambda j: PyCallable("rulefn", "alt", ident=it.ids[j])
        elif isinstance(it, PyObj) and it.cls == "File":
            lines = it.fields["lines"]
            n = z3.Length(lines)
            elem = lambda j: lines[j]
        elif isinstance(it, PyComp):
            n = it.length
            elem = it.at
        else:
            raise Unsupported(f"for over {type(it).__name__}")
        i0 = z3.IntVal(0)
        self.coerce_loop_types(st, lc)
        self.check_invariants(st, lc, "invariant-entry", s.lineno, {"_i": i0})
        self.havoc_for_loop(st, s.body, lc.get("havoc", ()), lc.get("types"))
        i = fresh("i", I)
        st.assume(z3.And(i >= 0, i <= n))
        out = []
        for st in self.loop_fork_states(st):
            self.assume_invariants(st, lc, {"_i": i})
            if not self.feasible(st, z3.BoolVal(True)):
                continue
            for p2, more in self.fork(st, i < n):
                if not more:
                    p2.env["_i"] = i               # after the loop the ghost keeps the number of iterations made (== len of the sequence)
                    out.append((p2, Flow("normal")))
                    continue
                for p2, x in self.split_union(p2, elem(i)):
                    self.assign_target(s.target, x, p2, s)
                    p2.env["_i"] = i               # ghost: number of completed iterations (readable by witness hints / specs evaluated inside the body)
                    for p3, fl in self.exec_block(s.body, p2):
                        if fl.kind in ("normal", "continue"):
                            self.check_invariants(p3, lc, "invariant-preserved", s.lineno, {"_i": i + 1})
                        elif fl.kind == "break":
                            p3.env["_i_at_break"] = i
                            out.append((p3, Flow("normal")))
                        else:
                            out.append((p3, fl))
        # variant of a for-loop over a finite sequence is len - _i (automatic)
        return out

    @staticmethod
    def same_in(st0, st1, obj):
        """the copy of `obj` (an object of state st0) in st1, a state forked from st0"""
        if st1 is st0:
            return obj
        memo = getattr(st1, "_memo", None)
        if memo is None:
            return obj
        return memo[id(obj)] if id(obj) in memo else clone(obj, memo)      # not reachable from the environment when the fork was made: copied now

    def loop_fork_states(self, st):
        """after havoc_for_loop: one state per combination of the alternatives of loop variables with a forking type (opt/union)"""
        forks = getattr(st, "loop_forks", None) or []
        st.loop_forks = []
        states = [st]
        for n, alts in forks:
            nxt = []
            for s0 in states:
                for k, a in enumerate(alts):
                    s1 = s0.clone() if k < len(alts) - 1 else s0
                    s1.env[n] = clone(a, {}) if k < len(alts) - 1 else a
                    nxt.append(s1)
            states = nxt
        return states

    def split_union(self, st, v):
        """a value of union shape: one path per feasible alternative (tuples are searched one level deep)"""
        if isinstance(v, PyUnion):
            out = []
            for k, a in enumerate(v.alts):
                if self.feasible(st, v.kind == k):
                    s1 = st.clone()
                    s1.assume(v.kind == k)
                    out.append((s1, a))
            return out
        if isinstance(v, PyTuple) and any(isinstance(x, PyUnion) for x in v.items):
            out = [(st, [])]
            for x in v.items:
                nxt = []
                for s0, acc in out:
                    for s1, a in self.split_union(s0, x):
                        nxt.append((s1, acc + [a]))
                out = nxt
            return [(s0, PyTuple(acc)) for s0, acc in out]
        return [(st, v)]

    # ------------------------------------------------------------------ generators: yielded tokens go to the ghost sequence `yielded`
    def _emit(self, st, v):
        out = st.env.get("yielded")
        if out is None:
            out = z3.Empty(TokSeq)
        if out.sort() == NodeAbsSeq:
            if not (isinstance(v, PyObj) and all(f in v.fields for f in ("lineno", "col_offset", "end_lineno", "end_col_offset"))):
                raise Unsupported("yield of something that is not a node with positions")
            at = st.env.get("_i")
            v = NodeAbs.mk(v.fields["lineno"], v.fields["col_offset"], v.fields["end_lineno"], v.fields["end_col_offset"],
                           at if at is not None else z3.IntVal(-1), ident_of(v))
        elif not is_tok(v):
            raise Unsupported("yield of a non-token")
        n = z3.Length(out)
        nw = fresh("yielded", out.sort())
        jq = z3.Int("yj!q")
        st.assume(z3.Length(nw) == n + 1)
        st.assume(z3.ForAll([jq], z3.Implies(z3.And(jq >= 0, jq < n), nw[jq] == out[jq])))
        st.assume(nw[n] == v)
        st.assume(nw == z3.Concat(out, z3.Unit(v)))
        st.env["yielded"] = nw

    def e_Yield(self, e, st):
        def k(p, v):
            self._emit(p, v)
            return [(p, NONE)]
        return self.bind(self.eval(e.value, st), k)

    def e_YieldFrom(self, e, st):
        """`yield from f(...)` where f is a generator function under contract: its yielded tokens (fresh sequence constrained by
        the callee's ensures over `yielded`) are appended to ours; the value is the callee's return value"""
        self.yield_from_depth = getattr(self, "yield_from_depth", 0) + 1
        try:
            res = self.eval(e.value, st)
        finally:
            self.yield_from_depth -= 1
        return res

    # ------------------------------------------------------------------ calls
    def e_Call(self, e, st):
        f = e.func
        # spec-level and builtin functions by name
        if isinstance(f, ast.Name):
            h = getattr(self, "b_" + f.id, None)
            if h is not None and f.id not in st.env:
                return h(e, st)
            if f.id in self.spec_funcs and f.id not in st.env:
                args = [self.eval1(a, st) for a in e.args]
                return [(st, self.spec_funcs[f.id](self, st, *args))]
            if self.cur is not None and f.id in self.cur.inline and f.id not in st.env:
                return self.inline_call(e, st)
            fc = self.function_contract(f.id)
            if fc is not None and f.id not in st.env:
                def kf(p, vals):
                    return self.call_contract(p, fc, None, vals, {}, e)
                return self.bind(self.eval_list(list(e.args), st), kf)
        if isinstance(f, ast.Attribute) and f.attr in ("append", "pop", "clear", "extend") and isinstance(f.value, (ast.Name, ast.Attribute)):
            base = self.eval1(f.value, st)
            if is_seq(base):
                return self.seq_mutation(e, st, base)
        if isinstance(f, ast.Attribute) and f.attr in ("append", "pop") and isinstance(f.value, ast.Attribute) and f.value.attr == "end_progs":
            stack = self.eval1(f.value, st)
            if isinstance(stack, PyObj) and stack.cls == "EPStack":
                def ke(p, vals):
                    return self.epstack_method(p, self.eval1(f.value, p), f.attr, vals, e)
                return self.bind(self.eval_list(list(e.args), st), ke)
        if isinstance(f, ast.Attribute) and f.attr == "join" and e.args and any(
                isinstance(n, ast.Name) and isinstance(st.env.get(n.id), PyConst) and st.env[n.id].name == "opaque" for n in ast.walk(e.args[0])):
            return [(st, fresh("joined", z3.StringSort()))]      # text assembled from values the contract does not model
        if isinstance(f, ast.Attribute) and f.attr == "join" and e.args and isinstance(e.args[0], (ast.GeneratorExp, ast.ListComp)):
            return [(st, fresh("joined", z3.StringSort()))]      # only ever printed / used as message text
        if any(isinstance(a, ast.Starred) for a in e.args):
            return self.call_starred(e, st)

        def k(p, vals):
            fn, args = vals[0], vals[1:len(e.args) + 1]
            kwargs = {}
            for kname, kval in zip([kw.arg for kw in e.keywords], vals[len(e.args) + 1:]):
                if kname is None and isinstance(kval, PyDictLit):
                    kwargs.update(kval.d)           # f(**{...}) with a dict whose keys are known
                else:
                    kwargs[kname] = kval
            return self.apply(p, fn, args, kwargs, e)
        return self.bind(self.eval_list([f] + list(e.args) + [kw.value for kw in e.keywords], st), k)

    def inline_call(self, e, st):
        """execute the real body of a module-level helper at its call site (the contract under verification lists it in `inline`)"""
        fn = next((n for n in self.tree.body if isinstance(n, ast.FunctionDef) and n.name == e.func.id), None)
        if fn is None:
            raise Unsupported(f"inline: function {e.func.id} not found at module level")
        depth = getattr(self, "_inline_depth", 0)
        if depth > 4:
            raise Unsupported("inline: nesting too deep (recursive helper?)")
        pos, kw = [], {}
        star_seq = None
        for a in e.args:
            if isinstance(a, ast.Starred):
                v = self.eval1(a.value, st)
                if z3.is_expr(v) and z3.is_seq(v) and len(e.args) == len(pos) + 1 and fn.args.vararg is not None and len(pos) == len(fn.args.posonlyargs + fn.args.args):
                    star_seq = v          # a sequence of unknown length handed on whole as the callee's *args
                    continue
                if not isinstance(v, (PyTuple, PyList)):
                    raise Unsupported("inline: *args of unknown length")
                pos.extend(v.items)
            else:
                pos.append(self.eval1(a, st))
        for k in e.keywords:
            v = self.eval1(k.value, st)
            if k.arg is None:
                if not isinstance(v, PyDictLit):
                    raise Unsupported("inline: **kwargs of unknown keys")
                kw.update(v.d)
            else:
                kw[k.arg] = v
        a = fn.args
        names = [x.arg for x in a.posonlyargs + a.args]
        env = {}
        for n, v in zip(names, pos):
            env[n] = v
        rest = pos[len(names):]
        if rest and a.vararg is None:
            raise Unsupported("inline: too many positional arguments")
        if a.vararg is not None:
            env[a.vararg.arg] = PyTuple(rest) if star_seq is None else star_seq
        dflt = dict(zip(names[len(names) - len(a.defaults):], a.defaults))
        for n in names:
            if n not in env:
                if n in kw:
                    env[n] = kw.pop(n)
                elif n in dflt:
                    env[n] = self.eval1(dflt[n], st)
                else:
                    raise Unsupported(f"inline: missing argument {n}")
        for x, d in zip(a.kwonlyargs, a.kw_defaults):
            env[x.arg] = kw.pop(x.arg) if x.arg in kw else (self.eval1(d, st) if d is not None else None)
        if a.kwarg is not None:
            env[a.kwarg.arg] = PyDictLit(kw)
        elif kw:
            raise Unsupported(f"inline: unexpected keyword arguments {sorted(kw)}")
        env["__caller__"] = PyObj("__frame__", st.env)          # travels with the path (cloned consistently when the path forks)
        saved_cur_ord = self.loop_ordinals
        loops = sorted((n for n in ast.walk(fn) if isinstance(n, (ast.While, ast.For))), key=lambda n: (n.lineno, n.col_offset))
        self.loop_ordinals = {**saved_cur_ord, **{id(n): ("inline", fn.name, i) for i, n in enumerate(loops)}}
        st.env = env
        self._inline_depth = depth + 1
        try:
            results = self.exec_block(fn.body, st)
        finally:
            self._inline_depth = depth
            self.loop_ordinals = saved_cur_ord
        out = []
        for p, fl in results:
            caller = p.env["__caller__"].fields
            p.env = caller
            if fl.kind == "raise":
                out.append((p, fl.value))
            elif fl.kind == "return":
                out.append((p, fl.value))
            elif fl.kind == "normal":
                out.append((p, NONE))
            else:
                raise Unsupported("inline: break/continue escaping a helper")
        return out

    def call_starred(self, e, st):
        """func(*args) where args is the vararg tuple of an uninterpreted callable"""
        fn = self.eval1(e.func, st)
        pos = []
        for a in e.args:
            if isinstance(a, ast.Starred):
                v = self.eval1(a.value, st)
                if isinstance(v, (PyTuple, PyList)):
                    pos.extend(v.items)
                elif isinstance(v, PyConst) and v.name == "varargs":
                    pos.append(v)
                else:
                    raise Unsupported("star-args value")
            else:
                pos.append(self.eval1(a, st))
        return self.apply(st, fn, pos, {}, e)

    def apply(self, st, fn, args, kwargs, node):
        if isinstance(fn, PyCallable):
            if fn.kind == "rulefn":
                return self.call_rulefn(st, fn, node)
            if fn.kind == "method" and isinstance(fn.bound, PyObj) and fn.bound.cls == "TokenizerState" and fn.name == "match":
                return self.do_match(st, fn.bound, args[0], node)
            if fn.kind == "method" and isinstance(fn.bound, PyObj) and fn.bound.cls == "Match":
                return self.match_method(st, fn.bound, fn.name, args, node)
            if fn.kind == "method":
                c = self.method_contract(fn.bound.cls, fn.name) if isinstance(fn.bound, PyObj) else None
                if c is None:
                    raise Unsupported(f"call of {fn.name} without a contract (line {node.lineno})")
                return self.call_contract(st, c, fn.bound, args, kwargs, node)
            if fn.kind == "tokmethod":
                return [(st, self.tok_method(st, fn.bound, fn.name, args, kwargs, node))]
            if fn.kind == "valmethod":
                return self.val_method(st, fn.bound, fn.name, args, kwargs, node)
            if fn.kind == "linesrc":
                g = fn.bound
                v = z3.If(g.pos < z3.Length(g.items), g.items[g.pos], z3.StringVal(""))
                g.pos = z3.If(g.pos < z3.Length(g.items), g.pos + 1, g.pos)
                return [(st, v)]
            if fn.kind == "nested":
                raise Unsupported("call of a nested function")
        if isinstance(fn, PyConst):
            if fn.name in EXC_CLASSES:
                return [(st, self.make_exception(st, fn.name, args))]
            if fn.name == "TokenInfo":
                return [(st, self.make_token(st, args, kwargs))]
            if fn.name == "ast.literal_eval" and len(args) == 1:
                # external: a str or bytes value determined by the text -- or a SyntaxError of its own (located inside the text, not in the
                # source: whoever calls it must catch and re-locate it)
                st_r = st.clone()
                ex = Exc("SyntaxError", getattr(node, "lineno", 0), "raised by ast.literal_eval")
                if "SyntaxError" in self.classes:
                    ex.obj = self.mk("obj:SyntaxError", "le_exc", st_r)[0]
                    ex.obj.external = True        # carries coordinates of the literal's text: NOT a well-formed error of this parser
                return [(st, PyLit(LE_BYTES(lift(args[0])), LE_VAL(lift(args[0])), LE_NUMKIND(lift(args[0])))), (st_r, ex)]
            if fn.name == "textwrap.dedent" and len(args) == 1:
                return [(st, dedent(lift(args[0])))]        # external: uninterpreted str -> str
            if fn.name in MODE_KINDS:
                return [(st, self.make_mode(fn.name, args))]
            if fn.name == "EndProg":
                return [(st, self.make_endprog(st, kwargs))]
            if fn.name in self.classes and "__init__" in self.classes[fn.name]:
                o = PyObj(fn.name, {})
                for f, init in self.classes[fn.name]["__init__"].items():
                    o.fields[f] = init(self, st)
                return [(st, o)]
            if fn.name.startswith("ast."):
                return [(st, PyObj(fn.name, dict(kwargs)))]
        raise Unsupported(f"call of {fn!r} at line {node.lineno}")

    def make_exception(self, st, cls, args):
        fields = {"msg": args[0] if args else z3.StringVal(""), "bare": z3.BoolVal(True)}
        if len(args) >= 2 and isinstance(args[1], PyTuple):
            t = args[1].items
            names = ["filename", "lineno", "offset", "text", "end_lineno", "end_offset"]
            for n, v in zip(names, t):
                fields[n] = v
            fields["bare"] = z3.BoolVal(False)
            fields["nargs"] = z3.IntVal(len(t))
        return PyObj(cls, fields)

    def make_token(self, st, args, kwargs):
        names = ["type", "string", "start", "end", "line"]
        d = dict(zip(names, args))
        d.update(kwargs)
        if set(d) != set(names):
            raise Unsupported("TokenInfo constructor arguments")
        s, e2 = d["start"], d["end"]
        if isinstance(s, PyOpt) or isinstance(e2, PyOpt):
            for o in (s, e2):
                if isinstance(o, PyOpt):
                    self.vc(st, z3.Not(o.isnone), "safety", "position passed to TokenInfo is not None", 0)
            s, e2 = (s.some if isinstance(s, PyOpt) else s), (e2.some if isinstance(e2, PyOpt) else e2)
        if not (isinstance(s, PyTuple) and isinstance(e2, PyTuple)):
            raise Unsupported("TokenInfo positions")
        return Tok.mk(lift(d["type"]), lift(d["string"]), lift(s.items[0]), lift(s.items[1]), lift(e2.items[0]), lift(e2.items[1]),
                      lift(d["line"]))

    def tok_method(self, st, t, name, args, kwargs, node):
        if name == "is_exact_type":
            return z3.And(Tok.type(t) == self.token_enum["OP"], Tok.string(t) == lift(args[0]))
        if name == "is_next_to":
            return eq(tok_fields(args[0])["end"], tok_fields(t)["start"])
        if name == "loc_start":
            return PyDictLit({"lineno": Tok.sl(t), "col_offset": Tok.sc(t)})
        if name == "loc_end":
            return PyDictLit({"end_lineno": Tok.el(t), "end_col_offset": Tok.ec(t)})
        if name == "loc":
            return PyDictLit({"lineno": Tok.sl(t), "col_offset": Tok.sc(t), "end_lineno": Tok.el(t), "end_col_offset": Tok.ec(t)})
        if name == "_replace" and set(kwargs) == {"string"}:
            return Tok.mk(Tok.type(t), lift(kwargs["string"]), Tok.sl(t), Tok.sc(t), Tok.el(t), Tok.ec(t), Tok.line(t))
        raise Unsupported("token method " + name)

    def val_method(self, st, v, name, args, kwargs, node):
        a = [lift(x) for x in args]
        if is_str(v):
            if name == "isspace":
                return [(st, str_isspace(v))]
            if name == "startswith":
                return [(st, z3.PrefixOf(a[0], v))]
            if name == "endswith":
                return [(st, z3.SuffixOf(a[0], v))]
            if name == "lower":
                r = str_lower(v)
                st.assume(z3.Length(r) == z3.Length(v))
                return [(st, r)]
            if name == "find":
                return [(st, z3.IndexOf(v, a[0], 0))]
            if name == "split" and len(a) == 1 and z3.is_string_value(z3.simplify(v)) and z3.is_string_value(z3.simplify(a[0])):
                # a concrete text split at a concrete separator (names of runtime functions such as "__xonsh__.env")
                return [(st, PyList([z3.StringVal(x) for x in z3.simplify(v).as_string().split(z3.simplify(a[0]).as_string())]))]
            if name == "strip" and not a:
                return [(st, str_strip(v))]
            if name == "rstrip" and len(a) == 1:
                r = str_rstrip_nl(v)
                st.assume(z3.And(z3.PrefixOf(r, v)))
                return [(st, r)]
            if name == "replace" and len(a) == 3 and z3.is_int_value(z3.simplify(a[2])) and z3.simplify(a[2]).as_long() == 1:
                return [(st, z3.Replace(v, a[0], a[1]))]
            if name == "join":
                if is_seq(a[0]) and z3.is_string_value(z3.simplify(v)):
                    return [(st, join_lines(a[0]))]
                return [(st, fresh("joined", z3.StringSort()))]
            if name == "encode" and not a:
                return [(st, PyObj("EncodedStr", {"s": v}))]          # the UTF-8 bytes of the text: only indexing is modelled (ASCII characters)
        if is_seq(v):
            if name == "append":
                raise Unsupported("append must go through a field/name (handled in seq_mutation)")
        if isinstance(v, PyAbsList):
            if name == "append" and isinstance(args[0], PyObj):
                x = args[0]
                z = z3.simplify(v.n == 0)
                if z3.is_true(z):
                    v.first = x
                elif not z3.is_false(z):
                    outs = []
                    for p2, empty in self.fork(st, v.n == 0):
                        w = self.same_in(st, p2, v)
                        x2 = self.same_in(st, p2, x)
                        if not isinstance(w, PyAbsList):
                            raise Unsupported("abstract list lost across a fork")
                        if empty:
                            w.first = x2
                        w.last, w.n = x2, w.n + 1
                        outs.append((p2, NONE))
                    return outs
                v.last, v.n = x, z3.simplify(v.n + 1)
                return [(st, NONE)]
            if name == "extend" and isinstance(args[0], PyAbsList):
                o = args[0]
                outs = []
                for p2, none in self.fork(st, o.n == 0):
                    if none:
                        outs.append((p2, NONE))
                        continue
                    v2, o2 = self.same_in(st, p2, v), self.same_in(st, p2, o)
                    for p3, empty in self.fork(p2, v2.n == 0):
                        w, o3 = self.same_in(p2, p3, v2), self.same_in(p2, p3, o2)
                        if empty:
                            w.first = o3.first
                        w.last, w.n = o3.last, w.n + o3.n
                        outs.append((p3, NONE))
                return outs
        if isinstance(v, PyList):
            if name == "append":
                v.items.append(args[0])
                return [(st, NONE)]
            if name == "pop" and len(args) == 1 and z3.is_int_value(z3.simplify(lift(args[0]))):
                i = z3.simplify(lift(args[0])).as_long()
                if not -len(v.items) <= i < len(v.items):
                    self.vc(st, z3.BoolVal(False), "safety", "pop index out of range", node.lineno)
                    return [(st, Exc("IndexError", node.lineno))]
                return [(st, v.items.pop(i))]
            if name == "pop" and not args:
                if not v.items:
                    self.vc(st, z3.BoolVal(False), "safety", "pop from empty list", node.lineno)
                    return [(st, Exc("IndexError", node.lineno))]
                return [(st, v.items.pop())]
            if name == "clear":
                v.items.clear()
                return [(st, NONE)]
        if isinstance(v, PyCache) and name == "get" and len(args) == 2 and isinstance(args[0], PyKey) and isinstance(args[1], PyTuple) and len(args[1].items) == 2:
            hit = z3.Select(v.present, args[0].mark)
            d0, d1 = args[1].items
            d0 = NoneVal if d0 is NONE else lift(d0)
            return [(st, PyTuple([z3.If(hit, z3.Select(v.tree, args[0].mark), d0), z3.If(hit, z3.Select(v.end, args[0].mark), lift(d1))]))]
        if isinstance(v, PyCache) and name == "clear":
            v.present = z3.K(I, z3.BoolVal(False))
            return [(st, NONE)]
        if isinstance(v, PyDictLit) and name == "get":
            out = []
            rest = st
            for kk, vv in v.d.items():
                hit = rest.clone()
                hit.assume(a[0] == z3.StringVal(kk))
                if self.feasible(hit, z3.BoolVal(True)):
                    out.append((hit, vv))
                rest.assume(a[0] != z3.StringVal(kk))
            if self.feasible(rest, z3.BoolVal(True)):
                out.append((rest, args[1] if len(args) > 1 else NONE))
            return out
        if isinstance(v, PyStrDict) and name == "get":
            out = []
            rest = st
            for kk, vv in v.items.items():
                hit = rest.clone()
                hit.assume(a[0] == z3.StringVal(kk))
                if self.feasible(hit, z3.BoolVal(True)):
                    out.append((hit, z3.StringVal(vv)))
                rest.assume(a[0] != z3.StringVal(kk))
            if self.feasible(rest, z3.BoolVal(True)):
                out.append((rest, args[1] if len(args) > 1 else NONE))
            return out
        if isinstance(v, PyMap) and name == "get":
            k = a[0]
            return [(st, z3.If(z3.Select(v.present, k), z3.Select(v.value, k), a[1] if len(a) > 1 else z3.StringVal("")))]
        raise Unsupported(f"method .{name} on {type(v).__name__} line {node.lineno}")

    # mutation of symbolic sequences held in names/fields: x.append(v), x.pop(), x.clear()
    def seq_mutation(self, e, st, base):
        f = e.func

        def store(p, newv):
            if isinstance(f.value, ast.Name):
                p.env[f.value.id] = newv
            else:
                o = self.eval1(f.value.value, p)
                o.fields[f.value.attr] = newv

        if f.attr == "append":
            def k(p, v):
                b = self.eval1(f.value, p)
                v = NoneVal if v is NONE and b.sort() == ValSeq else lift(v)
                n = z3.Length(b)
                nw = fresh("appended", b.sort())
                jq = z3.Int("aj!q")
                p.assume(z3.Length(nw) == n + 1)
                p.assume(z3.ForAll([jq], z3.Implies(z3.And(jq >= 0, jq < n), nw[jq] == b[jq])))
                p.assume(nw[n] == v)
                p.assume(nw == z3.Concat(b, z3.Unit(v)))
                store(p, nw)
                return [(p, NONE)]
            return self.bind(self.eval(e.args[0], st), k)
        if f.attr == "pop" and not e.args:
            n = z3.Length(base)
            self.safety(st, n > 0, f"`{ast.unparse(e)[:50]}` on a non-empty list (IndexError)", e)
            v = base[n - 1]
            # the popped list, with its defining equations instantiated (the solver unfolds SubSeq under quantifiers unreliably)
            rest = fresh("popped", base.sort())
            jq = z3.Int("pj!q")
            st.assume(z3.Length(rest) == n - 1)
            st.assume(z3.ForAll([jq], z3.Implies(z3.And(jq >= 0, jq < n - 1), rest[jq] == base[jq])))
            st.assume(base == z3.Concat(rest, z3.Unit(v)))
            store(st, rest)
            return [(st, v)]
        if f.attr == "clear":
            store(st, z3.Empty(base.sort()))
            return [(st, NONE)]
        raise Unsupported(f"sequence mutation .{f.attr}")

    def call_rulefn(self, st, fn: PyCallable, node):
        parser, tk = self.parser_objs(st)
        idx, ab = tk.fields["_index"], tk.fields["_abs"]
        if parser is not None:
            c = parser.fields["_cache"]
            ca = (c.present, c.tree, c.end)
        else:
            raise Unsupported("rule-like call outside a Parser method")
        key = (fn.ident, idx, ab) + ca
        r, i2, a2 = F_res(*key), F_idx(*key), F_abs(*key)
        toks = tk.fields["_tokens"]
        ext = fresh("pulled", TokSeq)
        nt = fresh("tokens", TokSeq)
        jq = z3.Int("tk!q")
        # tokens' = tokens ++ pulled, with the consequences the solver needs spelled out (instantiated definition)
        st.assume(nt == z3.Concat(toks, ext))
        st.assume(z3.Length(nt) == z3.Length(toks) + z3.Length(ext))
        st.assume(z3.Implies(z3.Length(ext) == 0, nt == toks))
        st.assume(z3.ForAll([jq], z3.Implies(z3.And(jq >= 0, jq < z3.Length(toks)), nt[jq] == toks[jq])))
        tk.fields["_tokens"] = nt
        tk.fields["_index"] = i2
        tk.fields["_abs"] = a2
        nc = PyCache(F_cp(*key), F_ct(*key), F_ce(*key))
        m = z3.Int("cm!q")
        st.assume(z3.ForAll([m], z3.Implies(z3.Select(c.present, m),
                                            z3.And(z3.Select(nc.present, m), z3.Select(nc.tree, m) == z3.Select(c.tree, m),
                                                   z3.Select(nc.end, m) == z3.Select(c.end, m)))))
        parser.fields["_cache"] = nc
        # a rule-like callable may pull tokens, push back, toggle the macro flags; it preserves the Tokenizer invariant and
        # never leaves the cursor past ENDMARKER (assumed here; E2 proves never_past_end for the generated methods)
        g = tk.fields["_tokengen"]
        tk.fields["_tokengen"] = type(g)(g.items, fresh("gpos", I))
        tk.fields["_stack"] = fresh("stack", TokSeq)
        for fl in ("_call_macro", "_with_macro", "_proc_macro"):
            tk.fields[fl] = fresh(fl, z3.BoolSort())
        lm = tk.fields["_lines"]
        tk.fields["_lines"] = self.fresh_like(lm, "lines")
        st.assume(self.spec_funcs["tk_ok"](self, st, tk))
        st.assume(self.spec_funcs["can_peek"](self, st, tk))
        st.assume(self.spec_funcs["cache_ok"](self, st, nc, tk))
        if "toks_wf" in self.spec_funcs:
            st.assume(self.spec_funcs["toks_wf"](self, st, tk))
        for cl in (self.cur.rulefn_preserves if self.cur else ()):
            self.assuming = True
            try:
                st.assume(Tr(self.spec_eval(cl, st)))
            finally:
                self.assuming = False
        st.assume(z3.And(i2 >= 0, i2 <= z3.Length(tk.fields["_tokens"])))
        st.assume(z3.Implies(truthy(r), (i2 > idx) if fn.strict else (i2 >= idx)))
        st.trace.append(("call", fn.name, node.lineno))
        return [(st, r)]

    def call_contract(self, st, c: Contract, recv, args, kwargs, node):
        names = [p for p in c.params if p != "self"]
        env = {"self": recv} if recv is not None else {}
        if len(args) > len(names) and c.vararg is None:
            raise Unsupported(f"too many arguments for {c.name}")
        for n, v in zip(names, args):
            env[n] = v
            if c.params[n].strip() == "rulefn+":
                ok = (isinstance(v, PyCallable) and ((v.kind == "rulefn" and v.strict) or
                      (v.kind == "method" and getattr(self.method_contract(v.bound.cls, v.name), "strict_progress", False))))
                self.vc(st, z3.BoolVal(bool(ok)), "pre", f"argument `{n}` of {c.name.split(':')[1]} makes strict progress on success (termination of the loop)", node.lineno)
        if c.vararg is not None:
            env["_varargs"] = PyTuple(args[len(names):])
        for k2, v in kwargs.items():
            env[k2] = v
        for n in names:
            if n not in env:
                d = c.params[n]
                if "=" in d:
                    env[n] = self.eval1(ast.parse(d.split("=", 1)[1].strip(), mode="eval").body, st)
                else:
                    raise Unsupported(f"missing argument {n} for {c.name}")
        ss = St()
        ss.pc = st.pc
        ss.env = env
        short = c.name.split(":")[1]
        for pn, path in c.alias.items():
            same = env.get(pn) is self._get_path(env, path)
            self.vc(st, z3.BoolVal(bool(same)), "pre", f"argument `{pn}` of {short} is the object `{path}`", node.lineno)
        for r in c.requires:
            try:
                g = self.spec_eval(r, ss)
            except (AttributeError, KeyError, TypeError) as u:
                # e.g. a clause about the positions of an argument that is None on this path
                self.vc(st, z3.BoolVal(False), "pre", f"precondition `{r}` of {short} cannot be evaluated for these arguments: {type(u).__name__}", node.lineno)
                continue
            self.vc(st, Tr(g), "pre", f"precondition `{r}` of {short}", node.lineno)
            st.assume(Tr(g))
        for r in c.requires_assumed:
            st.assume(Tr(self.spec_eval(r, ss)))
        old = St()
        memo: dict = {}
        old.env = {k: clone(v, memo) for k, v in env.items()}
        old.pc = st.pc
        ss.old = old
        out = []
        def exc_of(p, cls, why):
            ex = Exc(cls, node.lineno, why)
            shape = "SyntaxError" if cls in ("SyntaxError", "IndentationError") else None
            if shape and shape in self.classes:
                ex.obj = self.mk("obj:" + shape, "exc", p)[0]
                ex.obj.cls = cls
                if c.raises_ensures:
                    se = St()
                    se.pc, se.env, se.old = p.pc, dict(env), old
                    se.env["exc"] = ex.obj
                    self.assuming = True
                    try:
                        for en in c.raises_ensures:
                            p.assume(Tr(self.spec_eval(en, se)))
                    finally:
                        self.assuming = False
            return ex

        # raising outcomes
        for cls, cond in c.raises_when.items():
            g = Tr(self.spec_eval(cond, old))
            st_r = st.clone()
            if self.feasible(st_r, g):
                st_r.assume(g)
                out.append((st_r, exc_of(st_r, cls, f"raised by {short}")))
            st.assume(z3.Not(g))
        if c.always_raises:
            cls = c.raises[0] if c.raises else "Exception"
            for m in c.modifies:
                self.havoc_path(st, m, "m_", env)
            return out + [(st, exc_of(st, cls, f"always raised by {short}"))]
        for cls in c.may_raise:
            st_r = st.clone()
            out.append((st_r, exc_of(st_r, cls, f"may be raised by {short}")))
        for m in c.modifies:
            self.havoc_path(st, m, "m_", env)
        results = self.mk(c.returns, "ret", st) if c.returns else [NONE]
        for r0 in results:
            if isinstance(r0, PyObj):
                r0.ident = fresh("id_ret", I)        # an object the callee built or found: not known to be distinct from anything
        for cond, pn in c.returns_same.items():
            g = Tr(self.spec_eval(cond, old))
            st_s = st.clone()
            if self.feasible(st_s, g):
                st_s.assume(g)
                env_s = {k2: clone(v, st_s._memo) for k2, v in env.items()}
                ss2 = St()
                ss2.pc, ss2.env, ss2.old = st_s.pc, dict(env_s), old
                ss2.env["result"] = env_s[pn]
                self.assuming = True
                try:
                    for en in c.ensures:
                        st_s.assume(Tr(self.spec_eval(en, ss2)))
                finally:
                    self.assuming = False
                out.append((st_s, env_s[pn]))
            st.assume(z3.Not(g))
        if c.returns_same and not self.feasible(st, z3.BoolVal(True)):
            return out
        for idx, res in enumerate(results):
            p = st if idx == len(results) - 1 else st.clone()
            if p is not st:
                # re-resolve env objects in the clone
                env2 = {k2: clone(v, p._memo) for k2, v in env.items()}
            else:
                env2 = env
            s2 = St()
            s2.pc = p.pc
            s2.env = dict(env2)
            s2.env["result"] = res
            s2.old = old
            before = St()
            before.pc = list(p.pc)
            ys = None
            as_value = c.generator and getattr(self, "gen_as_value", False)
            if c.generator:
                ys = fresh("ys", NodeAbsSeq if c.yields == "node" else TokSeq)
                s2.env["yielded"] = ys
            self.assuming = True
            try:
                for en in c.ensures:
                    g = Tr(self.spec_eval(en, s2))
                    p.assume(g)
            finally:
                self.assuming = False
            if ys is not None and as_value:
                res = ys
            elif ys is not None:
                cur = p.env.get("yielded")
                cur = z3.Empty(TokSeq) if cur is None else cur
                nw = fresh("yielded", TokSeq)
                jq = z3.Int("yc!q")
                p.assume(nw == z3.Concat(cur, ys))
                p.assume(z3.Length(nw) == z3.Length(cur) + z3.Length(ys))
                p.assume(z3.ForAll([jq], z3.Implies(z3.And(jq >= 0, jq < z3.Length(cur)), nw[jq] == cur[jq])))
                p.assume(z3.ForAll([jq], z3.Implies(z3.And(jq >= 0, jq < z3.Length(ys)), nw[z3.Length(cur) + jq] == ys[jq])))
                p.env["yielded"] = nw
            if self.feasible(p, z3.BoolVal(True)):
                out.append((p, res))
            elif len(results) == 1:
                # vacuity guard: the callee's postcondition contradicts the caller's path.  The obligation is stated against the path as it
                # was BEFORE the postcondition was assumed (against the contradictory path it would be trivially true), so it fails
                # whenever that path was reachable: a path must never disappear silently
                self.vc(before, z3.BoolVal(False), "vacuity", f"postcondition of {short} is consistent with the calling path", node.lineno)
        return out

    # ------------------------------------------------------------------ builtins (b_<name>)
    def b_len(self, e, st):
        def k(p, v):
            if isinstance(v, (PyTuple, PyList)):
                return [(p, z3.IntVal(len(v.items)))]
            if is_str(v) or is_seq(v):
                return [(p, z3.Length(v))]
            if isinstance(v, PyObj) and v.cls == "EPStack":
                return [(p, v.fields["n"])]
            if isinstance(v, PyComp):
                return [(p, v.length)]
            if isinstance(v, PyAbsList):
                return [(p, v.n)]
            raise Unsupported("len of " + type(v).__name__)
        return self.bind(self.eval(e.args[0], st), k)

    def b_print(self, e, st):
        return self.bind(self.eval_list(list(e.args), st), lambda p, v: [(p, NONE)])

    def b_Mark(self, e, st):
        return self.eval(e.args[0], st)

    def b_cast(self, e, st):
        return self.eval(e.args[1], st)

    def b_bool(self, e, st):
        return self.bind(self.eval(e.args[0], st), lambda p, v: [(p, Tr(v))])

    def b_str(self, e, st):
        return self.bind(self.eval(e.args[0], st), lambda p, v: [(p, v if is_str(v) else fresh("str", z3.StringSort()))])

    def b_repr(self, e, st):
        return self.bind(self.eval(e.args[0], st), lambda p, v: [(p, fresh("repr", z3.StringSort()))])

    def b_isinstance(self, e, st):
        return self.bind(self.eval(e.args[0], st), lambda s2, v: self.isinstance_of(e, s2, v))

    def isinstance_of(self, e, st, v):
        t = ast.unparse(e.args[1])
        if v is NONE:
            return [(st, z3.BoolVal(False))]
        if isinstance(v, PyUnion):
            conds = []
            for k, a in enumerate(v.alts):
                e2 = ast.Call(func=e.func, args=[ast.Name(id="__alt__", ctx=ast.Load()), e.args[1]], keywords=[])
                bak = st.env.get("__alt__", _MISSING)
                st.env["__alt__"] = a
                try:
                    r = self.isinstance_of(e2, st, a)[0][1]
                finally:
                    if bak is _MISSING:
                        st.env.pop("__alt__", None)
                    else:
                        st.env["__alt__"] = bak
                conds.append(z3.And(v.kind == k, r))
            return [(st, z3.Or(conds))]
        if isinstance(v, PyLit):
            if t == "bytes":
                return [(st, z3.And(v.numkind == 0, v.isbytes))]
            if t == "str":
                return [(st, z3.And(v.numkind == 0, z3.Not(v.isbytes)))]
            if t.replace(" ", "") in ("float|int", "int|float", "(float,int)", "(int,float)"):
                return [(st, v.numkind == 1)]
            if t == "complex":
                return [(st, v.numkind == 2)]
        if t == "str":
            return [(st, z3.BoolVal(is_str(v)))]
        if t == "tuple":
            if isinstance(v, PyCallable) and v.kind == "rulefn":
                return [(st, fresh("is_tuple_ref", z3.BoolSort()))]
            return [(st, z3.BoolVal(isinstance(v, PyTuple)))]
        if t == "TokenInfo":
            return [(st, z3.BoolVal(is_tok(v)))]
        if isinstance(v, PyObj) and v.cls == "ModeView":
            cls = st.env.get(t) if t in st.env else self.globals.get(t)
            if isinstance(cls, PyConst) and cls.name in MODE_KINDS:
                return [(st, v.fields["kind"] == MODE_KINDS[cls.name])]
            raise Unsupported(f"isinstance(<mode>, {t})")
        if isinstance(v, PyObj) and ("?is:" + t) in v.fields:
            return [(st, v.fields["?is:" + t])]            # a node known by shape only: whether it is of that class is a ghost of the shape
        if isinstance(v, PyObj) and any(k.startswith("?is:") for k in v.fields) and t.startswith("ast."):
            raise Unsupported(f"isinstance(<node of unknown class>, {t}): declare `is:{t}?` in its shape")
        if isinstance(v, PyObj) and t in ("ast.AST", "ast.expr", "AST"):
            return [(st, z3.BoolVal(v.cls.startswith("ast.") or v.cls == "PosNode"))]
        if isinstance(v, PyObj):
            names = [x.strip() for x in t.replace("(", "").replace(")", "").replace("|", ",").split(",")]
            return [(st, z3.BoolVal(v.cls in names or ("ast." + v.cls) in names or v.cls.split(".")[-1] in [n.split(".")[-1] for n in names]))]
        if is_tok(v):
            return [(st, z3.BoolVal(False))]
        raise Unsupported(f"isinstance({type(v).__name__}, {t})")

    def b_min(self, e, st):
        g = e.args[0] if len(e.args) == 1 else None
        if (isinstance(g, ast.GeneratorExp) and len(g.generators) == 1 and isinstance(g.generators[0].target, ast.Name) and isinstance(g.generators[0].iter, ast.Tuple)
                and [k.arg for k in e.keywords] == ["default"]):
            # min(<elt> for x in (a, b, ...) if <cond>, default=d): folded over the finitely many candidates
            gen = g.generators[0]
            cands = []
            for item in gen.iter.elts:
                s2 = St()
                s2.pc, s2.env, s2.old = st.pc, dict(st.env), st.old
                s2.env[gen.target.id] = self.eval1(item, st)
                keep = z3.And([Tr(self.eval1(c, s2)) for c in gen.ifs]) if gen.ifs else z3.BoolVal(True)
                cands.append((keep, lift(self.eval1(g.elt, s2))))
            out = lift(self.eval1(e.keywords[0].value, st))
            have = z3.BoolVal(False)
            for keep, v in cands:
                out = z3.If(keep, z3.If(z3.And(have, out <= v), out, v), out)
                have = z3.Or(have, keep)
            return [(st, out)]
        a, b = [self.eval1(x, st) for x in e.args]
        if isinstance(a, PyTuple):
            from .pyvc import lex_lt
            c = lex_lt(a, b, False)
            return [(st, PyTuple([z3.If(c, x, y) for x, y in zip(a.items, b.items)]))]
        return [(st, z3.If(lift(a) <= lift(b), lift(a), lift(b)))]

    def b_max(self, e, st):
        a, b = [lift(self.eval1(x, st)) for x in e.args]
        return [(st, z3.If(a >= b, a, b))]

    def b_range(self, e, st):
        vals = [lift(self.eval1(x, st)) for x in e.args]
        lo, hi = (z3.IntVal(0), vals[0]) if len(vals) == 1 else vals[:2]
        r = fresh("range", IntSeq)
        n = z3.If(hi > lo, hi - lo, 0)
        st.assume(z3.Length(r) == n)
        j = z3.Int("rj!q")
        st.assume(z3.ForAll([j], z3.Implies(z3.And(j >= 0, j < n), r[j] == lo + j)))
        return [(st, r)]

    def b_list(self, e, st):
        if not e.args:
            return [(st, PyList([]))]
        a = e.args[0]
        if isinstance(a, ast.Call) and isinstance(a.func, ast.Attribute):
            gc = self.contract_for_attr(a.func.attr)
            if gc is not None and gc.generator:
                # list(<generator function under contract>(...)): the list IS the sequence the callee yields (nothing is yielded by the caller)
                self.gen_as_value = True
                try:
                    return self.eval(a, st)
                finally:
                    self.gen_as_value = False
        return self.eval(a, st)

    b_tuple = b_list

    def b_next(self, e, st):
        def k(p, g):
            if not isinstance(g, PyGen):
                raise Unsupported("next() of non-generator")
            self.safety(p, g.pos < z3.Length(g.items), "next() on an exhausted generator (StopIteration)", e)
            v = g.items[g.pos]
            g.pos = g.pos + 1
            return [(p, v)]
        return self.bind(self.eval(e.args[0], st), k)

    def b_getattr(self, e, st):
        o = self.eval1(e.args[0], st)
        # getattr(self, rule): an uninterpreted rule method selected by name
        nm = self.eval1(e.args[1], st)
        return [(st, PyCallable("rulefn", "getattr", ident=token_named(lift(nm)) + 100000))]

    def b_open(self, e, st):
        enc = [kw for kw in e.keywords if kw.arg == "encoding"]
        f = PyObj("File", {"lines": fresh("file_lines", StrSeq), "has_encoding": z3.BoolVal(bool(enc))})
        self.vc(st, z3.BoolVal(bool(enc)), "ambient", "open() is called with an explicit encoding (decoded text must not depend on the locale)", e.lineno)
        return [(st, f)]

    # ---- spec-only
    def b_old(self, e, st):
        if st.old is None:
            raise Unsupported("old() without a pre-state")
        return [(st, self.eval1(e.args[0], st.old))]

    def b_implies(self, e, st):
        a = Tr(self.eval1(e.args[0], st))
        if z3.is_false(z3.simplify(a)):
            return [(st, z3.BoolVal(True))]
        s2 = St()
        s2.pc = list(st.pc) + [a]
        s2.env = st.env
        s2.old = st.old
        n_vcs = len(self.vcs)
        try:
            b = Tr(self.eval1(e.args[1], s2))
        except (Unsupported, KeyError, AttributeError):
            # the consequent is not well-typed here: fine when the antecedent cannot hold on this path (only then is the solver asked)
            if not self.feasible(st, a):
                del self.vcs[n_vcs:]
                return [(st, z3.BoolVal(True))]
            raise
        return [(st, z3.Implies(a, b))]

    def _quant(self, e, st, universal: bool):
        g = e.args[0]
        if not (isinstance(g, ast.GeneratorExp) and len(g.generators) == 1 and isinstance(g.generators[0].target, ast.Name)):
            raise Unsupported("quantifier shape")
        gen = g.generators[0]
        var = gen.target.id
        rng = gen.iter
        if not (isinstance(rng, ast.Call) and isinstance(rng.func, ast.Name) and rng.func.id == "range"):
            itv = self.eval1(rng, st)
            if isinstance(itv, PyAbsList):
                return [(st, fresh("some_elt" if not universal else "every_elt", z3.BoolSort()))]      # elements in the middle are not modelled
            if isinstance(itv, PyComp) and not gen.ifs:
                # any/all(<cond(p)> for p in <list argument>): quantified over the index, p := the element there
                self.qcount = getattr(self, "qcount", 0) + 1
                j = z3.Int(f"q_{var}!{self.qcount}")
                s2 = St()
                s2.pc, s2.env, s2.old = list(st.pc), dict(st.env), st.old
                s2.env[var] = itv.at(j)
                inr = z3.And(j >= 0, j < itv.length)
                s2.assume(inr)
                was = self.spec_mode
                self.spec_mode = True            # a union-shaped element stays one value (read by cases), no fork under the quantifier
                try:
                    body = Tr(self.eval1(g.elt, s2))
                finally:
                    self.spec_mode = was
                return [(st, z3.ForAll([j], z3.Implies(inr, body)) if universal else z3.Exists([j], z3.And(inr, body)))]
            raise Unsupported("quantifier range")
        bounds = [lift(self.eval1(a, st)) for a in rng.args]
        lo, hi = (z3.IntVal(0), bounds[0]) if len(bounds) == 1 else bounds
        hint = (self.witness_hints or {}).get(var) if not universal else None
        if hint is not None:
            try:
                j = lift(self.eval1(ast.parse(hint, mode="eval").body, st))
            except Unsupported:
                hint, j = None, None
        if hint is None:
            self.qcount = getattr(self, "qcount", 0) + 1
            j = z3.Int(f"q_{var}!{self.qcount}")
        s2 = St()
        s2.pc = list(st.pc)
        s2.env = dict(st.env)
        s2.env[var] = j
        s2.old = st.old
        inr = z3.And(j >= lo, j < hi)
        s2.assume(inr)
        for c in gen.ifs:
            g2 = Tr(self.eval1(c, s2))
            inr = z3.And(inr, g2)
            s2.assume(g2)
        body = Tr(self.eval1(g.elt, s2))
        if hint is not None:
            return [(st, z3.And(inr, body))]
        return [(st, z3.ForAll([j], z3.Implies(inr, body)) if universal else z3.Exists([j], z3.And(inr, body)))]

    def b_all(self, e, st):
        return self._quant(e, st, True)

    def b_any(self, e, st):
        return self._quant(e, st, False)

    # ------------------------------------------------------------------ verification driver
    def verify(self, c: Contract):
        """symbolically execute the real body of the function named by the contract; fills self.vcs"""
        self.cur = c
        self.yield_from_depth = 0
        self.loop_counter = 0
        self.axioms, self._axiom_ids = [], set()
        qual = c.name.split(":")[1].split("#")[0]
        fn = self.find_function(qual)
        if fn is None:
            raise Unsupported(f"function {qual} not found in {self.filename} (stale contract)")
        loops = sorted((n for n in ast.walk(fn) if isinstance(n, (ast.While, ast.For))), key=lambda n: (n.lineno, n.col_offset))
        self.loop_ordinals = {id(n): i for i, n in enumerate(loops)}
        stale = [k for k in c.loops if k >= len(loops)]
        if stale:
            raise Unsupported(f"sidecar has invariants for loop(s) {stale} but the function has only {len(loops)} loop(s) (stale contract)")
        st0 = St()
        # parameters
        alts = [(st0, {})]
        pnames = [a.arg for a in fn.args.posonlyargs + fn.args.args + fn.args.kwonlyargs]
        declared = dict(c.params)
        declared.update(c.closure)
        for n, ty in declared.items():
            ty = ty.split("=")[0].strip()
            nxt = []
            for s, env in alts:
                vals = self.mk(ty, n, s)
                for idx, v in enumerate(vals):
                    s2 = s if idx == len(vals) - 1 else s.clone()
                    e2 = dict(env) if s2 is s else {k: clone(x, s2._memo) for k, x in env.items()}
                    e2[n] = v
                    nxt.append((s2, e2))
            alts = nxt
        missing = [p for p in pnames if p not in declared]
        if missing:
            raise Unsupported(f"parameters without a declared type: {missing}")
        if fn.args.vararg is not None:
            if c.vararg is None:
                raise Unsupported("vararg without declared type")
        if c.product:
            return self.verify_product(c, fn, alts)
        results = []
        for s, env in alts:
            s.env = env
            if fn.args.vararg is not None:
                s.env[fn.args.vararg.arg] = PyRuleSeq(fresh("alts", IntSeq)) if c.vararg == "seq[rulefn]" else PyConst("varargs")
            for pn, path in c.alias.items():
                s.env[pn] = self._get_path(s.env, path)
            if fn.args.kwarg is not None:
                extra = [n for n in c.params if n not in pnames and n != "self"]
                # keyword arguments the contract names (e.g. add_prog(..., mode=, pattern=, quote=)) are the members of **kwargs
                s.env[fn.args.kwarg.arg] = PyDictLit({n: s.env[n] for n in extra}) if extra else PyConst("kwargs")
            self.assuming = True
            for r in list(c.requires) + list(c.requires_assumed):
                s.assume(Tr(self.spec_eval(r, s)))
            self.assuming = False
            if not self.feasible(s, z3.BoolVal(True)):
                self.vc(s, z3.BoolVal(False), "vacuity", "precondition together with the type invariants is satisfiable", fn.lineno)
                continue
            if c.generator:
                s.env["yielded"] = z3.Empty(NodeAbsSeq if c.yields == "node" else TokSeq)
            old = St()
            memo: dict = {}
            old.env = {k: clone(v, memo) for k, v in s.env.items()}
            old.pc = s.pc
            s.old = old
            self.loop_counter = 0
            for p, fl in self.exec_block(fn.body, s):
                self.stats["paths"] += 1
                results.append((p, fl))
                self.finish_path(c, fn, p, fl)
        return results

    def _concrete_for(self, n):
        return False

    def _set_path(self, env, path, value):
        parts = path.split(".")
        o = env[parts[0]]
        for p in parts[1:-1]:
            o = o.fields[p]
        o.fields[parts[-1]] = value

    def _get_path(self, env, path):
        parts = path.split(".")
        o = env[parts[0]]
        for p in parts[1:]:
            o = o.fields[p]
        return NoneVal if (o is NONE and path in ("lastresult", "result", "tree")) else o

    def verify_product(self, c: Contract, fn, alts):
        """relational obligation: two runs from equal states that differ only in `on` produce equal observations"""
        on, observe = c.product["on"], c.product["observe"]
        for s, env in alts:
            s.env = env
            if fn.args.vararg is not None:
                s.env[fn.args.vararg.arg] = PyRuleSeq(fresh("alts", IntSeq)) if c.vararg == "seq[rulefn]" else PyConst("varargs")
            self.assuming = True
            for r in list(c.requires) + list(c.requires_assumed):
                s.assume(Tr(self.spec_eval(r, s)))
            self.assuming = False
            runs = []
            self.product_related = tuple(c.product.get("related", ()))
            self.loop_log = {}
            for val in (True, False):
                self.product_run = "A" if val else "B"
                r = s.clone()
                self._set_path(r.env, on, z3.BoolVal(val))
                old = St()
                memo: dict = {}
                old.env = {k: clone(v, memo) for k, v in r.env.items()}
                old.pc = r.pc
                r.old = old
                self.loop_counter = 0
                saved = self.vcs
                self.vcs = []          # single-run obligations are generated by the ordinary contract of the same function
                try:
                    outs = self.exec_block(fn.body, r)
                finally:
                    self.vcs = saved
                runs.append(outs)
            self.product_run = None
            self.relational_loop_vcs(c, fn)
            for pa, fa in runs[0]:
                for pb, fb in runs[1]:
                    self.stats["paths"] += 1
                    joint = St()
                    joint.pc = pa.pc + [x for x in pb.pc if not any(x is y for y in pa.pc)]
                    ka = "raise" if fa.kind == "raise" else "return"
                    kb = "raise" if fb.kind == "raise" else "return"
                    if ka != kb:
                        self.vc(joint, z3.BoolVal(False), "product", f"{on}=True {ka}s where {on}=False {kb}s", fn.lineno)
                        continue
                    if ka == "raise":
                        self.vc(joint, z3.BoolVal(fa.value.cls == fb.value.cls), "product", "both runs raise the same exception class", fn.lineno)
                        continue
                    ra = fa.value if fa.kind == "return" else NONE
                    rb = fb.value if fb.kind == "return" else NONE
                    self.vc(joint, self.obs_eq(ra, rb), "product", f"returned value is the same with {on}=True and {on}=False", fn.lineno)
                    for ob in observe:
                        self.vc(joint, self.obs_eq(self._get_path(pa.env, ob), self._get_path(pb.env, ob)), "product",
                                f"`{ob}` is the same after the call with {on}=True and {on}=False", fn.lineno)
        return []

    def relational_loop_vcs(self, c, fn):
        """coupled loops: equal related state at entry; in lock step the two runs take the same kind of step (continue /
        leave) and re-establish equal related state at the end of every iteration"""
        loops = sorted({k for (_r, k) in self.loop_log})
        for k in loops:
            A, B = self.loop_log.get(("A", k), []), self.loop_log.get(("B", k), [])
            for ka, pa in A:
                for kb, pb in B:
                    if (ka == "entry") != (kb == "entry"):
                        continue
                    joint = St()
                    joint.pc = pa.pc + [x for x in pb.pc if not any(x is y for y in pa.pc)]
                    if ka != kb:
                        self.vc(joint, z3.BoolVal(False), "product", f"loop {k}: one run continues where the other leaves the loop ({ka}/{kb})", fn.lineno)
                        continue
                    if ka == "exit":
                        continue        # compared at function end
                    for path in self.product_related:
                        try:
                            va, vb = self._get_path(pa.env, path), self._get_path(pb.env, path)
                        except (KeyError, AttributeError):
                            continue
                        if va is NONE and vb is NONE:
                            continue
                        self.vc(joint, self.obs_eq(va, vb), "product",
                                f"loop {k} relational invariant ({'established' if ka == 'entry' else 'preserved'}): `{path}` is equal in both runs", fn.lineno)

    def obs_eq(self, a, b):
        if isinstance(a, PyCache) and isinstance(b, PyCache):
            return z3.And(a.present == b.present, a.tree == b.tree, a.end == b.end)
        if a is NONE and is_val(b):
            return b == NoneVal
        if b is NONE and is_val(a):
            return a == NoneVal
        return eq(a, b)

    def finish_path(self, c: Contract, fn, p: St, fl: Flow):
        if fl.kind == "raise":
            ex = fl.value
            allowed = any(exc_matches(ex.cls, a) for a in c.raises)
            self.vc(p, z3.BoolVal(allowed), "raises", f"exception {ex.cls} raised at line {ex.lineno} {ex.why} is allowed by the contract (raises={c.raises})", ex.lineno)
            for cls, cond in c.raises_when.items():
                if exc_matches(ex.cls, cls) and p.old is not None:
                    so = St()
                    so.pc, so.env, so.old = p.pc, dict(p.old.env), None
                    hints = c.witness.get(cond) if c.witness else None
                    if hints:
                        # witnesses of an existential condition may mention ghost/loop variables of the raising path
                        so.env.update({k: v for k, v in p.env.items() if k.startswith("_") and k not in so.env})
                    self.witness_hints = hints
                    try:
                        self.vc(p, Tr(self.spec_eval(cond, so)), "raises-only-when", f"{cls} is raised only when `{cond}` (pre-state)", ex.lineno)
                    finally:
                        self.witness_hints = None
            if allowed and getattr(c, "raises_ensures", None) and hasattr(ex, "obj"):
                p.env["exc"] = ex.obj
                for en in c.raises_ensures:
                    self.vc(p, Tr(self.spec_eval(en, p)), "post-raise", f"on raise: `{en}`", ex.lineno)
            return
        if fl.kind in ("break", "continue"):
            raise Unsupported("break/continue outside a loop")
        res = fl.value if fl.kind == "return" else NONE
        if c.always_raises:
            self.vc(p, z3.BoolVal(False), "post", "function declared to always raise returns normally", fn.lineno)
            return
        p.env["result"] = res
        for cond, pn in c.returns_same.items():
            self.vc(p, z3.Implies(Tr(self.spec_eval(cond, p.old)), eq(res, p.old.env[pn]) if isinstance(res, PyObj) and isinstance(p.old.env[pn], PyObj) else z3.BoolVal(False)),
                    "post", f"returns the argument `{pn}` itself when `{cond}`", fn.lineno)
        handed_on = any(isinstance(p.old.env.get(pn), PyObj) and z3.is_true(z3.simplify(eq(res, p.old.env[pn]))) for pn in c.returns_same.values()) if isinstance(res, PyObj) else False
        if c.returns and "obj:" in c.returns and isinstance(res, PyObj) and not handed_on:
            # call sites model the result by the declared shapes: the value returned must be of one of them
            names = re.findall(r"obj:([A-Za-z_.]+)", c.returns)
            pos4 = all(f in res.fields for f in ("lineno", "col_offset", "end_lineno", "end_col_offset"))
            fits = res.cls in names or ("PosNode" in names and pos4 and res.cls not in self.classes)    # PosNode: a node of a class no caller tells apart
            if fits and res.cls in names and res.cls in self.classes:
                fits = all(f in res.fields for f in self.classes[res.cls] if not f.startswith("__"))
            self.vc(p, z3.BoolVal(bool(fits)), "post", f"the value returned has one of the declared shapes ({c.returns})", fn.lineno)
        for en in c.ensures:
            hints = c.witness.get(en) if getattr(c, "witness", None) else None
            self.witness_hints = hints
            try:
                g = self.spec_eval(en, p)
            except (Unsupported, AttributeError, KeyError, TypeError) as u:
                # e.g. a clause about `result.value` when the function returned None on this path
                self.vc(p, z3.BoolVal(False), "post", f"`{en}` cannot be evaluated on this path: {type(u).__name__}: {u}", fn.lineno)
                continue
            finally:
                self.witness_hints = None
            self.vc(p, Tr(g), "post", f"ensures `{' '.join(en.split())}`", fn.lineno)
        # frame: modelled object fields not listed in `modifies` are unchanged
        self.frame_vcs(c, fn, p)

    def frame_vcs(self, c: Contract, fn, p: St):
        if p.old is None:
            return
        mods = set(c.modifies)

        def walk(path, new, old, seen):
            if id(new) in seen:
                return
            seen.add(id(new))
            if isinstance(new, PyObj) and isinstance(old, PyObj):
                for f, v in new.fields.items():
                    walk(path + "." + f, v, old.fields.get(f), seen)
                return
            if path in mods or any(path.startswith(m + ".") for m in mods):
                return
            pairs = []
            if is_z3(new) and is_z3(old):
                pairs = [(new, old)]
            elif isinstance(new, PyMap) and isinstance(old, PyMap):
                pairs = [(new.present, old.present), (new.value, old.value)]
            elif isinstance(new, PyCache) and isinstance(old, PyCache):
                pairs = [(new.present, old.present), (new.tree, old.tree), (new.end, old.end)]
            elif isinstance(new, PyGen) and isinstance(old, PyGen):
                pairs = [(new.pos, old.pos)]
            for a, b in pairs:
                if not a.eq(b):
                    self.vc(p, a == b, "frame", f"`{path}` is not in modifies={sorted(mods)} and must be unchanged", fn.lineno)
        for name, v in p.env.items():
            if name in p.old.env and isinstance(v, PyObj):
                walk(name, v, p.old.env[name], set())


_MISSING = object()
