"""E1 value model: how Python values of the verified subset are represented in the VC generator.

  int            -> z3 Int (Python ints are unbounded: no machine-arithmetic caveat)
  bool           -> z3 Bool
  str            -> z3 String
  None           -> NONE
  TokenInfo      -> z3 datatype Tok(type:Int, string:String, sl, sc, el, ec:Int, line:String)   (immutable NamedTuple)
  list[TokenInfo]-> z3 Seq(Tok);  list[int] -> Seq(Int);  list[str] -> Seq(String)
  tuple          -> PyTuple (fixed arity, Python-side)
  list literal   -> PyList (Python-side, concrete length, mutable)
  objects        -> PyObj (Python-side record with identity, mutable fields)
  dict[int,str]  -> PyMap(present: Array Int Bool, value: Array Int String)
  memo cache     -> PyCache (per method name: Array Int -> present/tree/end)
  parse results  -> z3 uninterpreted sort Val with truthy(Val), NoneVal
  enum members   -> ints (Token.X -> its ordinal, read from the real enum at check time)
  callables      -> PyCallable (uninterpreted state transformer, see pyvc.call_rulefn)
"""
from __future__ import annotations

import itertools

import z3

Tok = z3.Datatype("Tok")
Tok.declare("mk", ("type", z3.IntSort()), ("string", z3.StringSort()), ("sl", z3.IntSort()), ("sc", z3.IntSort()),
            ("el", z3.IntSort()), ("ec", z3.IntSort()), ("line", z3.StringSort()))
Tok = Tok.create()
TokSeq = z3.SeqSort(Tok)
IntSeq = z3.SeqSort(z3.IntSort())
StrSeq = z3.SeqSort(z3.StringSort())

# what a generator that yields NODES leaves in the ghost sequence `yielded`: the node's span, its identity and the ghost `at`
# (the value of the loop index `_i` of the enclosing for-loop at the moment of the yield; len(sequence) after the loop)
NodeAbs = z3.Datatype("NodeAbs")
NodeAbs.declare("mk", ("sl", z3.IntSort()), ("sc", z3.IntSort()), ("el", z3.IntSort()), ("ec", z3.IntSort()), ("at", z3.IntSort()), ("ident", z3.IntSort()))
NodeAbs = NodeAbs.create()
NodeAbsSeq = z3.SeqSort(NodeAbs)

Val = z3.DeclareSort("Val")
truthy = z3.Function("truthy", Val, z3.BoolSort())
NoneVal = z3.Const("NoneVal", Val)
VAL_AXIOMS = [z3.Not(truthy(NoneVal))]
ValSeq = z3.SeqSort(Val)
PAbs = z3.DeclareSort("PAbs")       # abstract remainder of the parser/tokenizer state

_counter = itertools.count()


def fresh(prefix: str, sort):
    return z3.Const(f"{prefix}!{next(_counter)}", sort)


class _None:
    def __repr__(self):
        return "None"


NONE = _None()


class PyTuple:
    def __init__(self, items):
        self.items = list(items)

    def __repr__(self):
        return "(" + ", ".join(map(repr, self.items)) + ")"


class PyList:
    def __init__(self, items):
        self.items = list(items)

    def __repr__(self):
        return "[" + ", ".join(map(repr, self.items)) + "]"


_ident_counter = itertools.count(1)


class PyObj:
    """record with identity.  `ident` (a z3 Int) is what Python's `is` compares: objects built by the code or handed in as separate
    arguments get distinct positive constants (allocated lazily); an object the executor only knows abstractly (a havoced loop
    variable, an element of a sequence argument) carries a symbolic one."""
    def __init__(self, cls: str, fields: dict, ident=None):
        self.cls = cls
        self.fields = dict(fields)
        self.ident = ident

    def __repr__(self):
        return f"<{self.cls}>"


class PyAbsList:
    """a list of nodes known only by its length and its first and last element (what the string builders read of `values`): mutable"""
    def __init__(self, n, first, last):
        self.n, self.first, self.last = n, first, last

    def __repr__(self):
        return f"<abslist n={self.n}>"


class PyUnion:
    """a value of one of several shapes, told apart by `kind` (index into alts); consumers fork on it"""
    def __init__(self, kind, alts):
        self.kind = kind
        self.alts = list(alts)


class PyComp:
    """a list of unknown length given element-wise: the element at index k is the template `elt` (stated for the arbitrary index `j`)
    with j replaced by k.  Built by `[f(x) for x in seq]` when f(x) is a Python-side object, and for sequence arguments whose
    elements are objects (fields and identity are functions of the index).  Immutable (any mutation is unsupported)."""
    def __init__(self, length, j, elt):
        self.length = length
        self.j = j
        self.elt = elt

    def at(self, k):
        def sub(v):
            if isinstance(v, PyObj):
                idt = ident_of(v)
                return PyObj(v.cls, {f: sub(x) for f, x in v.fields.items()}, ident=z3.substitute(idt, (self.j, k)))
            if isinstance(v, (PyList, PyTuple)):
                return type(v)([sub(x) for x in v.items])
            if isinstance(v, PyUnion):
                return PyUnion(sub(v.kind), [sub(x) for x in v.alts])
            if isinstance(v, PyLit):
                return PyLit(sub(v.isbytes), sub(v.val), sub(v.numkind))
            if isinstance(v, PyAbsList):
                return PyAbsList(sub(v.n), sub(v.first), sub(v.last))
            if isinstance(v, z3.ExprRef):
                return z3.substitute(v, (self.j, k))
            return v
        return sub(self.elt)

    def __repr__(self):
        return f"[{self.elt!r} for {self.j} in range({self.length})]"


class PyMap:
    """dict[int, str] (Tokenizer._lines and the local `lines` of get_lines)"""

    def __init__(self, present, value):
        self.present = present
        self.value = value

    @staticmethod
    def fresh(prefix):
        return PyMap(fresh(prefix + "_p", z3.ArraySort(z3.IntSort(), z3.BoolSort())),
                     fresh(prefix + "_v", z3.ArraySort(z3.IntSort(), z3.StringSort())))

    @staticmethod
    def empty():
        return PyMap(z3.K(z3.IntSort(), z3.BoolVal(False)), z3.K(z3.IntSort(), z3.StringVal("")))


class PyCache:
    """Parser._cache restricted to the keys (mark, <this method name>, <these args>): index -> (present, tree, end).
    Keys of other methods are untouched by the wrapper under verification (frame: the key tuple contains the name)."""

    def __init__(self, present, tree, end):
        self.present, self.tree, self.end = present, tree, end

    @staticmethod
    def fresh(prefix):
        I = z3.IntSort()
        return PyCache(fresh(prefix + "_p", z3.ArraySort(I, z3.BoolSort())), fresh(prefix + "_t", z3.ArraySort(I, Val)),
                       fresh(prefix + "_e", z3.ArraySort(I, I)))


class PyKey:
    """the tuple `mark, method_name, args` used as cache key: only the mark component varies"""

    def __init__(self, mark):
        self.mark = mark


class PyCallable:
    def __init__(self, kind: str, name: str, ident=None, bound=None, strict=False):
        self.kind = kind        # 'rulefn' (uninterpreted rule-like state transformer) | 'method' (under contract) | 'builtin'
        self.name = name
        self.ident = ident      # z3 Int identifying an uninterpreted callable
        self.bound = bound      # receiver object for bound methods
        self.strict = strict    # rulefn: success => index strictly increases (precondition of `repeated`)

    def __repr__(self):
        return f"<callable {self.kind}:{self.name}>"


class PyGen:
    """a generator object: ghost sequence of all items it will ever yield + how many were pulled"""

    def __init__(self, items, pos):
        self.items = items      # z3 Seq
        self.pos = pos          # z3 Int


class PyRuleSeq:
    """the *args tuple of callable references handed to seq_alts: a symbolic sequence of callable identities"""

    def __init__(self, ids):
        self.ids = ids


class PyOpt:
    """Optional[T] local whose None-ness differs between the paths that reach a loop head: a flag plus the value it has
    when not None (declared `optv[T]` in a loop's `types`)"""

    def __init__(self, isnone, some):
        self.isnone = isnone    # z3 Bool
        self.some = some

    def __repr__(self):
        return f"Opt({self.isnone}, {self.some!r})"


LE_BYTES = z3.Function("literal_is_bytes", z3.StringSort(), z3.BoolSort())     # ast.literal_eval(text) is a bytes object
LE_VAL = z3.Function("literal_value", z3.StringSort(), Val)
LE_NUMKIND = z3.Function("literal_numkind", z3.StringSort(), z3.IntSort())               # 0 str/bytes, 1 int/float, 2 complex                       # ... its value
LCAT = z3.Function("literal_concat", Val, Val, Val)                               # value of a + b for two str / two bytes values


class PyLit:
    """the result of ast.literal_eval on a string-literal token: str or bytes (a flag) and an abstract value"""

    def __init__(self, isbytes, val, numkind=None):
        # numkind: 0 = str / bytes, 1 = int / float, 2 = complex (what kind of value the literal text denotes; uninterpreted per text)
        self.isbytes, self.val, self.numkind = isbytes, val, (z3.IntVal(0) if numkind is None else numkind)

    def __repr__(self):
        return f"Lit({self.isbytes}, {self.val})"


class PyStrDict:
    """a constant dict[str, str] read from the real `__init__` (e.g. Tokenizer._end_parens): only `.get` / `in` are used"""

    def __init__(self, items: dict):
        self.items = dict(items)

    def __repr__(self):
        return f"StrDict({self.items})"


class PyConst:
    """an opaque Python constant (class object, module, exception class ...)"""

    def __init__(self, name):
        self.name = name

    def __repr__(self):
        return f"<const {self.name}>"


class PyStrSet:
    """a literal set/tuple of constants used only with `in`"""

    def __init__(self, items):
        self.items = items


class Exc:
    """an exception propagating out of an expression / statement"""

    def __init__(self, cls: str, lineno: int = 0, why: str = ""):
        self.cls, self.lineno, self.why = cls, lineno, why

    def __repr__(self):
        return f"<raise {self.cls} @{self.lineno} {self.why}>"


def is_z3(v):
    return isinstance(v, z3.ExprRef)


def is_int(v):
    return is_z3(v) and z3.is_int(v)


def is_bool(v):
    return is_z3(v) and z3.is_bool(v)


def is_str(v):
    return is_z3(v) and v.sort() == z3.StringSort()


def is_seq(v):
    return is_z3(v) and isinstance(v, z3.SeqRef) and v.sort() != z3.StringSort()


def is_tok(v):
    return is_z3(v) and v.sort() == Tok


def is_val(v):
    return is_z3(v) and v.sort() == Val


def tok_fields(t):
    return {"type": Tok.type(t), "string": Tok.string(t), "start": PyTuple([Tok.sl(t), Tok.sc(t)]),
            "end": PyTuple([Tok.el(t), Tok.ec(t)]), "line": Tok.line(t)}


def ident_of(o):
    if o.ident is None:
        o.ident = z3.IntVal(next(_ident_counter))
    return o.ident


def same_obj_z3(a, b):
    """Python `is` on two modelled objects, as a z3 Bool (copies of the heap made by the executor keep the identity of what they copy)"""
    if a is b:
        return z3.BoolVal(True)
    return z3.simplify(ident_of(a) == ident_of(b))


def same_obj(a, b):
    """True / False when identity is decided, None when it depends on symbolic identities"""
    if not (isinstance(a, PyObj) and isinstance(b, PyObj)):
        return a is b
    r = same_obj_z3(a, b)
    return True if z3.is_true(r) else (False if z3.is_false(r) else None)


def clone(v, memo):
    """deep copy of Python-side mutable structure; z3 terms are immutable and shared"""
    if isinstance(v, (PyObj, PyList, PyTuple, PyMap, PyCache, PyGen)):
        if id(v) in memo:
            return memo[id(v)]
    if isinstance(v, PyObj):
        n = PyObj(v.cls, {}, ident=ident_of(v))        # object identity survives copying the heap (path forks, the old() snapshot)
        memo[id(v)] = n
        n.fields = {k: clone(x, memo) for k, x in v.fields.items()}
        return n
    if isinstance(v, PyList):
        n = PyList([])
        memo[id(v)] = n
        n.items = [clone(x, memo) for x in v.items]
        return n
    if isinstance(v, PyTuple):
        n = PyTuple([clone(x, memo) for x in v.items])
        memo[id(v)] = n
        return n
    if isinstance(v, PyAbsList):
        if id(v) in memo:
            return memo[id(v)]
        n = PyAbsList(v.n, None, None)
        memo[id(v)] = n
        n.first, n.last = clone(v.first, memo), clone(v.last, memo)
        return n
    if isinstance(v, PyMap):
        n = PyMap(v.present, v.value)
        if hasattr(v, "nonempty"):
            n.nonempty = v.nonempty
        memo[id(v)] = n
        return n
    if isinstance(v, PyCache):
        n = PyCache(v.present, v.tree, v.end)
        memo[id(v)] = n
        return n
    if isinstance(v, PyGen):
        n = PyGen(v.items, v.pos)
        memo[id(v)] = n
        return n
    if isinstance(v, PyCallable) and v.bound is not None:
        return PyCallable(v.kind, v.name, v.ident, clone(v.bound, memo), v.strict)
    if isinstance(v, PyOpt):
        return PyOpt(v.isnone, clone(v.some, memo))
    if type(v).__name__ == "PyDictLit":          # dict literal (defined in pyexpr): mutable through d[k] = v, so every path gets its own
        if id(v) in memo:
            return memo[id(v)]
        n = type(v)({k: clone(x, memo) for k, x in v.d.items()})
        memo[id(v)] = n
        return n
    return v
