"""E2 `pegir` -- mechanical extraction of the generated parser methods into an IR.

The IR is not a model: every IR element is a 1:1 reading of a statement shape that the generator emits
(`if <and-chain of walrus calls>: return <action>` etc.).  A method whose body does not match one of the known
shapes is returned as `Unrecognised` (callers report *undecided*, never a violation, except C16 which then falls
back to running the real generator).

What the extraction drops (stated, so the verified text is demonstrably the text that runs):
  * comments and the leading `# rule: rhs` comment line (not in the ast);
  * return annotations and parameter annotations;
  * nothing else.  Decorators are kept (`memoize`, `memoize_left_rec`, `logger`).

Both generator dialects are recognised:
  * the xonsh dialect (`repeated` / `gathered` / `seq_alts` combinators, `token('X')`);
  * stock pegen (`_loop0_N` / `_loop1_N` / `_gather_N` helper methods with `children` loops) for
    `pegen/grammar_parser.py`.
"""
from __future__ import annotations

import ast
from dataclasses import dataclass, field
from typing import Optional

LEAVES = {"expect", "token", "name", "keyword", "soft_keyword", "any_token",
          # stock pegen leaves
          "string", "op", "number", "type_comment", "fstring_start", "fstring_middle", "fstring_end"}
COMBINATORS = {"repeated", "gathered", "seq_alts", "positive_lookahead", "negative_lookahead", "expect_forced",
               "sep_repeated"}


@dataclass
class PE:
    """A parsing expression as it appears as a call (or callable reference + args) in the generated code."""
    kind: str                      # rule | expect | token | name | keyword | soft_keyword | any_token | string...
                                   # repeated | gathered | seq_alts | poslook | neglook | forced
    arg: Optional[str] = None      # rule name / literal string / token type name / forced expectation text
    subs: tuple = ()               # sub-expressions (repeated: 1, gathered: elem, sep; seq_alts: n; look: 1; forced: 1)

    def key(self):
        return (self.kind, self.arg, tuple(s.key() for s in self.subs))

    def __str__(self):
        if self.kind == "rule":
            return self.arg
        if self.kind in ("expect",):
            return repr(self.arg)
        if self.kind == "token":
            return f"<{self.arg}>"
        if self.kind in LEAVES:
            return self.kind.upper()
        if self.kind == "repeated":
            return f"({self.subs[0]})*"
        if self.kind == "gathered":
            return f"{self.subs[1]}.({self.subs[0]})+"
        if self.kind == "seq_alts":
            return "(" + " | ".join(map(str, self.subs)) + ")"
        if self.kind == "poslook":
            return f"&{self.subs[0]}"
        if self.kind == "neglook":
            return f"!{self.subs[0]}"
        if self.kind == "forced":
            return f"&&{self.subs[0]}"
        return f"{self.kind}({self.arg})"


@dataclass
class Item:
    pe: Optional[PE]               # None for cut / gate
    var: Optional[str] = None      # walrus-bound name
    optional: bool = False         # wrapped in a 1-tuple `(x := e,)` => always truthy
    is_cut: bool = False
    is_gate: bool = False          # `self.call_invalid_rules`
    lineno: int = 0

    def __str__(self):
        if self.is_cut:
            return "~"
        if self.is_gate:
            return "<invalid-gate>"
        s = str(self.pe)
        if self.optional:
            s = f"[{s}]"
        if self.var:
            s = f"{self.var}={s}"
        return s


@dataclass
class Alt:
    items: list
    action: Optional[ast.expr]     # the returned expression (None for loop alts of stock pegen: see loop_action)
    lineno: int = 0
    gated: bool = False            # first item is the invalid gate
    has_cut: bool = False
    cut_guard_after: bool = False  # `if cut: return None` follows the alt's reset
    cleanup_ok: bool = True        # for *_without_invalid rules: the restore statement precedes the return
    reset_after: bool = True       # `self._reset(mark)` follows the alternative

    def real_items(self):
        return [i for i in self.items if not i.is_cut and not i.is_gate]

    def __str__(self):
        return " ".join(map(str, self.items))


@dataclass
class Rule:
    name: str
    decorator: Optional[str]       # memoize | memoize_left_rec | logger | None
    alts: list
    shape: str                     # 'alts' | 'seq_alts' | 'loop' (stock pegen _loopN/_gatherN)
    uses_span: bool = False
    without_invalid: bool = False
    lineno: int = 0
    end_lineno: int = 0
    node: Optional[ast.FunctionDef] = None
    loop_kind: Optional[str] = None  # stock pegen: loop0 | loop1 | gather

    def __str__(self):
        d = f"@{self.decorator} " if self.decorator else ""
        return f"{d}{self.name}: " + " | ".join(map(str, self.alts))


@dataclass
class Unrecognised:
    name: str
    reason: str
    lineno: int = 0
    node: Optional[ast.FunctionDef] = None


class ExtractError(Exception):
    pass


def _is_self_attr(e, name=None):
    return (isinstance(e, ast.Attribute) and isinstance(e.value, ast.Name) and e.value.id == "self"
            and (name is None or e.attr == name))


def _const_str(e):
    if isinstance(e, ast.Constant) and isinstance(e.value, str):
        return e.value
    raise ExtractError(f"expected a string constant, got {ast.dump(e)}")


def _ref(func: ast.expr, args: list) -> PE:
    """A callable reference `self.f` with positional args `args` (as passed to a combinator)."""
    if isinstance(func, ast.Tuple):
        if not func.elts:
            raise ExtractError("empty callable tuple")
        if args:
            raise ExtractError("tuple reference with extra args")
        return _ref(func.elts[0], list(func.elts[1:]))
    if not _is_self_attr(func):
        raise ExtractError(f"callable reference is not self.<name>: {ast.dump(func)}")
    n = func.attr
    if n in ("expect", "token"):
        if len(args) != 1:
            raise ExtractError(f"{n} reference needs exactly one argument")
        return PE(n, _const_str(args[0]))
    if n in LEAVES:
        if args:
            raise ExtractError(f"{n} takes no argument")
        return PE(n)
    if n == "seq_alts":
        return PE("seq_alts", None, tuple(_ref(a, []) for a in args))
    if n == "repeated":
        if not args:
            raise ExtractError("repeated without callee")
        return PE("repeated", None, (_ref(args[0], list(args[1:])),))
    if n == "gathered":
        if len(args) < 2:
            raise ExtractError("gathered needs elem and sep")
        return PE("gathered", None, (_ref(args[0], []), _ref(args[1], list(args[2:]))))
    if n == "positive_lookahead":
        return PE("poslook", None, (_ref(args[0], list(args[1:])),))
    if n == "negative_lookahead":
        return PE("neglook", None, (_ref(args[0], list(args[1:])),))
    if n in COMBINATORS:
        raise ExtractError(f"unsupported combinator reference {n}")
    if args:
        raise ExtractError(f"rule reference {n} with arguments")
    return PE("rule", n)


def _call(e: ast.expr) -> PE:
    """A call expression `self.f(args)` appearing as an item."""
    if not (isinstance(e, ast.Call) and _is_self_attr(e.func)):
        raise ExtractError(f"item is not a self.<name>(...) call: {ast.dump(e)[:120]}")
    if e.keywords:
        raise ExtractError("keyword arguments in an item call")
    n = e.func.attr
    if n == "expect_forced":
        if len(e.args) != 2:
            raise ExtractError("expect_forced needs 2 args")
        return PE("forced", _const_str(e.args[1]), (_call(e.args[0]),))
    return _ref(e.func, list(e.args))


def _item(v: ast.expr) -> Item:
    ln = getattr(v, "lineno", 0)
    optional = False
    if isinstance(v, ast.Tuple):
        if len(v.elts) != 1:
            raise ExtractError("tuple item with != 1 element")
        optional = True
        v = v.elts[0]
    var = None
    if isinstance(v, ast.NamedExpr):
        if not isinstance(v.target, ast.Name):
            raise ExtractError("walrus target is not a name")
        var = v.target.id
        if var == "cut":
            if isinstance(v.value, ast.Constant) and v.value.value is True and not optional:
                return Item(None, is_cut=True, lineno=ln)
            raise ExtractError("malformed cut")
        v = v.value
    if _is_self_attr(v, "call_invalid_rules"):
        if optional or var:
            raise ExtractError("malformed invalid gate")
        return Item(None, is_gate=True, lineno=ln)
    return Item(_call(v), var=var, optional=optional, lineno=ln)


def _items(test: ast.expr) -> list:
    vals = test.values if isinstance(test, ast.BoolOp) and isinstance(test.op, ast.And) else [test]
    if isinstance(test, ast.BoolOp) and not isinstance(test.op, ast.And):
        raise ExtractError("condition is an `or`")
    return [_item(v) for v in vals]


def _is_reset_mark(s):
    return (isinstance(s, ast.Expr) and isinstance(s.value, ast.Call) and _is_self_attr(s.value.func, "_reset")
            and len(s.value.args) == 1 and isinstance(s.value.args[0], ast.Name) and s.value.args[0].id == "mark"
            and not s.value.keywords)


def _is_assign(s, target: str, value_pred) -> bool:
    return (isinstance(s, ast.Assign) and len(s.targets) == 1 and isinstance(s.targets[0], ast.Name)
            and s.targets[0].id == target and value_pred(s.value))


def _is_mark_call(v):
    return isinstance(v, ast.Call) and _is_self_attr(v.func, "_mark") and not v.args and not v.keywords


def _is_return_none(s):
    return isinstance(s, ast.Return) and (s.value is None or (isinstance(s.value, ast.Constant) and s.value.value is None))


def _decorator(fn: ast.FunctionDef) -> Optional[str]:
    if not fn.decorator_list:
        return None
    if len(fn.decorator_list) != 1 or not isinstance(fn.decorator_list[0], ast.Name):
        raise ExtractError("unexpected decorator list")
    d = fn.decorator_list[0].id
    if d not in ("memoize", "memoize_left_rec", "logger"):
        raise ExtractError(f"unknown decorator {d}")
    return d


RESTORE = "self.call_invalid_rules = _prev_call_invalid"


def _is_restore(s):
    try:
        return ast.unparse(s) == RESTORE
    except Exception:
        return False


def extract_rule(fn: ast.FunctionDef):
    try:
        return _extract_rule(fn)
    except ExtractError as e:
        return Unrecognised(fn.name, str(e), fn.lineno, fn)


def _extract_rule(fn: ast.FunctionDef) -> Rule:
    a = fn.args
    if [x.arg for x in a.args] != ["self"] or a.vararg or a.kwarg or a.kwonlyargs or a.posonlyargs:
        raise ExtractError("unexpected parameters")
    deco = _decorator(fn)
    body = list(fn.body)
    if body and isinstance(body[0], ast.Expr) and isinstance(body[0].value, ast.Constant) and isinstance(body[0].value.value, str):
        body = body[1:]
    rule = Rule(fn.name, deco, [], "alts", lineno=fn.lineno, end_lineno=fn.end_lineno or fn.lineno, node=fn)
    # *_without_invalid prefix
    if (len(body) >= 2 and ast.unparse(body[0]) == "_prev_call_invalid = self.call_invalid_rules"
            and ast.unparse(body[1]) == "self.call_invalid_rules = False"):
        rule.without_invalid = True
        body = body[2:]
    # shape 1: return self.seq_alts(...)
    if len(body) == 1 and isinstance(body[0], ast.Return) and isinstance(body[0].value, ast.Call) \
            and _is_self_attr(body[0].value.func, "seq_alts"):
        if rule.without_invalid:
            raise ExtractError("seq_alts shape in a without_invalid rule")
        pe = _call(body[0].value)
        rule.shape = "seq_alts"
        for sub in pe.subs:
            rule.alts.append(Alt([Item(sub, lineno=body[0].lineno)], None, lineno=body[0].lineno))
        return rule
    # shape 2
    if not body or not _is_assign(body[0], "mark", _is_mark_call):
        raise ExtractError("body does not start with mark = self._mark()")
    i = 1
    if i < len(body) and isinstance(body[i], ast.Assign) and ast.unparse(body[i]) == "_lnum, _col = self._tokenizer.peek().start":
        rule.uses_span = True
        i += 1
    # stock pegen loop shape
    if i < len(body) and _is_assign(body[i], "children", lambda v: isinstance(v, ast.List) and not v.elts):
        return _extract_loop(rule, body, i + 1)
    pending_cut_decl = False
    while i < len(body):
        s = body[i]
        if _is_assign(s, "cut", lambda v: isinstance(v, ast.Constant) and v.value is False):
            pending_cut_decl = True
            i += 1
            continue
        if isinstance(s, ast.If):
            if s.orelse:
                raise ExtractError("if with else")
            # `if cut: return None`
            if isinstance(s.test, ast.Name) and s.test.id == "cut":
                raise ExtractError("stray `if cut`")
            items = _items(s.test)
            alt = Alt(items, None, lineno=s.lineno)
            alt.gated = bool(items and items[0].is_gate)
            if any(it.is_gate for it in items[1:]):
                raise ExtractError("invalid gate not in first position")
            alt.has_cut = any(it.is_cut for it in items)
            if alt.has_cut and not pending_cut_decl:
                raise ExtractError("cut used without `cut = False`")
            if pending_cut_decl and not alt.has_cut:
                raise ExtractError("`cut = False` without cut in the alternative")
            pending_cut_decl = False
            ib = list(s.body)
            if rule.without_invalid:
                if len(ib) == 2 and _is_restore(ib[0]):
                    ib = ib[1:]
                else:
                    alt.cleanup_ok = False
            if len(ib) != 1 or not isinstance(ib[0], ast.Return):
                raise ExtractError("alternative body is not a single return")
            alt.action = ib[0].value if ib[0].value is not None else ast.Constant(value=None)
            i += 1
            if i < len(body) and _is_reset_mark(body[i]):
                i += 1
            else:
                alt.reset_after = False
            if alt.has_cut:
                if (i < len(body) and isinstance(body[i], ast.If) and isinstance(body[i].test, ast.Name)
                        and body[i].test.id == "cut" and not body[i].orelse):
                    cb = list(body[i].body)
                    if rule.without_invalid and len(cb) == 2 and _is_restore(cb[0]):
                        cb = cb[1:]
                    if len(cb) == 1 and _is_return_none(cb[0]):
                        alt.cut_guard_after = True
                        i += 1
                    else:
                        raise ExtractError("malformed cut guard")
            rule.alts.append(alt)
            continue
        # final return None
        rest = body[i:]
        if rule.without_invalid and len(rest) == 2 and _is_restore(rest[0]):
            rest = rest[1:]
        elif rule.without_invalid:
            raise ExtractError("without_invalid rule does not restore the flag before the final return")
        if len(rest) == 1 and _is_return_none(rest[0]):
            break
        raise ExtractError(f"unexpected statement at line {s.lineno}: {ast.unparse(s)[:80]}")
    else:
        raise ExtractError("no final return")
    if not rule.alts:
        raise ExtractError("no alternatives")
    return rule


def _extract_loop(rule: Rule, body: list, i: int) -> Rule:
    """stock pegen: while (<items>): children.append(<action>); mark = self._mark()   then reset, return children"""
    rule.shape = "loop"
    if not (i < len(body) and isinstance(body[i], ast.While)):
        raise ExtractError("loop shape without while")
    w = body[i]
    items = _items(w.test)
    wb = list(w.body)
    if len(wb) != 2 or not _is_assign(wb[1], "mark", _is_mark_call):
        raise ExtractError("loop body shape")
    ap = wb[0]
    if not (isinstance(ap, ast.Expr) and isinstance(ap.value, ast.Call) and isinstance(ap.value.func, ast.Attribute)
            and isinstance(ap.value.func.value, ast.Name) and ap.value.func.value.id == "children"
            and ap.value.func.attr == "append" and len(ap.value.args) == 1):
        raise ExtractError("loop body does not append to children")
    rule.alts.append(Alt(items, ap.value.args[0], lineno=w.lineno))
    rest = body[i + 1:]
    if not (len(rest) == 2 and _is_reset_mark(rest[0]) and isinstance(rest[1], ast.Return)
            and isinstance(rest[1].value, ast.Name) and rest[1].value.id == "children"):
        raise ExtractError("loop tail shape")
    if rule.name.startswith("_loop0"):
        rule.loop_kind = "loop0"
    elif rule.name.startswith("_loop1"):
        rule.loop_kind = "loop1"
    elif rule.name.startswith("_gather"):
        rule.loop_kind = "gather"
    else:
        rule.loop_kind = "loop0"
    return rule


@dataclass
class ParserIR:
    path: str
    class_name: str
    rules: dict                    # name -> Rule
    unrecognised: dict             # name -> Unrecognised
    order: list
    keywords: Optional[tuple] = None
    soft_keywords: Optional[tuple] = None
    other_members: list = field(default_factory=list)
    source: str = ""


def extract_parser(path: str, class_name: Optional[str] = None, src: Optional[str] = None) -> ParserIR:
    if src is None:
        src = open(path, encoding="utf-8").read()
    mod = ast.parse(src)
    cls = None
    for n in mod.body:
        if isinstance(n, ast.ClassDef) and (class_name is None or n.name == class_name):
            cls = n
            if class_name is not None:
                break
    if cls is None:
        raise ExtractError(f"class {class_name} not found in {path}")
    ir = ParserIR(path, cls.name, {}, {}, [], source=src)
    for m in cls.body:
        if isinstance(m, ast.FunctionDef):
            r = extract_rule(m)
            ir.order.append(m.name)
            if isinstance(r, Rule):
                ir.rules[m.name] = r
            else:
                ir.unrecognised[m.name] = r
        elif isinstance(m, ast.Assign) and len(m.targets) == 1 and isinstance(m.targets[0], ast.Name) \
                and m.targets[0].id in ("KEYWORDS", "SOFT_KEYWORDS"):
            try:
                val = ast.literal_eval(m.value)
            except Exception:
                val = None
            if m.targets[0].id == "KEYWORDS":
                ir.keywords = val
            else:
                ir.soft_keywords = val
        elif isinstance(m, ast.Expr) and isinstance(m.value, ast.Constant):
            continue
        else:
            ir.other_members.append(ast.unparse(m)[:100])
    return ir


def walk_pe(pe: PE):
    yield pe
    for s in pe.subs:
        yield from walk_pe(s)


if __name__ == "__main__":
    import sys
    ir = extract_parser(sys.argv[1], sys.argv[2] if len(sys.argv) > 2 else None)
    print(len(ir.rules), "rules;", len(ir.unrecognised), "unrecognised;", ir.other_members)
    for u in ir.unrecognised.values():
        print("UNRECOGNISED", u.name, u.reason)
    from collections import Counter
    c = Counter()
    for r in ir.rules.values():
        for a in r.alts:
            for it in a.items:
                if it.pe:
                    for p in walk_pe(it.pe):
                        c[p.kind] += 1
    print(c)
    for n in list(ir.rules)[:12]:
        print(ir.rules[n])
