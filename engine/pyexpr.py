"""E1 expression evaluator (mixin of pyexec.Executor).  eval(e, st) -> list[(St, value)]; value may be Exc."""
from __future__ import annotations

import ast

import z3

from .pyvals import (LCAT, NONE, Exc, IntSeq, NoneVal, PyAbsList, PyUnion, PyCache, PyComp, PyCallable, PyConst, PyGen, PyKey, PyList, PyLit, PyMap, PyObj, PyOpt, PyStrDict, PyStrSet,
                     PyTuple, StrSeq, Tok, TokSeq, Val, ValSeq, fresh, is_bool, is_int, is_seq, is_str, is_tok, is_val, is_z3,
                     tok_fields)
from .pyvc import (Tr, Unsupported, dedent, eq, is_keyword, is_soft_keyword, join_lines, lex_lt, lift, str_isspace, str_lower,
                   str_repr, str_rstrip_nl, str_strip, token_named)


class PyDictLit:
    def __init__(self, d):
        self.d = d


def seq_elem_sort(s):
    return s.sort().basis()


class ExprMixin:
    # ------------------------------------------------------------------ helpers
    def bind(self, results, fn):
        out = []
        for st, v in results:
            if isinstance(v, Exc):
                out.append((st, v))
            else:
                out.extend(fn(st, v))
        return out

    def eval_list(self, exprs, st):
        """left-to-right evaluation of several expressions -> list[(st, [values])]"""
        res = [(st, [])]
        for e in exprs:
            nxt = []
            for s, vals in res:
                if vals and isinstance(vals[-1], Exc):
                    nxt.append((s, vals))
                    continue
                for s2, v in self.eval(e, s):
                    nxt.append((s2, vals + [v]))
            res = nxt
        out = []
        for s, vals in res:
            if vals and isinstance(vals[-1], Exc):
                out.append((s, vals[-1]))
            else:
                out.append((s, vals))
        return out

    def is_pure(self, e) -> bool:
        for n in ast.walk(e):
            if isinstance(n, (ast.NamedExpr, ast.Await, ast.Yield, ast.YieldFrom)):
                return False
            if isinstance(n, ast.Call):
                f = n.func
                if isinstance(f, ast.Name) and f.id in self.PURE_BUILTINS:
                    continue
                if isinstance(f, ast.Attribute) and f.attr in self.PURE_METHODS:
                    continue
                if isinstance(f, ast.Attribute) and self.contract_for_attr(f.attr) is not None and self.contract_for_attr(f.attr).pure:
                    continue
                if self.spec_mode:
                    continue
                return False
        return True

    PURE_BUILTINS = {"len", "isinstance", "min", "max", "bool", "old", "implies", "all", "any", "range", "list", "str", "int",
                     "Mark", "cast", "tuple", "repr", "type"}
    PURE_METHODS = {"isspace", "startswith", "endswith", "lower", "find", "strip", "rstrip", "get", "is_exact_type", "loc",
                    "loc_start", "loc_end", "is_next_to", "values", "encode", "isidentifier", "split"}

    def fork(self, st, cond):
        """-> [(st_true, True), (st_false, False)] with infeasible sides pruned"""
        cond = z3.simplify(cond) if is_z3(cond) else z3.BoolVal(bool(cond))
        if z3.is_true(cond):
            return [(st, True)]
        if z3.is_false(cond):
            return [(st, False)]
        out = []
        st2 = st.clone()
        if self.feasible(st, cond):
            st.assume(cond)
            out.append((st, True))
        nc = z3.Not(cond)
        if self.feasible(st2, nc):
            st2.assume(nc)
            out.append((st2, False))
        return out

    def safety(self, st, goal, what, node):
        """emit a safety VC and continue under the assumption that it holds"""
        goal = z3.simplify(goal) if is_z3(goal) else z3.BoolVal(bool(goal))
        if z3.is_true(goal):
            return
        self.vc(st, goal, "safety", what, getattr(node, "lineno", 0))
        st.assume(goal)

    # ------------------------------------------------------------------ main dispatch
    def eval(self, e, st):
        m = getattr(self, "e_" + type(e).__name__, None)
        if m is None:
            raise Unsupported(f"expression {type(e).__name__} at line {getattr(e, 'lineno', '?')}")
        return m(e, st)

    def eval1(self, e, st):
        """spec / pure evaluation: exactly one non-raising result"""
        r = self.eval(e, st)
        r = [(s, v) for s, v in r]
        if len(r) > 1 and not any(isinstance(v, Exc) for _, v in r):
            # the evaluation forked on the shape of a union-typed value: the results are merged under the conditions that tell the shapes apart
            n0 = len(st.pc)
            m = self.merge_values([(z3.And(s.pc[n0:]) if len(s.pc) > n0 else z3.BoolVal(True), lift(v)) for s, v in r])
            if m is not None:
                return m
        if len(r) != 1 or isinstance(r[0][1], Exc):
            raise Unsupported(f"expression is not single-valued: {ast.unparse(e)[:80]} -> {len(r)} results")
        return r[0][1]

    def merge_values(self, alts):
        """[(condition, value)] with exhaustive, exclusive conditions -> one value (If-chain), or None when the shapes differ"""
        vals = [v for _, v in alts]
        if all(is_z3(v) for v in vals) and len({v.sort() for v in vals}) == 1:
            out = vals[-1]
            for c, v in reversed(alts[:-1]):
                out = z3.If(c, v, out)
            return out
        if all(isinstance(v, PyTuple) for v in vals) and len({len(v.items) for v in vals}) == 1:
            items = [self.merge_values([(c, v.items[k]) for c, v in alts]) for k in range(len(vals[0].items))]
            return None if any(x is None for x in items) else PyTuple(items)
        return None

    def e_Constant(self, e, st):
        v = e.value
        if v is None:
            return [(st, NONE)]
        if isinstance(v, (bool, int, str)):
            return [(st, lift(v))]
        if v is Ellipsis:
            return [(st, PyConst("Ellipsis"))]
        raise Unsupported(f"constant {v!r}")

    def e_Name(self, e, st):
        if e.id in st.env:
            return [(st, st.env[e.id])]
        if e.id in self.globals:
            return [(st, self.globals[e.id])]
        if e.id in ("True", "False"):
            return [(st, z3.BoolVal(e.id == "True"))]
        raise Unsupported(f"unknown name {e.id} (line {e.lineno})")

    def e_Tuple(self, e, st):
        if any(isinstance(x, ast.Starred) for x in e.elts):
            raise Unsupported("starred in tuple")
        out = []
        for s, v in self.eval_list(e.elts, st):
            if isinstance(v, Exc):
                out.append((s, v))
            elif (len(v) == 3 and is_int(lift(v[0])) and is_str(lift(v[1]))
                  and ((isinstance(v[2], PyConst) and v[2].name == "varargs") or (isinstance(v[2], PyTuple) and not v[2].items))):
                out.append((s, PyKey(lift(v[0]))))        # memo cache key (mark, method name, args): only the mark varies
            else:
                out.append((s, PyTuple(v)))
        return out

    def e_List(self, e, st):
        out = []
        plain = [x.value if isinstance(x, ast.Starred) else x for x in e.elts]
        for s, vals in self.eval_list(plain, st):
            if isinstance(vals, Exc):
                out.append((s, vals))
                continue
            # [elem, *seq] with a symbolic sequence -> symbolic sequence
            if any(isinstance(x, ast.Starred) for x in e.elts):
                parts = []
                for x, v in zip(e.elts, vals):
                    if isinstance(x, ast.Starred):
                        if isinstance(v, (PyList, PyTuple)):
                            parts.extend(("one", i) for i in v.items)
                        elif is_seq(v):
                            parts.append(("seq", v))
                        elif isinstance(v, PyConst) and v.name.startswith("opaque"):
                            parts.append(("opaque", v))
                        else:
                            raise Unsupported("star of non-sequence")
                    else:
                        parts.append(("one", v))
                if any(k == "opaque" for k, _ in parts):
                    out.append((s, PyConst("opaque-list")))       # a list built from one the model does not look into
                elif all(k == "one" for k, _ in parts):
                    out.append((s, PyList([p for _, p in parts])))
                else:
                    sq = [p for k, p in parts if k == "seq"][0]
                    terms = [z3.Unit(p) if k == "one" else p for k, p in parts]
                    out.append((s, z3.Concat(*terms) if len(terms) > 1 else terms[0]))
            else:
                out.append((s, PyList(vals)))
        return out

    def e_Set(self, e, st):
        vals = [self.eval1(x, st) for x in e.elts]
        return [(st, PyStrSet(vals))]

    def e_Dict(self, e, st):
        if not e.keys:
            m = PyMap.empty()
            m.nonempty = z3.BoolVal(False)
            return [(st, m)]
        d = {}
        for k, v in zip(e.keys, e.values):
            val = self.eval1(v, st)
            if k is None:
                if not isinstance(val, PyDictLit):
                    raise Unsupported("** of non-dict-literal")
                d.update(val.d)
            else:
                if not (isinstance(k, ast.Constant) and isinstance(k.value, str)):
                    raise Unsupported("dict literal with non-constant key")
                d[k.value] = val
        return [(st, PyDictLit(d))]

    def e_JoinedStr(self, e, st):
        # an f-string without conversions / specs over concrete strings is computed (names such as f"__xonsh__.{method}")
        if all(isinstance(p, ast.Constant) or (isinstance(p, ast.FormattedValue) and p.conversion == -1 and p.format_spec is None) for p in e.values):
            try:
                vals = [z3.StringVal(p.value) if isinstance(p, ast.Constant) else lift(self.eval1(p.value, st)) for p in e.values]
                vals = [z3.simplify(v) if is_z3(v) else v for v in vals]
            except Unsupported:
                vals = None
            if vals is not None and all(is_z3(v) and is_str(v) and z3.is_string_value(v) for v in vals):
                return [(st, z3.StringVal("".join(v.as_string() for v in vals)))]
        # evaluate embedded expressions for their effects/safety; the text itself is an opaque non-empty-if-literal string
        res = [(st, [])]
        parts_lit = any(isinstance(p, ast.Constant) and p.value for p in e.values)
        exprs = [p.value for p in e.values if isinstance(p, ast.FormattedValue)]
        out = []
        for s, vals in self.eval_list(exprs, st):
            if isinstance(vals, Exc):
                out.append((s, vals))
                continue
            r = fresh("fstr", z3.StringSort())
            if parts_lit:
                s.assume(z3.Length(r) > 0)
            out.append((s, r))
        return out

    def e_NamedExpr(self, e, st):
        def k(s, v):
            s.env[e.target.id] = v
            return [(s, v)]
        return self.bind(self.eval(e.value, st), k)

    def e_IfExp(self, e, st):
        if self.spec_mode:
            c = z3.simplify(Tr(self.eval1(e.test, st)))
            if z3.is_true(c):
                return self.eval(e.body, st)
            if z3.is_false(c):
                return self.eval(e.orelse, st)
            a, b = lift(self.eval1(e.body, st)), lift(self.eval1(e.orelse, st))
            if is_z3(a) and is_z3(b) and a.sort() == b.sort():
                return [(st, z3.If(c, a, b))]
            raise Unsupported("conditional expression with branches of different kinds in a specification")

        def k(s, c):
            out = []
            for s2, b in self.fork(s, Tr(c)):
                out.extend(self.eval(e.body if b else e.orelse, s2))
            return out
        return self.bind(self.eval(e.test, st), k)

    def e_UnaryOp(self, e, st):
        def k(s, v):
            if isinstance(e.op, ast.Not):
                return [(s, z3.Not(Tr(v)))]
            if isinstance(e.op, ast.USub):
                return [(s, -lift(v))]
            raise Unsupported("unary op")
        return self.bind(self.eval(e.operand, st), k)

    def e_BoolOp(self, e, st):
        is_and = isinstance(e.op, ast.And)

        def go(s, idx, cur):
            if idx == len(e.values):
                return [(s, cur)]
            out = []
            for s1, v in self.eval(e.values[idx], s):
                if isinstance(v, Exc):
                    out.append((s1, v))
                    continue
                if idx == len(e.values) - 1:
                    out.append((s1, v))
                    continue
                rest_pure = all(self.is_pure(x) for x in e.values[idx + 1:])
                if is_z3(lift(v)) and is_bool(Tr(v)):
                    g0 = z3.simplify(Tr(v))
                    if (z3.is_false(g0) and is_and) or (z3.is_true(g0) and not is_and):
                        out.append((s1, v))          # decided: the rest is not evaluated (it need not even be well-typed here)
                        continue
                if rest_pure and (is_bool(v) or self.spec_mode):
                    # no fork: evaluate the rest under the guard, combine symbolically
                    g = Tr(v)
                    s2 = s1.clone()
                    guard = g if is_and else z3.Not(g)
                    n0 = len(s2.pc)
                    s2.assume(guard)
                    n1 = len(s2.pc)
                    restv = go(s2, idx + 1, None)
                    if len(restv) == 1 and restv[0][0] is s2 and not isinstance(restv[0][1], Exc) and (is_bool(restv[0][1]) or isinstance(restv[0][1], bool)):
                        r = lift(restv[0][1])
                        # safety VCs of the rest were emitted under the guard in s2; keep s1's path.  What was ASSUMED while evaluating the
                        # rest (postconditions of pure callees) holds whenever the rest is evaluated at all: carry it over under the guard
                        for fact in s2.pc[max(n1, n0):]:
                            s1.assume(z3.Implies(guard, fact))
                        out.append((s1, z3.And(g, r) if is_and else z3.Or(g, r)))
                        continue
                for s3, b in self.fork(s1, Tr(v)):
                    if b == is_and:
                        out.extend(go(s3, idx + 1, None))
                    else:
                        out.append((s3, v))
            return out
        return go(st, 0, None)

    def e_Compare(self, e, st):
        if len(e.ops) == 1:
            def k(s, vals):
                return [(s, self.compare(s, e.ops[0], vals[0], vals[1], e))]
            return self.bind(self.eval_list([e.left, e.comparators[0]], st), k)
        # chained: a <= b <= c  (all operands pure in the verified code)
        vals = [self.eval1(x, st) for x in [e.left] + e.comparators]
        cs = [self.compare(st, op, vals[i], vals[i + 1], e) for i, op in enumerate(e.ops)]
        return [(st, z3.And(cs))]

    def compare(self, st, op, a, b, node):
        a, b = lift(a), lift(b)
        if isinstance(op, (ast.Eq, ast.NotEq)):
            r = eq(a, b)
            return r if isinstance(op, ast.Eq) else z3.Not(r)
        if isinstance(op, (ast.Is, ast.IsNot)):
            if a is NONE or b is NONE or is_val(a) or is_val(b) or isinstance(a, PyOpt) or isinstance(b, PyOpt):
                r = eq(a, b)
            elif is_bool(a) and is_bool(b):
                r = a == b
            elif is_int(a) and is_int(b):
                r = a == b                        # enum members (modelled as their ordinal)
            elif isinstance(a, (PyObj, PyConst)) or isinstance(b, (PyObj, PyConst)):
                r = eq(a, b)
            elif isinstance(a, (PyAbsList, PyComp)) and isinstance(b, (PyAbsList, PyComp)):
                r = z3.BoolVal(a is b)          # within one state: the same list object
            else:
                raise Unsupported("`is` on values")
            return r if isinstance(op, ast.Is) else z3.Not(r)
        if isinstance(op, (ast.Lt, ast.LtE, ast.Gt, ast.GtE)):
            if isinstance(a, PyTuple) and isinstance(b, PyTuple):
                if isinstance(op, ast.Lt):
                    return lex_lt(a, b, True)
                if isinstance(op, ast.LtE):
                    return lex_lt(a, b, False)
                if isinstance(op, ast.Gt):
                    return lex_lt(b, a, True)
                return lex_lt(b, a, False)
            if not (is_int(a) and is_int(b)):
                raise Unsupported(f"ordering on {type(a).__name__}")
            return {ast.Lt: a < b, ast.LtE: a <= b, ast.Gt: a > b, ast.GtE: a >= b}[type(op)]
        if isinstance(op, (ast.In, ast.NotIn)):
            r = self.contains(st, b, a, node)
            return r if isinstance(op, ast.In) else z3.Not(r)
        raise Unsupported("comparison op")

    def contains(self, st, container, x, node):
        if isinstance(container, PyStrSet):
            return z3.Or([eq(x, i) for i in container.items]) if container.items else z3.BoolVal(False)
        if isinstance(container, (PyTuple, PyList)):
            return z3.Or([eq(x, i) for i in container.items]) if container.items else z3.BoolVal(False)
        if isinstance(container, PyMap):
            return z3.Select(container.present, x)
        if isinstance(container, PyCache):
            if not isinstance(x, PyKey):
                raise Unsupported("cache key")
            return z3.Select(container.present, x.mark)
        if is_str(container):
            return z3.Contains(container, x)
        if is_seq(container):
            # membership spelled out as an index (the form the quantified invariants talk about; the sequence solver's own
            # `contains` is far slower in the presence of the other sequence equations)
            jq = z3.Int(f"in!q{len(st.pc)}")
            return z3.Exists([jq], z3.And(jq >= 0, jq < z3.Length(container), container[jq] == x))
        if isinstance(container, PyConst) and container.name == "KEYWORDS":
            return is_keyword(x)
        if isinstance(container, PyConst) and container.name == "SOFT_KEYWORDS":
            return is_soft_keyword(x)
        raise Unsupported(f"`in` on {type(container).__name__}")

    def e_BinOp(self, e, st):
        def k(s, vals):
            a, b = lift(vals[0]), lift(vals[1])
            op = e.op
            if isinstance(op, ast.Add):
                if is_int(a) and is_int(b):
                    return [(s, a + b)]
                if is_str(a) and is_str(b):
                    return [(s, z3.Concat(a, b))]
                if isinstance(a, PyTuple) and isinstance(b, PyTuple):
                    return [(s, PyTuple(a.items + b.items))]
                if isinstance(a, PyList) and isinstance(b, PyList):
                    return [(s, PyList(a.items + b.items))]
                if isinstance(a, (PyList, PyComp)) and isinstance(b, (PyList, PyComp)):
                    # concatenation of lists known element-wise / by length: only the LENGTH of the result is modelled (elements: some nodes)
                    ln = lambda x: z3.IntVal(len(x.items)) if isinstance(x, PyList) else x.length       # noqa: E731
                    return [(s, PyComp(z3.simplify(ln(a) + ln(b)), fresh("cat_j", z3.IntSort()), PyObj("AnyNode", {}, ident=fresh("id_cat", z3.IntSort()))))]
                if is_seq(a) and is_seq(b) and a.sort() == b.sort():
                    return [(s, z3.Concat(a, b))]
                if isinstance(a, PyLit) and isinstance(b, PyLit):
                    self.safety(s, a.isbytes == b.isbytes, "operands of + are both str or both bytes (TypeError)", e)
                    return [(s, PyLit(a.isbytes, LCAT(a.val, b.val)))]
                return [(s, Exc("TypeError", e.lineno, "operands of + have mixed types"))]
            if isinstance(op, ast.Sub) and is_int(a) and is_int(b):
                return [(s, a - b)]
            if isinstance(op, ast.Mult):
                if is_int(a) and is_int(b):
                    return [(s, a * b)]
                if is_str(a) and is_int(b) or is_int(a) and is_str(b):
                    return [(s, fresh("strmul", z3.StringSort()))]
            if isinstance(op, ast.FloorDiv) and is_int(a) and is_int(b):
                self.safety(s, b != 0, "division by zero", e)
                # Python floor division; z3 `/` on ints is Euclidean-like: for positive divisor they agree
                self.safety(s, b > 0, "floor division with non-positive divisor is outside the encoded subset", e)
                return [(s, a / b)]
            if isinstance(op, ast.Mod) and is_int(a) and is_int(b):
                self.safety(s, b > 0, "modulo with non-positive divisor is outside the encoded subset", e)
                return [(s, a % b)]
            if isinstance(op, ast.Mod) and is_str(a):
                return [(s, fresh("fmt", z3.StringSort()))]
            raise Unsupported(f"binary op {type(op).__name__} on {type(a).__name__}/{type(b).__name__} line {e.lineno}")
        return self.bind(self.eval_list([e.left, e.right], st), k)

    # ------------------------------------------------------------------ attribute / subscript
    def e_Attribute(self, e, st):
        def k(s, v):
            return [(s, self.getattr(s, v, e.attr, e))]
        return self.bind(self.eval(e.value, st), k)

    def getattr(self, s, v, attr, node):
        if isinstance(v, PyOpt):
            self.safety(s, z3.Not(v.isnone), f"`{ast.unparse(node)[:50]}`: the value is not None (AttributeError)", node)
            v = v.some
        if v is NONE:
            self.vc(s, z3.BoolVal(False), "safety", f"attribute .{attr} of None", getattr(node, "lineno", 0))
            return Exc("AttributeError", getattr(node, "lineno", 0), f".{attr} of None")
        if isinstance(v, PyObj) and v.cls == "EndProg" and attr in ("mode", "pattern"):
            return self.endprog_attr(v, attr)
        if isinstance(v, PyObj) and v.cls == "Match" and attr in ("span", "end", "start", "group"):
            return PyCallable("method", attr, bound=v)
        if isinstance(v, PyObj) and v.cls == "TokenizerState" and attr == "match":
            return PyCallable("method", attr, bound=v)
        if isinstance(v, PyObj):
            if attr in v.fields:
                return v.fields[attr]
            cls = self.classes.get(v.cls, {})
            alias = cls.get("__alias__", {}).get(attr)
            if alias:
                tgt = v
                for p in alias[:-1]:
                    tgt = tgt.fields[p]
                return PyCallable("method", alias[-1], bound=tgt)
            if self.method_contract(v.cls, attr) is not None or attr in cls.get("__methods__", ()):
                return PyCallable("method", attr, bound=v)
            if attr in cls.get("__consts__", {}):
                return PyConst(cls["__consts__"][attr])
            raise Unsupported(f"attribute {v.cls}.{attr} (line {getattr(node, 'lineno', '?')})")
        if is_tok(v):
            f = tok_fields(v)
            if attr in f:
                return f[attr]
            if attr in ("is_exact_type", "loc", "loc_start", "loc_end", "is_next_to", "_replace"):
                return PyCallable("tokmethod", attr, bound=v)
            if attr in ("lineno", "col_offset", "end_lineno", "end_col_offset", "value", "values", "elts", "ctx", "id"):
                # an ast-node attribute read from what is a token on this path
                self.vc(s, z3.BoolVal(False), "safety", f"attribute .{attr} of a TokenInfo (AttributeError)", getattr(node, "lineno", 0))
                return Exc("AttributeError", getattr(node, "lineno", 0), f".{attr} of a TokenInfo")
        if is_str(v) or is_seq(v) or isinstance(v, (PyList, PyMap, PyCache, PyDictLit, PyStrDict, PyAbsList)):
            return PyCallable("valmethod", attr, bound=v)
        if isinstance(v, PyConst):
            g = self.const_attr(v, attr)
            if g is not None:
                return g
        if isinstance(v, PyCallable) and attr == "__name__":
            return z3.StringVal(v.name)
        raise Unsupported(f"attribute .{attr} on {type(v).__name__} (line {getattr(node, 'lineno', '?')})")

    def const_attr(self, c: PyConst, attr):
        if c.name == "Token":
            if attr in self.token_enum:
                return z3.IntVal(self.token_enum[attr])
        if c.name == "Target" and attr in ("FOR_TARGETS", "STAR_TARGETS", "DEL_TARGETS"):
            return z3.IntVal({"FOR_TARGETS": 1, "STAR_TARGETS": 2, "DEL_TARGETS": 3}[attr])        # enum.auto() in declaration order
        if c.name == "sys" and attr == "version_info":
            return PyTuple([z3.IntVal(3), z3.IntVal(12)])
        if c.name == "ast" and attr == "literal_eval":
            return PyConst("ast.literal_eval")
        if c.name == "ast":
            return PyConst("ast." + attr)
        if c.name == "textwrap" and attr == "dedent":
            return PyConst("textwrap.dedent")
        return None

    def e_Subscript(self, e, st):
        if isinstance(e.slice, ast.Slice):
            def k(s, v):
                lo = self.eval1(e.slice.lower, s) if e.slice.lower is not None else None
                hi = self.eval1(e.slice.upper, s) if e.slice.upper is not None else None
                if e.slice.step is not None:
                    raise Unsupported("slice step")
                return [(s, self.slice(s, v, lo, hi))]
            return self.bind(self.eval(e.value, st), k)

        def k2(s, vals):
            v = self.index(s, vals[0], vals[1], e)
            # in a specification a union-shaped element stays one value (spec functions and isinstance read it by cases)
            return [(s, v)] if self.spec_mode else self.split_union(s, v)
        return self.bind(self.eval_list([e.value, e.slice], st), k2)

    def nonneg(self, s, i) -> bool:
        """is `i >= 0` known on this path?  Cheap syntactic look-up first (a conjunct of the path condition says so), the solver last"""
        for c in reversed(s.pc[-40:]):
            for d in (c.children() if z3.is_and(c) else [c]):
                if z3.is_app(d) and d.num_args() == 2:
                    a, b = d.arg(0), d.arg(1)
                    k = d.decl().kind()
                    if ((k == z3.Z3_OP_GE and z3.eq(a, i) and z3.is_int_value(b) and b.as_long() >= 0)
                            or (k == z3.Z3_OP_LE and z3.eq(b, i) and z3.is_int_value(a) and a.as_long() >= 0)):
                        return True
        return not self.feasible(s, i < 0)

    def norm_index(self, n, i):
        return z3.If(i < 0, i + n, i)

    def slice(self, s, v, lo, hi):
        """Python slicing with clamping (never raises)"""
        if isinstance(v, (PyList, PyTuple)):
            li = None if lo is None else self.concrete_int(lo)
            hi_ = None if hi is None else self.concrete_int(hi)
            return type(v)(v.items[li:hi_])
        if isinstance(v, PyComp) and hi is None:
            k = 0 if lo is None else self.concrete_int(lo)
            if k < 0:
                raise Unsupported("slice of a list argument from a negative index")
            j2 = fresh("sj", z3.IntSort())
            return PyComp(z3.If(v.length >= k, v.length - k, 0), j2, v.at(j2 + k))
        if not (is_str(v) or is_seq(v)):
            raise Unsupported("slice of " + type(v).__name__)
        n = z3.Length(v)
        if is_seq(v) and lo is None and hi is not None and z3.is_int_value(z3.simplify(lift(hi))) and z3.simplify(lift(hi)).as_long() == -1:
            # x[:-1]: all but the last element, with the defining equations instantiated
            rest = fresh("init", v.sort())
            jq = z3.Int("sl!q")
            s.assume(z3.Length(rest) == z3.If(n > 0, n - 1, 0))
            s.assume(z3.ForAll([jq], z3.Implies(z3.And(jq >= 0, jq < z3.Length(rest)), rest[jq] == v[jq])))
            s.assume(z3.Implies(n > 0, v == z3.Concat(rest, z3.Unit(v[n - 1]))))
            return rest

        if is_seq(v) and hi is None and lo is not None and z3.is_int_value(z3.simplify(lift(lo))) and z3.simplify(lift(lo)).as_long() >= 0:
            # x[k:] with a literal k: the tail, with its defining equations instantiated (element j of the tail is element j + k of x)
            k = z3.simplify(lift(lo)).as_long()
            rest = fresh("tail", v.sort())
            jq = z3.Int("sl!q")
            s.assume(z3.Length(rest) == z3.If(n >= k, n - k, 0))
            s.assume(z3.ForAll([jq], z3.Implies(z3.And(jq >= 0, jq < z3.Length(rest)), rest[jq] == v[jq + k])))
            s.assume(rest == z3.SubSeq(v, z3.IntVal(k), z3.If(n >= k, n - k, 0)))
            return rest

        def clamp(x, default):
            if x is None:
                return default
            x = lift(x)
            x = z3.If(x < 0, x + n, x)
            return z3.If(x < 0, 0, z3.If(x > n, n, x))
        a = clamp(lo, z3.IntVal(0))
        b = clamp(hi, n)
        return z3.SubSeq(v, a, z3.If(b > a, b - a, 0)) if is_seq(v) else z3.SubString(v, a, z3.If(b > a, b - a, 0))

    def concrete_int(self, x):
        x = z3.simplify(lift(x))
        if z3.is_int_value(x):
            return x.as_long()
        raise Unsupported("symbolic index into a Python-side tuple/list")

    def index(self, s, v, i, node):
        i = lift(i)
        if isinstance(v, (PyTuple, PyList)):
            try:
                k = self.concrete_int(i)
            except Unsupported:
                raise
            n = len(v.items)
            if not (-n <= k < n):
                self.vc(s, z3.BoolVal(False), "safety", f"index {k} out of range for a {n}-element {'tuple' if isinstance(v, PyTuple) else 'list'}", node.lineno)
                return Exc("IndexError", node.lineno)
            return v.items[k]
        if is_str(v) or is_seq(v):
            n = z3.Length(v)
            self.safety(s, z3.And(i >= -n, i < n), f"subscript `{ast.unparse(node)[:60]}` in range (IndexError)", node)
            # Python's negative-index wrap is only encoded when the index may actually be negative on this path
            # (keeps `seq[j]` terms in the plain form the instantiated lemmas talk about)
            j = i if self.nonneg(s, i) else self.norm_index(n, i)
            if is_str(v):
                return z3.SubString(v, j, 1)
            return v[j]
        if isinstance(v, PyObj) and v.cls == "EncodedStr":
            # s.encode()[k]: for text made of ASCII characters the k-th byte is the code of the k-th character
            txt = v.fields["s"]
            n = z3.Length(txt)
            self.safety(s, z3.And(i >= 0, i < n), f"subscript `{ast.unparse(node)[:60]}` in range (IndexError)", node)
            code = z3.StrToCode(z3.SubString(txt, i, 1))
            jq = z3.Int("enc!q")
            self.vc(s, z3.ForAll([jq], z3.Implies(z3.And(jq >= 0, jq <= i), z3.And(z3.StrToCode(z3.SubString(txt, jq, 1)) >= 0, z3.StrToCode(z3.SubString(txt, jq, 1)) < 128))),
                    "safety", f"`{ast.unparse(node)[:60]}`: the text up to that index is ASCII (byte index == character index)", getattr(node, "lineno", 0))
            return code
        if isinstance(v, PyAbsList):
            k = self.concrete_int(i)
            if k not in (0, -1):
                raise Unsupported("only the first and the last element of an abstract list are modelled")
            self.safety(s, v.n > 0, f"subscript `{ast.unparse(node)[:60]}` on a non-empty list (IndexError)", node)
            return v.first if k == 0 else v.last
        if isinstance(v, PyComp):
            self.safety(s, z3.And(i >= -v.length, i < v.length), f"subscript `{ast.unparse(node)[:60]}` in range (IndexError)", node)
            si = z3.simplify(i)
            if z3.is_int_value(si):
                return v.at(si if si.as_long() >= 0 else v.length + si)
            return v.at(i if self.nonneg(s, i) else self.norm_index(v.length, i))
        if isinstance(v, PyMap):
            self.safety(s, z3.Select(v.present, i), f"key present in `{ast.unparse(node)[:60]}` (KeyError)", node)
            return z3.Select(v.value, i)
        if isinstance(v, PyCache):
            if not isinstance(i, PyKey):
                raise Unsupported("cache subscript")
            self.safety(s, z3.Select(v.present, i.mark), "cache key present (KeyError)", node)
            return PyTuple([z3.Select(v.tree, i.mark), z3.Select(v.end, i.mark)])
        if isinstance(v, PyDictLit):
            kk = z3.simplify(i)
            if z3.is_string_value(kk) and kk.as_string() in v.d:
                return v.d[kk.as_string()]
            self.vc(s, z3.BoolVal(False), "safety", "dict literal key", node.lineno)
            return Exc("KeyError", node.lineno)
        if isinstance(v, PyObj) and v.cls == "EPStack":
            if not (z3.is_int_value(z3.simplify(i)) and z3.simplify(i).as_long() == -1):
                raise Unsupported("only the top frame of end_progs is modelled")
            self.safety(s, v.fields["n"] > 0, f"subscript `{ast.unparse(node)[:60]}` on a non-empty list (IndexError)", node)
            return v.fields["top"]
        if isinstance(v, PyConst) and v.name in ("endpats", "startpats"):
            return self.pattern_subscript(v, i)
        if isinstance(v, PyConst) and v.name == "Token":
            return token_named(i)
        if is_tok(v):
            k = self.concrete_int(i)
            return [Tok.type(v), Tok.string(v), tok_fields(v)["start"], tok_fields(v)["end"], Tok.line(v)][k]
        raise Unsupported(f"subscript of {type(v).__name__} line {node.lineno}")

    def e_ListComp(self, e, st):
        """[f(x) for x in seq] over a symbolic sequence: result is a fresh sequence of the same length with the
        element-wise relation asserted; safety VCs of the element expression are universally quantified."""
        if len(e.generators) != 1 or e.generators[0].is_async:
            raise Unsupported("comprehension shape")
        g = e.generators[0]
        it = self.eval1(g.iter, st)
        if isinstance(it, (PyList, PyTuple)):
            out = []
            for x in it.items:
                s2 = st
                self.assign_target(g.target, x, s2)
                if all(z3.is_true(z3.simplify(Tr(self.eval1(c, s2)))) for c in g.ifs) or not g.ifs:
                    out.append(self.eval1(e.elt, s2))
                else:
                    raise Unsupported("filtered comprehension over Python-side list")
            return [(st, PyList(out))]
        if it is NONE:
            self.vc(st, z3.BoolVal(False), "safety", f"`{ast.unparse(g.iter)[:40]}` is not None where it is iterated (TypeError)", e.lineno)
            return [(st, Exc("TypeError", e.lineno, "iteration over None"))]
        if isinstance(it, PyComp):
            # [f(x) for x in <list known element-wise> (if c(x))]: element-wise again; with a filter only the bound on the length is kept
            j2 = fresh("cj", z3.IntSort())
            elem = it.at(j2)
            alts = [(None, elem)] if not isinstance(elem, PyUnion) else [(k, a) for k, a in enumerate(elem.alts)]
            outs = []
            for k, a in alts:
                s2 = st.clone()
                s2.assume(z3.And(j2 >= 0, j2 < it.length))
                if k is not None:
                    s2.assume(elem.kind == k)
                r0 = self.assign_target(g.target, s2._memo.get(id(a), a) if not is_z3(a) else a, s2, e)
                if isinstance(r0, Exc):
                    raise Unsupported("comprehension target does not fit the element")
                for c in g.ifs:
                    self.eval1(c, s2)          # evaluated for its safety obligations; which elements pass is not modelled
                outs.append(self.eval1(e.elt, s2))
            if g.ifs:
                k2 = fresh("kept", z3.IntSort())
                st.assume(z3.And(k2 >= 0, k2 <= it.length))
                return [(st, PyComp(k2, fresh("fj", z3.IntSort()), PyObj("AnyNode", {}, ident=fresh("id_kept", z3.IntSort()))))]
            elt = outs[0] if len(outs) == 1 else PyUnion(elem.kind, outs)
            return [(st, PyComp(it.length, j2, elt))]
        if not is_seq(it) or g.ifs:
            raise Unsupported("comprehension over " + type(it).__name__)
        j = fresh("cj", z3.IntSort())
        s2 = st.clone()
        s2.assume(z3.And(j >= 0, j < z3.Length(it)))
        self.assign_target(g.target, it[j], s2)
        elt = self.eval1(e.elt, s2)      # safety VCs emitted with the arbitrary j in the path condition
        if isinstance(elt, PyObj):
            return [(st, PyComp(z3.Length(it), j, elt))]
        elt = lift(elt)
        if not is_z3(elt):
            raise Unsupported("comprehension element")
        res = fresh("comp", z3.SeqSort(elt.sort()))
        st.assume(z3.Length(res) == z3.Length(it))
        jj = z3.Int("cj!q")
        body = z3.substitute(elt, (j, jj))
        st.assume(z3.ForAll([jj], z3.Implies(z3.And(jj >= 0, jj < z3.Length(it)), res[jj] == body)))
        return [(st, res)]

    def e_GeneratorExp(self, e, st):
        raise Unsupported("bare generator expression")

    def e_Starred(self, e, st):
        raise Unsupported("starred expression")

    def e_Lambda(self, e, st):
        raise Unsupported("lambda")
