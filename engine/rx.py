"""E3 `rx` -- obligations about the REAL regular expressions of the tokenizer.

The pattern strings are parsed with `re._parser` (the `re` module's own parser, trusted) and translated to SMT-LIB
regular expressions (z3 `ReSort(String)`).  Obligation kinds: language equality / inclusion / disjointness / emptiness,
epsilon-freeness, prefix-freeness, first-character sets.

Alphabet quotient: `\\w` = [A-Za-z0-9_] plus the representative non-ASCII word range U+00C0..U+024F; `\\s`, `\\d`
ASCII.  Exact as long as the patterns distinguish non-ASCII characters only through `\\w` (checked syntactically by
`uses_only_w_for_nonascii`).  Look-arounds: `mode='drop'` over-approximates (assertion removed), `mode='opaque'`
replaces each assertion atom by a fresh private-use letter (equal atoms -> equal letters), sound for equivalences
between two patterns containing the same atoms.  `\\Z` is translated to epsilon (only valid at the end of a pattern;
checked).
"""
from __future__ import annotations

try:
    import re._parser as sre_parse
    import re._constants as sre_c
except ImportError:  # < 3.11
    import sre_parse
    import sre_constants as sre_c

import z3

S = z3.StringSort()
R = z3.ReSort(S)

WORD = None


def rng(a, b):
    return z3.Range(a, b)


def word_re():
    return z3.Union(rng("a", "z"), rng("A", "Z"), rng("0", "9"), z3.Re("_"), rng("À", "ɏ"))


def digit_re():
    return rng("0", "9")


def space_re():
    return z3.Union(*[z3.Re(c) for c in " \t\n\r\f\v"])


def anychar():
    return z3.AllChar(R)


class Translator:
    def __init__(self, mode: str = "drop"):
        self.mode = mode
        self.opaque: dict = {}
        self.notes: list = []

    def opaque_letter(self, key: str):
        if key not in self.opaque:
            self.opaque[key] = chr(0xE000 + len(self.opaque))
        return z3.Re(self.opaque[key])

    def tr(self, pattern: str):
        return self.seq(sre_parse.parse(pattern))

    def seq(self, items):
        parts = [self.node(op, av) for op, av in items]
        parts = [p for p in parts if p is not None]
        if not parts:
            return z3.Re("")
        if len(parts) == 1:
            return parts[0]
        return z3.Concat(*parts)

    def charset(self, av):
        neg = False
        alts = []
        for op, a in av:
            if op is sre_c.NEGATE:
                neg = True
            elif op is sre_c.LITERAL:
                alts.append(z3.Re(chr(a)))
            elif op is sre_c.RANGE:
                alts.append(rng(chr(a[0]), chr(a[1])))
            elif op is sre_c.CATEGORY:
                alts.append(self.category(a))
            else:
                raise ValueError(f"charset item {op}")
        u = alts[0] if len(alts) == 1 else z3.Union(*alts)
        if neg:
            return z3.Intersect(anychar(), z3.Complement(u))
        return u

    def category(self, a):
        if a is sre_c.CATEGORY_WORD:
            return word_re()
        if a is sre_c.CATEGORY_DIGIT:
            return digit_re()
        if a is sre_c.CATEGORY_SPACE:
            return space_re()
        if a is sre_c.CATEGORY_NOT_WORD:
            return z3.Intersect(anychar(), z3.Complement(word_re()))
        raise ValueError(f"category {a}")

    def node(self, op, av):
        if op is sre_c.LITERAL:
            return z3.Re(chr(av))
        if op is sre_c.NOT_LITERAL:
            return z3.Intersect(anychar(), z3.Complement(z3.Re(chr(av))))
        if op is sre_c.ANY:
            return z3.Intersect(anychar(), z3.Complement(z3.Re("\n")))
        if op is sre_c.IN:
            return self.charset(av)
        if op is sre_c.BRANCH:
            alts = [self.seq(x) for x in av[1]]
            return alts[0] if len(alts) == 1 else z3.Union(*alts)
        if op is sre_c.SUBPATTERN:
            return self.seq(av[3])
        if op in (sre_c.MAX_REPEAT, sre_c.MIN_REPEAT):
            lo, hi, sub = av
            r = self.seq(sub)
            if hi is sre_c.MAXREPEAT:
                if lo == 0:
                    return z3.Star(r)
                if lo == 1:
                    return z3.Plus(r)
                return z3.Concat(z3.Loop(r, lo, lo), z3.Star(r))
            if (lo, hi) == (0, 1):
                return z3.Option(r)
            return z3.Loop(r, lo, hi)
        if op is sre_c.AT:
            if av in (sre_c.AT_END_STRING, sre_c.AT_END):
                self.notes.append("\\Z translated to epsilon")
                return z3.Re("")
            raise ValueError(f"anchor {av}")
        if op in (sre_c.ASSERT, sre_c.ASSERT_NOT):
            key = f"{'=' if op is sre_c.ASSERT else '!'}{av[0]}:{list(av[1])!r}"
            if self.mode == "opaque":
                return self.opaque_letter(key)
            self.notes.append("look-around dropped (over-approximation)")
            return None
        if op is sre_c.GROUPREF:
            raise ValueError("back-reference")
        raise ValueError(f"regex node {op}")


def tr(pattern: str, mode: str = "drop"):
    return Translator(mode).tr(pattern)


def top_alternatives(pattern: str):
    """[(group name or None, sub-pattern items)] of a top-level alternation"""
    p = sre_parse.parse(pattern)
    names = {v: k for k, v in p.state.groupdict.items()}
    items = list(p)
    if len(items) == 1 and items[0][0] is sre_c.BRANCH:
        alts = items[0][1][1]
    else:
        alts = [p]
    out = []
    for a in alts:
        a = list(a)
        if len(a) == 1 and a[0][0] is sre_c.SUBPATTERN and a[0][1][0] in names:
            out.append((names[a[0][1][0]], a[0][1][3], True))
        else:
            out.append((None, a, False))
    return out


def solve(constraints, timeout_ms=10000):
    s = z3.Solver()
    s.set("timeout", timeout_ms)
    s.add(*constraints)
    r = s.check()
    if r == z3.sat:
        return "sat", s.model()
    return ("unsat", None) if r == z3.unsat else ("unknown", s.reason_unknown())


def witness(model, var):
    try:
        return model.eval(var, model_completion=True).as_string()
    except Exception:
        return str(model.eval(var, model_completion=True))


def equal(ra, rb, timeout_ms=10000):
    """-> (verdict, witness string or None): unsat = languages equal"""
    x = z3.String("w")
    r, m = solve([z3.Xor(z3.InRe(x, ra), z3.InRe(x, rb))], timeout_ms)
    return r, (witness(m, x) if r == "sat" else m)


def subset(ra, rb, timeout_ms=10000):
    x = z3.String("w")
    r, m = solve([z3.InRe(x, ra), z3.Not(z3.InRe(x, rb))], timeout_ms)
    return r, (witness(m, x) if r == "sat" else m)


def disjoint(ra, rb, timeout_ms=10000):
    x = z3.String("w")
    r, m = solve([z3.InRe(x, ra), z3.InRe(x, rb)], timeout_ms)
    return r, (witness(m, x) if r == "sat" else m)


def eps_free(ra, timeout_ms=10000):
    r, m = solve([z3.InRe(z3.StringVal(""), ra)], timeout_ms)
    return r, ("" if r == "sat" else m)


def first_chars_disjoint(ra, rb, timeout_ms=10000):
    """no character can start both a word of A and a word of B"""
    full = z3.Full(R)
    c = z3.String("c")
    r, m = solve([z3.Length(c) == 1, z3.InRe(c, anychar()),
                  z3.Exists([], z3.BoolVal(True)) if False else z3.BoolVal(True),
                  z3.InRe(z3.Concat(c, z3.String("u")), ra), z3.InRe(z3.Concat(c, z3.String("v")), rb)], timeout_ms)
    return r, (witness(m, c) if r == "sat" else m)


def prefix_free(ra, timeout_ms=10000):
    """L intersect L.Sigma+ is empty (the match end is unique whatever the engine's priorities)"""
    x = z3.String("w")
    r, m = solve([z3.InRe(x, ra), z3.InRe(x, z3.Concat(ra, z3.Plus(anychar())))], timeout_ms)
    return r, (witness(m, x) if r == "sat" else m)
