"""E1 support for stage 2 of peg_parser/tokenize.py: regular-expression patterns and match objects, the frame stack.

What the executor knows about `re` is the ASSUMED contract of `TokenizerState.match(pattern)` (= `pattern.match(line, pos)`)
plus facts about the concrete patterns that E3 proves on the real pattern strings (checks/c08.py, lemma ids C08.rx.*):

  pattern kind   built by (real code)                                  what a successful match guarantees
  -------------  ---------------------------------------------------   -----------------------------------------------------
  END(q)         endpats[q]                                             no named group; end(0) = e, e - len(q) >= pos, line[e-len(q):e] == q
  FMIDDLE(q)     choice(LBrace=startpats[q], End=endpats[q])            lastgroup in {LBrace, End}; span(lastgroup) = (pos, e);
                                                                        LBrace: e >= pos + 1 and line[e-1] == '{';  End: as END(q)
  SPEC           choice(LBrace=SpecLBrace, RBrace=SpecRBrace)           lastgroup in {LBrace, RBrace}; span = (pos, e), e >= pos + 1,
                                                                        line[e-1] == '{' / '}'
  PSEUDO         PseudoToken                                            lastgroup in the named groups of the real master pattern or None;
                                                                        span(lastgroup) = (pos, e), e <= max, e > pos unless the group is End

A pattern is a pair (kind: Int, q: String) so that it can be stored in a frame (fields `pat`, `patq` of the EndProg abstraction)
and read back symbolically.  Frames below the top of `end_progs` are not modelled: after a pop the new top is unconstrained
except for what `reset()` writes.
"""
from __future__ import annotations

import ast

import z3

from .pyvals import NONE, PyConst, PyObj, PyTuple, fresh
from .pyvc import Unsupported, lift

I = z3.IntSort()
K_NONE, K_END, K_FMIDDLE, K_SPEC, K_PSEUDO, K_START, K_SPECL, K_SPECR = range(8)
MODE_KINDS = {"ModeMiddle": 1, "ModeInBraces": 2, "ModeInColon": 3}


class PyPattern:
    def __init__(self, kind, q):
        self.kind = kind      # z3 Int (one of the K_* constants, possibly symbolic)
        self.q = q            # z3 String: the quote the pattern was built for ('' when not applicable)

    def __repr__(self):
        return f"Pattern({self.kind}, {self.q})"


class MatchMixin:
    """mixed into the Executor"""

    def stage2_globals(self):
        g = {"endpats": PyConst("endpats"), "startpats": PyConst("startpats"), "EndProg": PyConst("EndProg"),
             "SpecLBrace": PyPattern(z3.IntVal(K_SPECL), z3.StringVal("")), "SpecRBrace": PyPattern(z3.IntVal(K_SPECR), z3.StringVal("")),
             "PseudoToken": PyPattern(z3.IntVal(K_PSEUDO), z3.StringVal(""))}
        for m in MODE_KINDS:
            g[m] = PyConst(m)
        return g

    # ---- patterns
    def pattern_subscript(self, table: PyConst, key):
        key = lift(key)
        if table.name == "endpats":
            return PyPattern(z3.IntVal(K_END), key)
        if table.name == "startpats":
            return PyPattern(z3.IntVal(K_START), key)
        raise Unsupported("subscript of " + table.name)

    def b_choice(self, e, st):
        if e.args:
            raise Unsupported("choice() with positional patterns")
        kw = {k.arg: self.eval1(k.value, st) for k in e.keywords}
        if not all(isinstance(v, PyPattern) for v in kw.values()):
            raise Unsupported("choice() of non-patterns")
        kinds = {k: z3.simplify(v.kind).as_long() if z3.is_int_value(z3.simplify(v.kind)) else None for k, v in kw.items()}
        if kinds == {"LBrace": K_START, "End": K_END}:
            # both halves must have been built for the same quote
            self.vc(st, kw["LBrace"].q == kw["End"].q, "safety", "field-start and end patterns of an f-string frame are chosen for the same quote", e.lineno)
            return [(st, PyPattern(z3.IntVal(K_FMIDDLE), kw["End"].q))]
        if kinds == {"LBrace": K_SPECL, "RBrace": K_SPECR}:
            return [(st, PyPattern(z3.IntVal(K_SPEC), z3.StringVal("")))]
        raise Unsupported(f"choice() shape {kinds}")

    # ---- frames
    def make_mode(self, name, args):
        return PyObj("ModeView", {"kind": z3.IntVal(MODE_KINDS[name]), "parenlevel": lift(args[0])})

    def make_endprog(self, st, kwargs):
        f = {"mode_kind": z3.IntVal(0), "parenlevel": z3.IntVal(0), "text": z3.StringVal(""), "contline": z3.StringVal(""),
             "start": PyTuple([z3.IntVal(0), z3.IntVal(0)]), "quote": z3.StringVal(""), "pat": z3.IntVal(K_NONE), "patq": z3.StringVal("")}
        for k, v in kwargs.items():
            if k == "mode":
                if v is NONE:
                    continue
                if not (isinstance(v, PyObj) and v.cls == "ModeView"):
                    raise Unsupported("EndProg(mode=...) of unknown shape")
                f["mode_kind"], f["parenlevel"] = v.fields["kind"], v.fields["parenlevel"]
            elif k == "pattern":
                if not isinstance(v, PyPattern):
                    raise Unsupported("EndProg(pattern=...) of unknown shape")
                f["pat"], f["patq"] = v.kind, v.q
            elif k in ("text", "contline", "quote"):
                f[k] = lift(v)
            elif k == "start":
                f[k] = v
            else:
                raise Unsupported(f"EndProg field {k}")
        return PyObj("EndProg", f)

    def endprog_attr(self, o: PyObj, attr):
        if attr == "mode":
            return PyObj("ModeView", {"kind": o.fields["mode_kind"], "parenlevel": o.fields["parenlevel"]})
        if attr == "pattern":
            return PyPattern(o.fields["pat"], o.fields["patq"])
        return None

    def epstack_method(self, st, stack: PyObj, name, args, node):
        n = stack.fields["n"]
        if name == "append" and len(args) == 1 and isinstance(args[0], PyObj) and args[0].cls == "EndProg":
            stack.fields["n"] = n + 1
            stack.fields["top"] = args[0]
            return [(st, NONE)]
        if name == "pop" and not args:
            self.safety(st, n > 0, "`end_progs.pop()` on a non-empty list (IndexError)", node)
            old = stack.fields["top"]
            stack.fields["n"] = n - 1
            stack.fields["top"] = self.mk("obj:EndProg", "frame_below", st)[0]     # frames below the top are not modelled
            return [(st, old)]
        raise Unsupported(f"end_progs.{name}")

    # ---- matching
    def pseudo_groups(self):
        """named groups of the REAL master pattern (read from the source under verification)"""
        names = getattr(self, "_pseudo_groups", None)
        if names is None:
            names = []
            for n in ast.walk(self.tree):
                # PseudoToken = Whitespace + group(..., Name=..., ws=...): collect keyword names of group()/choice() calls in its definition
                if isinstance(n, ast.Assign) and len(n.targets) == 1 and isinstance(n.targets[0], ast.Name) and n.targets[0].id in ("PseudoToken", "PseudoExtras", "Funny"):
                    for c in ast.walk(n.value):
                        if isinstance(c, ast.Call) and isinstance(c.func, ast.Name) and c.func.id in ("group", "choice", "capname"):
                            names.extend(k.arg for k in c.keywords if k.arg and k.arg != "name")
                            for k in c.keywords:
                                if k.arg == "name" and isinstance(k.value, ast.Constant):
                                    names.append(k.value.value)
                            if c.func.id == "capname" and c.args and isinstance(c.args[0], ast.Constant):
                                names.append(c.args[0].value)
            self._pseudo_groups = names = sorted(set(names))
        return names

    def do_match(self, st, state: PyObj, pat, node):
        """state.match(pattern): forks into (no match) and (match object with the assumed facts)"""
        if not isinstance(pat, PyPattern):
            raise Unsupported("match() with a pattern the model does not know")
        line, pos, mx = state.fields["line"], state.fields["pos"], state.fields["max"]
        out = []
        miss = st.clone()
        out.append((miss, NONE))
        hit = st
        lg, s, e = fresh("lastgroup", z3.StringSort()), fresh("m_s", I), fresh("m_e", I)
        k, q = pat.kind, pat.q
        S = z3.StringVal
        ends = lambda ch: z3.And(e >= pos + 1, z3.SubString(line, e - 1, 1) == S(ch))       # noqa: E731
        endq = z3.And(e - z3.Length(q) >= pos, z3.SubString(line, e - z3.Length(q), z3.Length(q)) == q, z3.Length(q) >= 1)
        hit.assume(z3.And(pos <= s, s <= e, e <= mx))
        hit.assume(z3.Implies(k == K_END, z3.And(lg == S(""), s == pos, endq)))
        hit.assume(z3.Implies(k == K_FMIDDLE, z3.And(z3.Or(lg == S("LBrace"), lg == S("End")), s == pos,
                                                     z3.Implies(lg == S("LBrace"), ends("{")), z3.Implies(lg == S("End"), endq))))
        hit.assume(z3.Implies(k == K_SPEC, z3.And(z3.Or(lg == S("LBrace"), lg == S("RBrace")), s == pos,
                                                  z3.Implies(lg == S("LBrace"), ends("{")), z3.Implies(lg == S("RBrace"), ends("}")))))
        groups = self.pseudo_groups()
        # C08.pseudo.structure: every alternative is one named group spanning the whole match; C08.pseudo.epsfree.<g>: non-empty except End
        hit.assume(z3.Implies(k == K_PSEUDO, z3.And(z3.Or([lg == S(g) for g in groups] + [lg == S("")]), s == pos,
                                                    z3.Implies(z3.And(lg != S("End"), lg != S("")), e > s),
                                                    # End = backslash-newline | \Z: the empty alternative needs the end of the line (C08.pseudo.end_alt)
                                                    z3.Implies(lg == S("End"), z3.Or(e > s, pos == mx)))))
        out.append((hit, PyObj("Match", {"lastgroup": lg, "s": s, "e": e})))
        return out

    def match_method(self, st, m: PyObj, name, args, node):
        if name == "span":
            return [(st, PyTuple([m.fields["s"], m.fields["e"]]))]
        if name == "end":
            return [(st, m.fields["e"])]
        if name == "start":
            return [(st, m.fields["s"])]
        if name == "group":
            return [(st, fresh("m_group", z3.StringSort()))]      # text of a group: any string (None reads as '' for truthiness)
        raise Unsupported("Match." + name)
