"""C18: memoisation discipline of the generated parser -- "no compounding re-entry".

Cost model.  An evaluation of a memoised rule at an index is a cache lookup except for the first one, which runs
the body once (`memoize`), or a bounded number of times (`memoize_left_rec`: one run per seed-growing step, see the
E1 contract of the wrapper).  So total work = sum over (memoised rule M, index i) of the size of the *un-memoised
expansion* T(M, i) of one body run: the tree of activations of un-memoised rules it causes, whose leaves are
evaluations of memoised rules.  T can be exponential in the nesting depth exactly when the un-memoised call graph U
has a cycle on which some rule is entered more than once at one and the same token index:

  E0(R, S)  number of call sites of S in R that may be evaluated at one and the same index in one activation of R:
            call sites inside one alternative count together only if no strict-progress item lies between them;
            alternatives count together unless their first sets are disjoint (then at most one of them gets past
            its first token).
  A0*(S, Q) number of evaluations of Q at the ENTRY index of S in one activation of S (first segments only, closed
            through un-memoised intermediates; finite because same-index recursion only goes through memoised leaders).
  E*(R, Q)  max over the segments of R's alternatives (one segment per mutually compatible alternative, summed) of
            direct sites of Q plus sites of un-memoised S times A0*(S, Q)      (R, Q un-memoised).
  U         call graph (calls at any index) restricted to un-memoised rules.

  OBLIGATION  for all un-memoised R, Q:   E*(R, Q) >= 2   ==>   R is not reachable from Q in U.

(With a memoised rule anywhere on the way back the second evaluation is a cache hit and the repetition does not
compound; the resulting bound is polynomial -- the linear bound itself is not a per-function contract, DESIGN C18.)
Discharged by our own graph procedure (`pegir-fixpoint`); the counter-example is the pair (R, Q), the call chain
and the return path, from which the replay harness builds a size-parameterised input family.
"""
from __future__ import annotations

from functools import lru_cache

from .pegfacts import Facts, LEAF_KINDS
from .pegir import PE, Alt, Rule


def overlap(c1, c2, keywords, soft_keywords) -> bool:
    """may one token belong to both token classes? (conservative = True when unsure)"""
    if c1 == c2:
        return True
    k1, k2 = c1[0], c2[0]
    if k1 == "any_token" or k2 == "any_token":
        return True
    if k1 == "lit" and k2 == "lit":
        return False                      # expect() compares the token string
    if k1 != "lit" and k2 == "lit":
        c1, c2, k1, k2 = c2, c1, k2, k1
    if k1 == "lit":
        s = c1[1]
        ident = s.isidentifier()
        if k2 == "name":
            return ident and s not in keywords
        if k2 == "keyword":
            return s in keywords
        if k2 == "soft_keyword":
            return s in soft_keywords
        if k2 == "type":
            t = c2[1]
            if t == "OP":
                return not ident
            if t == "NAME":
                return ident
            return False                  # assumed: other token types never carry a grammar literal (DESIGN C02 [A])
        return True
    # both non-literal
    names = {"name", "keyword", "soft_keyword"}
    if k1 in names and k2 in names:
        return not ({k1, k2} == {"name", "keyword"})
    if k1 == "type" and k2 == "type":
        return c1[1] == c2[1]
    if "type" in (k1, k2):
        t = c1[1] if k1 == "type" else c2[1]
        return t == "NAME"
    return True


def sets_overlap(f1, f2, kw, skw) -> bool:
    return any(overlap(a, b, kw, skw) for a in f1 for b in f2)


class MemoDiscipline:
    def __init__(self, facts: Facts, keywords, soft_keywords):
        self.f = facts
        self.rules = facts.rules
        self.kw = set(keywords or ())
        self.skw = set(soft_keywords or ())
        facts.compute_first()
        self.memo = {n: r.decorator in ("memoize", "memoize_left_rec") for n, r in self.rules.items()}
        self.leader = {n: r.decorator == "memoize_left_rec" for n, r in self.rules.items()}
        self._e0 = {}
        self._paths = {}

    # --- per alternative: for each same-index segment, how often is S called at the segment's index
    def alt_segments(self, a: Alt):
        segs = [dict()]
        for it in a.items:
            if it.is_cut or it.is_gate:
                continue
            for c in self.f.pe_sameidx_calls(it.pe):
                segs[-1][c] = segs[-1].get(c, 0) + 1
            if not self.f.item_nullable(it):
                segs.append(dict())
        return segs

    def compat_groups(self, rname: str):
        """-> (alts, groups): groups = sets of alternative indices that one and the same first token can enter.
        A concrete first token is either one of the literals mentioned (then an alternative is entered iff its first
        set holds that literal or a non-literal class containing it) or some other token of a non-literal class."""
        r = self.rules[rname]
        alts = self.f.alts(r)
        firsts = [self.f.alt_first(a) for a in alts]
        n = len(alts)
        always = {i for i in range(n) if not firsts[i]}
        lits = {c for f in firsts for c in f if c[0] == "lit"}
        nonlits = {c for f in firsts for c in f if c[0] != "lit"}
        groups = []
        for c in sorted(lits) + sorted(nonlits):
            if c[0] == "lit":
                g = {i for i in range(n) if any(overlap(c, d, self.kw, self.skw) for d in firsts[i])}
            else:
                g = {i for i in range(n) if any(d[0] != "lit" and overlap(c, d, self.kw, self.skw) for d in firsts[i])}
            g |= always
            if g and not any(g <= h for h in groups):
                groups = [h for h in groups if not h <= g] + [g]
        if not groups:
            groups = [set(range(n))]
        return alts, groups

    def seg_closure(self, seg: dict):
        """Q -> (#evaluations of Q at the index of this segment, chain): direct sites + entry-index closure of the
        un-memoised rules called here"""
        out = {}
        for s, n in seg.items():
            if s not in self.rules or self.memo.get(s):
                continue
            c0, ch0 = out.get(s, (0, None))
            out[s] = (min(2, c0 + n), ch0 or [s])
            for q, (m, ch) in self.a0star(s).items():
                c1, ch1 = out.get(q, (0, None))
                out[q] = (min(2, c1 + n * m), ch1 or ([s] + ch))
        return out

    def _combine(self, rname: str, entry_only: bool):
        alts, groups = self.compat_groups(rname)
        per_alt = []
        for a in alts:
            segs = self.alt_segments(a)
            if entry_only:
                segs = segs[:1]
            best = {}
            for seg in segs:
                for q, (m, ch) in self.seg_closure(seg).items():
                    if m > best.get(q, (0, None))[0]:
                        best[q] = (m, ch)
            per_alt.append(best)
        res = {}
        for g in groups:
            tot = {}
            for j in sorted(g):
                for q, (m, ch) in per_alt[j].items():
                    c0, ch0 = tot.get(q, (0, None))
                    tot[q] = (min(2, c0 + m), ch0 if (ch0 and c0 >= m) else ch)
            for q, (m, ch) in tot.items():
                if m > res.get(q, (0, None))[0]:
                    res[q] = (m, [rname] + ch)
        return res

    def a0star(self, rname: str):
        """Q -> evaluations of Q at R's ENTRY index within one activation of R (through un-memoised intermediates)"""
        if rname in self._e0:
            return self._e0[rname]
        self._e0[rname] = {}          # same-index recursion only through memoised leaders (cut); guard anyway
        res = self._combine(rname, entry_only=True)
        self._e0[rname] = res
        return res

    def estar(self, rname: str):
        """Q -> (max #evaluations of Q at one index within one activation of R, capped at 2; witness chain)"""
        if rname in self._paths:
            return self._paths[rname]
        res = self._combine(rname, entry_only=False)
        self._paths[rname] = res
        return res

    def u_graph(self):
        """any-index call graph restricted to un-memoised rules"""
        g = {}
        for n, r in self.rules.items():
            if self.memo[n]:
                continue
            g[n] = sorted({c for c, _a, _i in self.f.all_calls(r) if c in self.rules and not self.memo[c]})
        return g

    def violations(self, roots):
        reach = self.f.reachable(roots)
        g = self.u_graph()
        # reachability inside U
        reach_u = {}
        for n in g:
            seen, todo = set(), [n]
            while todo:
                x = todo.pop()
                for y in g.get(x, ()):
                    if y not in seen:
                        seen.add(y)
                        todo.append(y)
            reach_u[n] = seen
        out = []
        pairs_checked = 0
        for r in sorted(g):
            if r not in reach:
                continue
            es = self.estar(r)
            for q, (cnt, chain) in sorted(es.items()):
                if q not in g:
                    continue
                pairs_checked += 1
                if cnt >= 2 and r in reach_u.get(q, ()):
                    back = self.path_in(g, q, r)
                    out.append({"R": r, "Q": q, "evaluations_of_Q_at_one_index": cnt, "same_index_chain": chain,
                                "return_path_unmemoised": back})
        return out, pairs_checked

    @staticmethod
    def path_in(g, a, b):
        prev = {a: None}
        todo = [a]
        while todo:
            x = todo.pop(0)
            for y in g.get(x, ()):
                if y not in prev:
                    prev[y] = x
                    if y == b:
                        p = [y]
                        while prev[p[-1]] is not None:
                            p.append(prev[p[-1]])
                        return p[::-1]
                    todo.append(y)
        return [a] if a == b else None
