"""Facts about the generated parser, computed on the extracted IR and *checked* as inductive invariants.

Every fact is a per-method contract clause in the sense of DESIGN 3.3: it is inferred as a fixpoint over the IR and
holds for every token sequence and start index by fixpoint induction (assume the clause for every callee, prove it
for the body; partial correctness), made total by the ranking obligation L1.

  nullable(R)        R may succeed without consuming a token        (least fixpoint; complement = strict progress)
  sameidx graph      R calls S while the index is still the entry index of R
  rank               integer certificate: every same-index call goes to a smaller rank unless the callee is a
                     @memoize_left_rec leader (whose wrapper primes the cache before running the body)
  eof(R)             R may consume the ENDMARKER token
  first(R)           token classes that can be the first consumed token of a success
  must(R, X)         every success of R consumes at least one token of class X   (any fixpoint is sound: induction
                     on the finite derivation of a success)
"""
from __future__ import annotations

from dataclasses import dataclass
from typing import Iterable, Optional

from .pegir import PE, Alt, Item, ParserIR, Rule, walk_pe

LEAF_KINDS = {"expect", "token", "name", "keyword", "soft_keyword", "any_token",
              "string", "op", "number", "type_comment", "fstring_start", "fstring_middle", "fstring_end"}


class Facts:
    def __init__(self, ir: ParserIR, second_pass: bool = True):
        """second_pass=False: alternatives gated by `self.call_invalid_rules` are excluded (first-pass semantics)."""
        self.ir = ir
        self.second_pass = second_pass
        self.rules = ir.rules
        self._nullable: dict = {}
        self.compute_nullable()

    # ---------------------------------------------------------------- alternatives in force
    def alts(self, r: Rule) -> list:
        if self.second_pass:
            return r.alts
        return [a for a in r.alts if not a.gated]

    # ---------------------------------------------------------------- nullable
    def pe_nullable(self, pe: PE, optional: bool = False) -> bool:
        if optional:
            return True
        k = pe.kind
        if k in LEAF_KINDS:
            return False
        if k == "rule":
            return self._nullable.get(pe.arg, False)
        if k in ("poslook", "neglook"):
            return True
        if k == "forced":
            return self.pe_nullable(pe.subs[0])
        if k == "repeated":          # non-optional use = one-or-more (a falsy [] fails the alternative)
            return self.pe_nullable(pe.subs[0])
        if k == "gathered":
            return self.pe_nullable(pe.subs[0])
        if k == "seq_alts":
            return any(self.pe_nullable(s) for s in pe.subs)
        raise ValueError(k)

    def item_nullable(self, it: Item) -> bool:
        if it.is_cut or it.is_gate:
            return True
        return self.pe_nullable(it.pe, it.optional)

    def alt_nullable(self, a: Alt) -> bool:
        return all(self.item_nullable(i) for i in a.items)

    def compute_nullable(self):
        self._nullable = {n: False for n in self.rules}
        changed = True
        while changed:
            changed = False
            for n, r in self.rules.items():
                if self._nullable[n]:
                    continue
                if r.shape == "loop":
                    v = r.loop_kind == "loop0" or self.alt_nullable(r.alts[0])
                else:
                    v = any(self.alt_nullable(a) for a in self.alts(r))
                if v:
                    self._nullable[n] = True
                    changed = True

    def nullable(self, name: str) -> bool:
        return self._nullable.get(name, False)

    # ---------------------------------------------------------------- same-index calls
    def pe_sameidx_calls(self, pe: PE) -> Iterable[str]:
        """rules that `pe`, evaluated at index i, may call while the index is still i"""
        k = pe.kind
        if k == "rule":
            yield pe.arg
        elif k in ("poslook", "neglook", "forced", "repeated"):
            yield from self.pe_sameidx_calls(pe.subs[0])
        elif k == "gathered":
            yield from self.pe_sameidx_calls(pe.subs[0])
            if self.pe_nullable(pe.subs[0]):
                yield from self.pe_sameidx_calls(pe.subs[1])
        elif k == "seq_alts":
            for s in pe.subs:
                yield from self.pe_sameidx_calls(s)

    def sameidx_edges(self, r: Rule) -> list:
        """[(callee, alt index, item index)]"""
        out = []
        for ai, a in enumerate(r.alts):
            if a.gated and not self.second_pass:
                continue
            for ii, it in enumerate(a.items):
                if it.is_cut or it.is_gate:
                    continue
                for c in self.pe_sameidx_calls(it.pe):
                    out.append((c, ai, ii))
                if not self.item_nullable(it):
                    break
        return out

    def all_calls(self, r: Rule) -> list:
        out = []
        for ai, a in enumerate(r.alts):
            if a.gated and not self.second_pass:
                continue
            for ii, it in enumerate(a.items):
                if it.pe is None:
                    continue
                for p in walk_pe(it.pe):
                    if p.kind == "rule":
                        out.append((p.arg, ai, ii))
        return out

    def reachable(self, roots: Iterable[str]) -> set:
        seen = set()
        todo = [r for r in roots if r in self.rules]
        while todo:
            n = todo.pop()
            if n in seen:
                continue
            seen.add(n)
            for c, _a, _i in self.all_calls(self.rules[n]):
                if c in self.rules and c not in seen:
                    todo.append(c)
        return seen

    # ---------------------------------------------------------------- ENDMARKER consumption
    def compute_eof(self) -> dict:
        """eof[R]: R may consume the ENDMARKER token on some path (successful or not)"""
        eof = {n: False for n in self.rules}

        def pe_eof(pe: PE) -> bool:
            if pe.kind == "token" and pe.arg == "ENDMARKER":
                return True
            if pe.kind == "expect" and pe.arg in ("", "ENDMARKER"):
                return True
            if pe.kind == "any_token":
                return True
            if pe.kind == "rule":
                return eof.get(pe.arg, False)
            return any(pe_eof(s) for s in pe.subs)

        changed = True
        while changed:
            changed = False
            for n, r in self.rules.items():
                if eof[n]:
                    continue
                if any(it.pe is not None and pe_eof(it.pe) for a in self.alts(r) for it in a.items):
                    eof[n] = True
                    changed = True
        self._pe_eof = pe_eof
        return eof

    # ---------------------------------------------------------------- first sets
    def compute_first(self) -> dict:
        first = {n: frozenset() for n in self.rules}

        def pe_first(pe: PE) -> frozenset:
            k = pe.kind
            if k == "expect":
                return frozenset({("lit", pe.arg)})
            if k == "token":
                return frozenset({("type", pe.arg)})
            if k in LEAF_KINDS:
                return frozenset({(k,)})
            if k == "rule":
                return first.get(pe.arg, frozenset())
            if k in ("poslook", "neglook"):
                return frozenset()
            if k in ("forced", "repeated"):
                return pe_first(pe.subs[0])
            if k == "gathered":
                f = pe_first(pe.subs[0])
                if self.pe_nullable(pe.subs[0]):
                    f |= pe_first(pe.subs[1])
                return f
            if k == "seq_alts":
                f = frozenset()
                for s in pe.subs:
                    f |= pe_first(s)
                return f
            raise ValueError(k)

        def alt_first(a: Alt) -> frozenset:
            f = frozenset()
            for it in a.items:
                if it.is_cut or it.is_gate:
                    continue
                f |= pe_first(it.pe)
                if not self.item_nullable(it):
                    break
            return f

        changed = True
        while changed:
            changed = False
            for n, r in self.rules.items():
                f = frozenset()
                for a in self.alts(r):
                    f |= alt_first(a)
                if f != first[n]:
                    first[n] = f
                    changed = True
        self.pe_first = pe_first
        self.alt_first = alt_first
        self.first = first
        return first

    # ---------------------------------------------------------------- must-consume
    def compute_must(self, lits: set, types: set, leaf_kinds: set = frozenset()) -> dict:
        """greatest fixpoint of: must[R] = every alternative has a mandatory item that must consume a token in X"""
        must = {n: True for n in self.rules}

        def pe_must(pe: PE) -> bool:
            k = pe.kind
            if k == "expect":
                return pe.arg in lits
            if k == "token":
                return pe.arg in types
            if k in LEAF_KINDS:
                return k in leaf_kinds
            if k == "rule":
                return must.get(pe.arg, False)
            if k in ("poslook", "neglook"):
                return False
            if k in ("forced", "repeated"):
                return pe_must(pe.subs[0])
            if k == "gathered":
                return pe_must(pe.subs[0])
            if k == "seq_alts":
                return all(pe_must(s) for s in pe.subs)
            raise ValueError(k)

        def alt_must(a: Alt) -> bool:
            return any((not it.optional) and it.pe is not None and pe_must(it.pe) for it in a.items)

        changed = True
        while changed:
            changed = False
            for n, r in self.rules.items():
                if not must[n]:
                    continue
                if r.shape == "loop" and r.loop_kind == "loop0":
                    v = False
                else:
                    v = all(alt_must(a) for a in self.alts(r)) and bool(self.alts(r))
                if not v:
                    must[n] = False
                    changed = True
        self.pe_must = pe_must
        self.alt_must = alt_must
        return must


def find_cycle(nodes: Iterable[str], edges: dict) -> Optional[list]:
    """a cycle in the directed graph (iterative DFS), as a list of nodes, or None"""
    WHITE, GREY, BLACK = 0, 1, 2
    color = {n: WHITE for n in nodes}
    for root in list(color):
        if color[root] != WHITE:
            continue
        stack = [(root, iter(edges.get(root, ())))]
        path = [root]
        color[root] = GREY
        while stack:
            n, it = stack[-1]
            for m in it:
                if m not in color:
                    continue
                if color[m] == GREY:
                    return path[path.index(m):] + [m]
                if color[m] == WHITE:
                    color[m] = GREY
                    path.append(m)
                    stack.append((m, iter(edges.get(m, ()))))
                    break
            else:
                color[n] = BLACK
                stack.pop()
                path.pop()
    return None
