"""E5 `frames` -- effect / ownership obligations on the parse path (C13, C14, C12).

Per function of the hand-written modules and the generated parser: it may write only locals, fields of `self`/`state`/objects
it received or created, never module-level objects; no `global`/`nonlocal`; no ambient source of nondeterminism; memoising
decorators only on audited functions returning immutable values; class bodies hold no mutable literals.
Syntactic analysis on the real source (ast); sound for the violations it looks for, blind to aliasing through containers.
"""
from __future__ import annotations

import ast
import os

MUTATORS = {"append", "extend", "insert", "pop", "remove", "clear", "add", "update", "discard", "setdefault", "popitem", "sort", "reverse"}
AMBIENT_CALLS = {"time", "random", "getenv", "urandom", "id", "hash", "now", "today", "getpid", "environ"}
AUDITED_CACHES = {("peg_parser/tokenize.py", "_compile"): "returns a compiled re.Pattern (immutable, thread-safe); key = the pattern string"}


def module_names(tree: ast.Module):
    names = set()
    for n in tree.body:
        if isinstance(n, (ast.Assign, ast.AnnAssign, ast.AugAssign)):
            tg = n.targets if isinstance(n, ast.Assign) else [n.target]
            for t in tg:
                for x in ast.walk(t):
                    if isinstance(x, ast.Name):
                        names.add(x.id)
        elif isinstance(n, (ast.Import, ast.ImportFrom)):
            for a in n.names:
                names.add((a.asname or a.name).split(".")[0])
        elif isinstance(n, (ast.FunctionDef, ast.ClassDef)):
            names.add(n.name)
    return names


def local_names(fn: ast.FunctionDef):
    out = {a.arg for a in fn.args.args + fn.args.kwonlyargs + fn.args.posonlyargs}
    if fn.args.vararg:
        out.add(fn.args.vararg.arg)
    if fn.args.kwarg:
        out.add(fn.args.kwarg.arg)
    for n in ast.walk(fn):
        if isinstance(n, ast.Name) and isinstance(n.ctx, ast.Store):
            out.add(n.id)
        elif isinstance(n, (ast.Import, ast.ImportFrom)):
            for a in n.names:
                out.add((a.asname or a.name).split(".")[0])
        elif isinstance(n, ast.ExceptHandler) and n.name:
            out.add(n.name)
    return out


def base_name(e):
    while isinstance(e, (ast.Attribute, ast.Subscript)):
        e = e.value
    return e.id if isinstance(e, ast.Name) else None


def function_problems(rel: str, fn: ast.FunctionDef, mod_names: set, class_names: set):
    probs = []
    locs = local_names(fn)
    # a mutable default value is evaluated once, at definition time: it is storage shared by every call (and every thread)
    a = fn.args
    pos = a.posonlyargs + a.args
    for arg, dflt in list(zip(pos[len(pos) - len(a.defaults):], a.defaults)) + [(k, d) for k, d in zip(a.kwonlyargs, a.kw_defaults) if d is not None]:
        if isinstance(dflt, (ast.List, ast.Dict, ast.Set, ast.ListComp, ast.DictComp, ast.SetComp)) or \
                (isinstance(dflt, ast.Call) and isinstance(dflt.func, ast.Name) and dflt.func.id in ("list", "dict", "set", "defaultdict", "deque", "bytearray")):
            probs.append(f"line {fn.lineno}: parameter `{arg.arg}` has a mutable default `{ast.unparse(dflt)[:40]}`: one object shared by all calls of `{fn.name}`")
    for n in ast.walk(fn):
        if isinstance(n, (ast.Global, ast.Nonlocal)):
            probs.append(f"line {n.lineno}: `{type(n).__name__.lower()} {', '.join(n.names)}`")
        tg = []
        if isinstance(n, ast.Assign):
            tg = n.targets
        elif isinstance(n, (ast.AugAssign, ast.AnnAssign)):
            tg = [n.target]
        elif isinstance(n, ast.Delete):
            tg = n.targets
        for t in tg:
            for x in ([t] if not isinstance(t, (ast.Tuple, ast.List)) else t.elts):
                if isinstance(x, (ast.Attribute, ast.Subscript)):
                    b = base_name(x)
                    if b is not None and b not in locs and (b in mod_names or b in class_names):
                        probs.append(f"line {n.lineno}: store to module-level object `{ast.unparse(x)[:60]}`")
                    if b == "cls" or (isinstance(x, ast.Attribute) and ast.unparse(x.value).endswith("__class__")):
                        probs.append(f"line {n.lineno}: store to a class attribute `{ast.unparse(x)[:60]}`")
        if isinstance(n, ast.Call) and isinstance(n.func, ast.Attribute) and n.func.attr in MUTATORS:
            b = base_name(n.func.value)
            if b is not None and b not in locs and b in mod_names:
                probs.append(f"line {n.lineno}: mutating call on module-level object `{ast.unparse(n)[:60]}`")
        if isinstance(n, ast.Call):
            f = n.func
            nm = f.id if isinstance(f, ast.Name) else (f.attr if isinstance(f, ast.Attribute) else None)
            if nm in AMBIENT_CALLS and not (isinstance(f, ast.Name) and nm in locs):
                probs.append(f"line {n.lineno}: ambient source of nondeterminism `{ast.unparse(n)[:50]}`")
        if isinstance(n, ast.Attribute) and n.attr == "environ":
            probs.append(f"line {n.lineno}: reads os.environ")
    return probs


def analyse_module(repo: str, rel: str):
    """-> list of (object id suffix, description, problems[])"""
    tree = ast.parse(open(os.path.join(repo, rel), encoding="utf-8").read())
    mod_names = module_names(tree) - {"self"}
    class_names = {n.name for n in tree.body if isinstance(n, ast.ClassDef)}
    out = []

    def visit(body, prefix):
        for n in body:
            if isinstance(n, ast.FunctionDef):
                q = f"{prefix}{n.name}"
                probs = function_problems(rel, n, mod_names, class_names)
                for d in n.decorator_list:
                    dn = ast.unparse(d)
                    if "cache" in dn and (rel, n.name) not in AUDITED_CACHES:
                        probs.append(f"line {n.lineno}: `@{dn}` memoises `{n.name}` across calls: its results would be shared between parses (not an audited, immutable-result cache)")
                out.append((q, f"{rel}:{q} writes only state owned by its activation / its receiver; no global, ambient read or shared memo", probs))
                visit([x for x in n.body if isinstance(x, (ast.FunctionDef, ast.ClassDef))], q + ".")
            elif isinstance(n, ast.ClassDef):
                probs = []
                for s in n.body:
                    if isinstance(s, (ast.Assign, ast.AnnAssign)) and getattr(s, "value", None) is not None:
                        v = s.value
                        if isinstance(v, (ast.Dict, ast.List, ast.Set, ast.ListComp, ast.DictComp, ast.SetComp)) or \
                                (isinstance(v, ast.Call) and isinstance(v.func, ast.Name) and v.func.id in ("dict", "list", "set", "defaultdict")):
                            probs.append(f"line {s.lineno}: class attribute `{ast.unparse(s)[:60]}` is a mutable object shared by all instances")
                out.append((f"{prefix}{n.name}.<class-body>", f"{rel}: class {n.name} holds no mutable class-level object", probs))
                visit(n.body, f"{prefix}{n.name}.")
    visit(tree.body, "")
    return out
