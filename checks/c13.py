"""C13 -- parsing is a pure function: deterministic, history-free, thread-safe.

Proved (E5 frames, syntactic on the real sources): every function on the parse path (tokenize.py, tokenizer.py, subheader.py
and all generated methods) writes only locals and state reachable from its receiver/arguments; no global/nonlocal, no store
or mutating call on a module-level object (OPS, endpats, EXPR_NAME_MAPPING, the Load/Store/Del singletons), no class-level
mutable object, no ambient nondeterminism; memoising decorators only on the audited `_compile`.  Order independence of the
one set iterated at import (string prefixes): no prefix contains a quote character, so at most one alternative can be followed
by a quote at a given position (the regex result does not depend on hash-seed order).
Corollary argued in prose (standard non-interference): equal inputs and options give equal results whatever ran before or
concurrently.  Assumed: lru_cache / re's pattern cache are transparent and thread-safe; aliasing through containers.
Bounded: permuted histories, repeats, 8 threads vs first results; object identity of nodes across calls.
"""
from __future__ import annotations

import json
import time

from checks import pool, rxload
from checks.common import REPO, Report, StandIn, json_from, run_py
from engine import frames

MODULES = ["peg_parser/tokenize.py", "peg_parser/tokenizer.py", "peg_parser/subheader.py", "peg_parser/parser.py"]


def frame_obligations(rep: Report, prop="C13"):
    for rel in MODULES:
        try:
            items = frames.analyse_module(REPO, rel)
        except SyntaxError as e:
            rep.undecided(f"{prop}.frame.{rel}", "frame", f"parse {rel}", "frames", repr(e))
            continue
        for q, desc, probs in items:
            oid = f"{prop}.frame.{rel.split('/')[-1]}.{q}"
            if probs:
                rep.fail(oid, "frame", desc, "frames", "; ".join(probs[:4]), witness=probs[:6], function=f"{rel}:{q}")
            else:
                rep.ok(oid, "frame", desc, "frames", function=f"{rel}:{q}")


def run(rep: Report):
    rep.trust("CPython ast", "engine/frames.py (syntactic effect analysis, ~150 lines)")
    rep.assume("functools.lru_cache and re's compiled-pattern cache are transparent and thread-safe (documented behaviour)",
               "no aliasing of module-level mutable objects through containers or returned references (syntactic analysis)",
               "non-interference corollary (results depend only on text and options) is argued in prose from the frame obligations",
               "CPython's own ast node classes and the GIL-protected dict/list operations used are thread-safe")
    frame_obligations(rep)
    d = rxload.patterns()
    bad = [p for p in d["prefixes"] if "'" in p or '"' in p]
    if bad:
        rep.fail("C13.order.prefixes", "lemma", "no string prefix contains a quote character (StringStart alternation is order-independent)", "syntactic",
                 f"prefixes with quotes: {bad}", witness=bad)
    else:
        rep.ok("C13.order.prefixes", "lemma", f"none of the {len(d['prefixes'])} string prefixes (a set, iterated in hash order at import) contains a quote "
               "character, and every prefix alternative is followed by a mandatory quote: at most one alternative matches, whatever the order", "syntactic",
               function="peg_parser/tokenize.py:_all_string_prefixes")
    t0 = time.time()
    srcs = pool.PY_STMTS[:45] + pool.XSH_STMTS + ["x y z\n", "def f(:\n", "f!(a)\nx y z\n", "'a' f'b{c}'\n", "p'/tmp' f'/{u}/x'\n", "a = p\"/usr\" pf\"/{name}\"\n",
                                                  "b = \"plain\"\n", "greeting = 'Hello, ' f'dear {name}!'\n", "with! a:\n  b\n", "x = 'abc' + y\n", "$(echo! hi)\n", "f!(x, y)\n",
                                                  # failing parses that leave a macro / bracket / string scan half-way, and valid uses of the same features after them
                                                  "f!(a[)\n", "f!((x\n", "f!(x, [1, 2])\n", "y = g!(a)\n", "with! c:\n    # only a comment\n", "with! c:\n    b\n", "$(echo! a  b\n",
                                                  "$(echo! a  b)\n", "x = f'{a\n", "x = f'{a}'\n", "x = \"\"\"abc\n", "s = 'a' 'b'\n", "$(ls (a))\n", "$(echo (hi))\n$(echo! hello  world)\n"]
    rounds = 3 if rep.tier == "quick" else 20
    rc, out, err = run_py("harness/purity.py", [], timeout=3600, stdin=json.dumps({"pool": srcs, "seed": rep.seed, "rounds": rounds}))
    si = StandIn("history-and-threads", f"{len(srcs)} inputs (Python, xonsh, macros, path literals, f-strings, failing ones) x {rounds} permuted histories + 8 threads; "
                 "results and node identities compared with the first parse in the process")
    if rc != 0:
        rep.undecided("C13.standin.run", "bounded", "run the purity stand-in", "cpython-exec", err[-600:])
    else:
        d2 = json_from(out)
        si.evaluations = d2["evaluations"]
        si.distinct_nontrivial = len(srcs)
        for f in d2["failures"]:
            si.failures.append({"input": f["input"], "site": "impure", "what": f["what"], "observed": f["observed"]})
        si.samples = srcs[:3]
    si.seconds = time.time() - t0
    rep.standins.append(si)
