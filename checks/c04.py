"""C04 -- every returned tree is a well-formed, compilable CPython AST.

Proved (all inputs, on the real generated parser's IR): typing of every action expression of every rule reachable from the
entry points against the ASDL of the running CPython (dumped at check time): every keyword of a constructor call is a field
or position attribute of the node class, every required field is supplied, position attributes are supplied for nodes that
carry them, each value's abstract type fits the field (a list for `*`, None only for `?`, node category) and expression
contexts are Store at binding targets, Del at del targets, Load elsewhere.  span: >= 1 non-layout token is consumed before
LOCATIONS is used (so start <= end) -- via strict progress of the alternative (E2) and the span contracts (E1).
Assumed: our reading of what compile() requires (PyAST_Validate) -- validated by the bounded stand-in: compile() on the
tree of every pool program, Python and xonsh, plus ast.unparse round trip.
"""
from __future__ import annotations

import os
import re
import time

from checks import e1common, irload, oracle, pool, refcommon
from checks.common import REPO, Report, StandIn
from engine.pegfacts import Facts
from engine.pegtypes import Typer, fmt


def typing_obligations(rep: Report):
    ir = irload.ir("xonsh")
    asdl = refcommon.asdl_fields()
    src = open(os.path.join(REPO, "peg_parser/tokenize.py"), encoding="utf-8").read() + open(os.path.join(REPO, "peg_parser/tokenizer.py"), encoding="utf-8").read()
    emitted = set(re.findall(r"Token\.([A-Z_]+)", src))
    facts = Facts(ir, True)
    reach = facts.reachable(["file", "eval"])
    t0 = time.time()
    ty = Typer(ir, asdl, emitted, reach)
    probs = ty.run()
    dt = time.time() - t0
    by = {}
    for p in probs:
        by.setdefault((p.rule, p.alt), []).append(p)
    n = 0
    for name in sorted(reach):
        r = ir.rules[name]
        for ai, a in enumerate(r.alts):
            if a.action is None and r.shape != "seq_alts":
                continue
            n += 1
    for name in sorted(reach):
        r = ir.rules[name]
        for ai, a in enumerate(r.alts):
            if r.shape == "seq_alts" or a.action is None:
                continue
            oid = f"C04.type.{name}.alt{ai + 1}"
            fn = f"peg_parser/parser.py:XonshParser.{name}"
            desc = f"action of `{name}` alt {ai + 1} is well-typed against the ASDL (keywords are fields, required fields and positions supplied, lists/None/contexts fit)"
            ps = by.get((name, ai))
            if ps:
                rep.fail(oid, "typing", desc, "pegir-types", "; ".join(f"[{p.kind}] {p.text}" for p in ps[:4]),
                         witness=[p.text for p in ps[:6]], seconds=dt / max(1, n), function=fn)
            else:
                rep.ok(oid, "typing", desc, "pegir-types", dt / max(1, n), function=fn)
    rep.extra["typing"] = {"constructor_fields_checked": ty.checked, "fields_of_unknown_abstract_type_unchecked": ty.unchecked,
                           "token_types_the_tokenizer_emits": sorted(emitted),
                           "sample_rule_types": {k: fmt(ty.rtype[k]) for k in ("file", "star_targets", "del_targets", "atom", "arguments", "params", "strings")}}
    # span: an alternative that uses LOCATIONS consumes at least one token before its action (start <= end, both on tokens)
    for name in sorted(reach):
        r = ir.rules[name]
        if not r.uses_span:
            continue
        for ai, a in enumerate(r.alts):
            if a.action is None or "span" not in __import__("ast").unparse(a.action):
                continue
            oid = f"C04.span.{name}.alt{ai + 1}"
            if facts.alt_nullable(a):
                rep.fail(oid, "span", f"`{name}` alt {ai + 1} consumes >= 1 token before its LOCATIONS are computed", "pegir-fixpoint",
                         "the alternative can succeed without consuming a token: the end position is that of a token BEFORE the start",
                         witness={"rule": name, "alt": ai + 1}, function=f"peg_parser/parser.py:XonshParser.{name}")
            else:
                rep.ok(oid, "span", f"`{name}` alt {ai + 1} consumes >= 1 token before its LOCATIONS are computed (start <= end, both token coordinates)",
                       "pegir-fixpoint", function=f"peg_parser/parser.py:XonshParser.{name}")


def make_arguments_call_sites(rep: Report):
    """precondition of Parser.make_arguments (E1): every call passes either no `/`-parameters without default (None) or no `/`-parameters
    with default ([]) -- then the positional defaults it collects never outnumber the positional parameters"""
    import ast as _ast
    rel = "peg_parser/parser.py"
    try:
        tree = _ast.parse(open(os.path.join(REPO, rel), encoding="utf-8").read())
    except (OSError, SyntaxError) as e:
        rep.undecided("C04.callsite.make_arguments", "pre", f"parse {rel}", "frames", repr(e))
        return
    calls = [n for n in _ast.walk(tree) if isinstance(n, _ast.Call) and isinstance(n.func, _ast.Attribute) and n.func.attr == "make_arguments"]
    bad = [f"line {n.lineno}: `{_ast.unparse(n)[:70]}`" for n in calls
           if not (len(n.args) == 5 and not n.keywords and ((isinstance(n.args[0], _ast.Constant) and n.args[0].value is None)
                                                            or (isinstance(n.args[1], _ast.List) and not n.args[1].elts)))]
    desc = f"all {len(calls)} calls of make_arguments in the generated parser pass None for the plain `/`-parameters or [] for those with defaults (precondition of its contract)"
    if bad or not calls:
        rep.fail("C04.callsite.make_arguments", "pre", desc, "frames", "; ".join(bad[:3]) or "no call found", witness=bad[:5], function=f"{rel}:XonshParser")
    else:
        rep.ok("C04.callsite.make_arguments", "pre", desc, "frames", function=f"{rel}:XonshParser")


def standin(rep: Report):
    t0 = time.time()
    srcs = pool.PY_STMTS + pool.XSH_STMTS
    for _n, f in pool.data_files():
        srcs.extend(pool.split_statements(f)[: (30 if rep.tier == "quick" else 300)])
    xsh = os.path.join(REPO, "tests", "data", "statements.xsh")
    ctx = ["x = {0}\n", "f({0}, k={0})\n", "[{0} for i in {0}]\n", "if {0}: pass\n", "{0}.a[{0}]\n", "lambda: {0}\n", "x = ({0}, *{0})\n", "with {0} as y: pass\n",
           "assert {0}, {0}\n", "return_ = {0} if {0} else {0}\n", "x = {{{0}: {0}}}\n", "print(f'{{{0}}}')\n"]
    sugar = ["$X", "${'a' + b}", "$(ls -l)", "$[ls]", "!(ls)", "![ls -l]", "`.*py`", "p'/tmp'", "a?", "a??", "(a && b)", "(a || b)", "f!(x y)", "$(echo @(x) @$(which y) $Z a$Q/b)"]
    for c in ctx:
        for s in sugar:
            srcs.append(c.format(s))
    srcs += ["$X = 1\n", "${'x'} = 2\n", "for $I in y: pass\n", "with a as $B: pass\n", "x = [$A for $A in y]\n", "$X, y = 1, 2\n", "($X) = 1\n", "*$R, x = [1, 2]\n",
             "(a.b) = 1\n", "del (a.b), (c[0])\n", "*a.b, c = x\n", "x = (a[i]) * 2\n", "x = *a[i], b\n", "() = x\n", "[] = x\n", "del ()\n", "def f(*a: *b): pass\n",
             "match x:\n    case [_, *_]: pass\n    case {**r}: pass\n", "with! a:\n    b c\n", "with! a as b: x y\n",
             # with-macro bodies without any statement token / ending in comments and blank lines (round-5 seed C04e: span of the captured body)
             "with! a:\n    # only a comment\n", "with! a as b:\n    # c\n\n    # d\n", "with! a:\n    x y\n    # trailing\n", "with! a:\n    # only a comment"]
    # constructs continued on a later line inside brackets (spans cross lines; columns of the two lines are unrelated)
    sugar_ml = ["a?\n  .b?", "a??\n .b?\n .c??", "$(ls\n        -l)", "![echo $H\n         /tmp]", "f!(x,\n y)", "${'a' +\n b}", "(a &&\n b)", "!(ls\n)", "g`a*`\n"]
    for c in ["result = ({0})\n", "print('look it up:', {0})\n", "r = [1, 2, some.where, {0}\n]\n", "x = {{'k':\n {0}}}\n"]:
        for s in sugar_ml:
            srcs.append(c.format(s))
    # subprocess words glued to a token that spans lines (the merged node's end lies on another line than its start)
    for op, cl in (("$(", ")"), ("$[", "]"), ("![", "]"), ("!(", ")")):
        for word in ['--msg="""hello\nworld"""', "-v'''%s\n''' x", 'a"""b\n\nc\n"""d', 'pre$(ls\n  -l)post', "k=@(a,\n b)"]:
            srcs.append(f"x = {op}echo {word}{cl}\n")
            srcs.append(f"def f():\n    return {op}printf {word} @(y) done{cl}\n")
    # every source also in its layout variants (CRLF, no final newline, tabs, form feed, leading comment): spans are layout-sensitive
    srcs = list(dict.fromkeys(v for s in dict.fromkeys(srcs) for v in (pool.layouts(s) if len(s) < 400 else [s])))
    res = oracle.run("parse", [{"src": s, "mode": "exec", "compile": True, "unparse": True, "spans": True} for s in srcs])
    si = StandIn("compile-every-tree", f"{len(srcs)} sources (Python pool, xonsh pool, {len(sugar)} xonsh constructs x {len(ctx)} expression contexts, binding-target forms): "
                 "compile() must not report a malformed tree")
    for s, r in zip(srcs, res):
        si.evaluations += 1
        if not r.get("ok"):
            continue
        si.distinct_nontrivial += 1
        c = r.get("compile", "ok")
        if r.get("spans"):
            si.failures.append({"input": s, "site": "bad-span", "what": "; ".join(r["spans"][:3]), "observed": r["spans"]})
        elif c.startswith(("TypeError", "ValueError")):
            si.failures.append({"input": s, "site": "malformed-tree", "what": f"compile() reports a malformed tree: {c}", "observed": c})
        elif c.startswith("SyntaxError"):
            # semantic rejection is allowed only if the written-out Python is rejected too
            u = r.get("unparse") or ""
            if u and not u.startswith("<"):
                try:
                    compile(u, "<u>", "exec")
                    si.failures.append({"input": s, "site": "semantic-mismatch", "what": f"compile(tree) rejects ({c}) but the written-out Python compiles", "observed": u[:200]})
                except SyntaxError:
                    pass
    si.samples = srcs[:3]
    si.seconds = time.time() - t0
    rep.standins.append(si)


def run(rep: Report):
    rep.trust("CPython ast + compile() as arbiter of well-formedness", "engine/pegir extractor", "engine/pegtypes abstract interpreter (own, ~400 lines)",
              "ASDL dumped from the running CPython (ast.<Node>._fields, docstring signatures)")
    rep.assume("our reading of PyAST_Validate: absent list fields read as empty, explicit None in a list field is an error, position attributes required "
               "for stmt/expr/... nodes (validated by compile() in the stand-in)",
               "builders of subheader.py have the declared result types (table BUILDERS); their bodies are specified in E1 only where under contract",
               "a field whose value has unknown abstract type is counted as unchecked, not as proved",
               "'rejects for semantic reasons only when the written-out Python is rejected too' is covered only by the stand-in")
    e1common.file_into(rep, "C04", rep.tier)
    typing_obligations(rep)
    make_arguments_call_sites(rep)
    standin(rep)
