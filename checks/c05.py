"""C05 -- xonsh expression sugar desugars identically in every expression context.

Proved (all inputs):
  * routing on the real generated parser (E2): every xonsh expression rule returns its builder's value unchanged; the xonsh
    alternatives of `primary` / `atom` / `target_with_star_atom` come where no earlier alternative can succeed on a xonsh
    opener (first-set disjointness), or precede the ordinary alternative they extend (L3 ordering: help before atom);
    `'||'`/`'&&'` reach the same action as `'or'`/`'and'` and the matched separator is not an input of the action; `$NAME` /
    `${e}` are alternatives of target_with_star_atom with ctx=Store, and assignment / for / with-as / comprehension targets all go
    through star_target(s);
  * SEARCH_PATH lexemes are exactly the documented backtick form (E3);
  * the builder bodies (E1, from their real source; the helpers load_attribute_chain / xonsh_call are executed inline): the tree
    returned by expand_env_name / expand_env_expr / expand_search_path / proc_pyexpr / handle_proc / proc_inject / macro_call /
    handle_with_macro_stmt / expand_help IS CPython's own parse of the documented translation text (spec function is_translation:
    `__xonsh__.env[S0]`, `__xonsh__.env[str(H0)]`, `__xonsh__.pathsearch(S0)`, `__xonsh__.<method>(*A0)`, `__xonsh__.help(H0)` ...),
    the context handed in (Load/Store) is the one stored, every built node carries the construct's four positions.
Assumed: the written-out translation parses to that tree in context (C01); elements of list arguments are distinct objects.  Bounded: 14 constructs x 40 contexts vs ast.parse of
the program with the translation written out (positions ignored; span of the construct node checked).
"""
from __future__ import annotations

import ast
import json
import time

from checks import e1common, irload, pool, rxload
from checks.c09 import SEARCH_PATH_SPEC, decide
from checks.common import Report, StandIn, json_from, run_py
from engine import rx
from engine.pegfacts import Facts
from engine.pegmemo import sets_overlap

CONSTRUCTS = [
    ("$HOME", "__xonsh__.env['HOME']"), ("${'a' + b}", "__xonsh__.env[str('a' + b)]"), ("$(ls -l)", "__xonsh__.subproc_captured('ls', '-l')"),
    ("$[ls -l]", "__xonsh__.subproc_uncaptured('ls', '-l')"), ("!(ls -l)", "__xonsh__.subproc_captured_object('ls', '-l')"),
    ("![ls -l]", "__xonsh__.subproc_captured_hiddenobject('ls', '-l')"), ("`.*\\.py`", "__xonsh__.pathsearch('`.*\\\\.py`')"),
    ("g`*.py`", "__xonsh__.pathsearch('g`*.py`')"), ("p'/tmp/x'", "__xonsh__.path_literal('/tmp/x')"), ("abc?", "__xonsh__.help(abc)"),
    ("abc??", "__xonsh__.superhelp(abc)"), ("a?.b?", "__xonsh__.help(__xonsh__.help(a).b)"), ("(u && v)", "(u and v)"), ("(u || v)", "(u or v)"),
    ("pf'/a/{b}/' f'{c}.txt'", "__xonsh__.path_literal(f'/a/{b}/' f'{c}.txt')"), ("pf'/a' f\"{'b'}\"", "__xonsh__.path_literal(f'/a' f\"{'b'}\")"),
    ("pf'/a/' 'b/' f'{c}'", "__xonsh__.path_literal(f'/a/' 'b/' f'{c}')"), ("p'/x' '/y'", "__xonsh__.path_literal('/x' '/y')"),
    ("pf'{d}/{p\"q\"}'", "__xonsh__.path_literal(f'{d}/{__xonsh__.path_literal(\"q\")}')"),
    ("$(echo $HOME @(x) @$(which y))", "__xonsh__.subproc_captured('echo', __xonsh__.env['HOME'], *__xonsh__.list_of_strs_or_callables(x), *__xonsh__.subproc_captured_inject('which', 'y'))"),
]
CONTEXTS = [
    "x = {0}\n", "f({0})\n", "f(a, k={0})\n", "[{0}]\n", "({0}, 1)\n", "{{{0}: 1}}\n", "{{1: {0}}}\n", "{{{0}}}\n", "x = {0} + 1\n", "x = 1 + {0}\n", "x = -{0}\n", "x = not {0}\n",
    "x = {0} if c else d\n", "x = c if {0} else d\n", "x = c if d else {0}\n", "x = {0} < 2\n", "x = [{0} for i in y]\n", "x = [i for i in {0}]\n", "x = [i for i in y if {0}]\n",
    "x = {{i: {0} for i in y}}\n", "if {0}: pass\n", "while {0}: pass\n", "for i in {0}: pass\n", "with {0} as w: pass\n", "assert {0}, {0}\n", "return_ = lambda: {0}\n",
    "def f(a={0}): pass\n", "def f() -> {0}: pass\n", "class A({0}): pass\n", "x = {0}.attr\n", "x = {0}[0]\n", "x = y[{0}]\n", "x = y[{0}:{0}]\n", "x = {0}(1)\n", "x = (yield {0})\n" if False else "x = a or {0}\n",
    "raise_(E({0}))\n", "x = f'{{{0}}}'\n", "x: int = {0}\n", "x = *{0}, 1\n", "print({0}, *{0}, **{{'k': {0}}})\n", "x = (y := {0})\n",
]
TARGETS = [
    ("$X = 1\n", "__xonsh__.env['X'] = 1\n", "$X"), ("${'a'} = 2\n", "__xonsh__.env[str('a')] = 2\n", "${'a'}"), ("for $I in y: pass\n", "for __xonsh__.env['I'] in y: pass\n", "$I"),
    ("with a as $B: pass\n", "with a as __xonsh__.env['B']: pass\n", "$B"), ("x = [$A for $A in y]\n", "x = [__xonsh__.env['A'] for __xonsh__.env['A'] in y]\n", None),
    ("$X, y = 1, 2\n", "__xonsh__.env['X'], y = 1, 2\n", "$X"), ("[$X, *${'r'}] = z\n", "[__xonsh__.env['X'], *__xonsh__.env[str('r')]] = z\n", None),
]

XONSH_OPENERS = {("lit", x) for x in ("$", "${", "$(", "$[", "!(", "![")} | {("type", "SEARCH_PATH")}


def routing_obligations(rep: Report):
    ir = irload.ir("xonsh")
    f = Facts(ir, second_pass=False)
    f.compute_first()
    kw, skw = set(ir.keywords or ()), set(ir.soft_keywords or ())
    # (i) rule -> builder table: the action IS the builder call (value returned unchanged)
    table = {("env_atom", 0): "expand_env_name", ("env_atom", 1): "expand_env_expr", ("search_path", 0): "expand_search_path",
             ("sub_procs", 0): "handle_proc", ("sub_procs", 1): "handle_proc", ("sub_procs", 2): "handle_proc", ("sub_procs", 3): "handle_proc",
             ("target_with_star_atom", 2): "expand_env_name", ("target_with_star_atom", 3): "expand_env_expr", ("primary", 7): "expand_help"}
    for (rule, ai), builder in table.items():
        r = ir.rules.get(rule)
        oid = f"C05.route.{rule}.alt{ai + 1}"
        act = r.alts[ai].action if r is not None and ai < len(r.alts) else None
        ok = (isinstance(act, ast.Call) and isinstance(act.func, ast.Attribute) and act.func.attr == builder and ast.unparse(act.func.value) == "self")
        desc = f"`{rule}` alt {ai + 1} returns self.{builder}(...) unchanged"
        if ok and rule == "target_with_star_atom":
            ok = any(k.arg == "ctx" and ast.unparse(k.value) == "Store" for k in act.keywords)
            desc += " with ctx=Store"
        if ok:
            rep.ok(oid, "routing", desc, "pegir-unify", function=f"peg_parser/parser.py:XonshParser.{rule}")
        else:
            rep.fail(oid, "routing", desc, "pegir-unify", f"action is `{ast.unparse(act)[:120] if act is not None else None}`", witness={"rule": rule, "alt": ai + 1})
    # (ii) in primary / atom: alternatives before a xonsh alternative cannot start with a xonsh opener; help precedes atom (L3)
    for rule in ("primary", "atom"):
        r = ir.rules[rule]
        firsts = [f.alt_first(a) for a in r.alts]
        for i, a in enumerate(r.alts):
            fa = firsts[i]
            if not (fa & XONSH_OPENERS):
                continue
            for j in range(i):
                if a.items and r.alts[j].items and str(r.alts[j].items[0]) == str(a.items[0]) and rule == "primary" and "primary" in str(a.items[0]):
                    continue
                # an earlier alternative that starts with the left-recursive leader itself only extends an already parsed primary
                lead = r.alts[j].real_items()[0].pe if r.alts[j].real_items() else None
                if lead is not None and lead.kind == "rule" and lead.arg in (rule, "func_macro_start"):
                    continue
                if "help_atom" in str(r.alts[j]):
                    continue            # covered by L3 below: the help alternative extends `atom` and must come first
                oid = f"C05.order.{rule}.alt{j + 1}.before.alt{i + 1}"
                desc = f"`{rule}`: alternative {j + 1} (tried before xonsh alternative {i + 1}) cannot start with a xonsh opener"
                if sets_overlap(firsts[j], fa & XONSH_OPENERS, kw, skw):
                    rep.fail(oid, "ordering", desc, "pegir-fixpoint", f"first sets overlap: {sorted(firsts[j] & fa)[:4]}", witness={"rule": rule, "earlier": j + 1, "xonsh": i + 1})
                else:
                    rep.ok(oid, "ordering", desc, "pegir-fixpoint", function=f"peg_parser/parser.py:XonshParser.{rule}")
    pr = ir.rules["primary"]
    idx_help = next((i for i, a in enumerate(pr.alts) if "help_atom" in str(a)), None)
    idx_atom = next((i for i, a in enumerate(pr.alts) if str(a).strip() in ("atom=atom", "atom")), None)
    if idx_help is not None and idx_atom is not None and idx_help < idx_atom:
        rep.ok("C05.order.L3.help_before_atom", "ordering", "L3: in `primary` the help alternative (`a?`, which extends what `atom` accepts) is tried before `atom`", "pegir-unify",
               function="peg_parser/parser.py:XonshParser.primary")
    else:
        rep.fail("C05.order.L3.help_before_atom", "ordering", "L3: in `primary` the help alternative is tried before `atom`", "pegir-unify",
                 f"help alt index {idx_help}, atom alt index {idx_atom}", witness={"help": idx_help, "atom": idx_atom})
    # (iii) '||' / '&&' share the action of 'or' / 'and' and the separator is not an input of the action
    for rule, word, sym, op in (("disjunction", "or", "||", "Or"), ("conjunction", "and", "&&", "And")):
        r = ir.rules[rule]
        a0 = r.alts[0]
        text = str(a0)
        act = ast.unparse(a0.action) if a0.action is not None else ""
        helper = next((it.pe.subs[0].arg for it in a0.items if it.pe is not None and it.pe.kind == "repeated" and it.pe.subs[0].kind == "rule"), None)
        hr = ir.rules.get(helper) if helper else None
        seps = set()
        if hr is not None:
            for it in hr.alts[0].items:
                if it.pe is not None and it.pe.kind == "rule" and it.pe.arg in ir.rules and ir.rules[it.pe.arg].shape == "seq_alts":
                    seps = {x.items[0].pe.arg for x in ir.rules[it.pe.arg].alts}
                    sepvar = it.var
        oid = f"C05.route.{rule}"
        desc = f"`{rule}`: `{sym}` is an alternative spelling of `{word}` (same separator position, same ast.{op}() action, separator not used by the action)"
        hact = ast.unparse(hr.alts[0].action) if hr is not None and hr.alts[0].action is not None else ""
        ok = seps == {word, sym} and f"ast.{op}()" in act and "literal" not in hact and "_tmp" not in hact
        if ok:
            rep.ok(oid, "routing", desc, "pegir-unify", function=f"peg_parser/parser.py:XonshParser.{rule}")
        else:
            rep.fail(oid, "routing", desc, "pegir-unify", f"separators {sorted(seps)}, action `{act[:80]}`, helper action `{hact}`", witness={"rule": rule, "separators": sorted(seps)})
    # (iv) all binding positions take their targets from star_target(s)
    reach_t = f.reachable(["star_targets", "star_target"])
    for rule, alts in (("assignment", None), ("for_stmt", None), ("with_item", None), ("for_if_clause", None)):
        r = ir.rules[rule]
        uses = any(it.pe is not None and any(p.kind == "rule" and p.arg in ("star_targets", "star_target", "_tmp_9") for p in __import__("engine.pegir", fromlist=["walk_pe"]).walk_pe(it.pe))
                   for a in r.alts for it in a.items)
        oid = f"C05.targets.{rule}"
        if uses and "target_with_star_atom" in reach_t:
            rep.ok(oid, "routing", f"`{rule}` takes its binding targets from star_target(s), which reaches target_with_star_atom (the `$NAME` / `${{e}}` Store alternatives)", "pegir-fixpoint",
                   function=f"peg_parser/parser.py:XonshParser.{rule}")
        else:
            rep.fail(oid, "routing", f"`{rule}` takes its binding targets from star_target(s)", "pegir-fixpoint", "no star_target(s) item found", witness={"rule": rule})


def standin(rep: Report):
    t0 = time.time()
    cases = []
    for cons, py in CONSTRUCTS:
        for ctx in CONTEXTS:
            if cons.startswith("(") and ctx.startswith("x = f'"):
                continue
            cases.append({"src": ctx.format(cons), "py": ctx.format(py), "construct": cons if ctx.count("{0}") == 1 and not cons.startswith("(") else None})
    # nesting depth 2
    for cons, py in CONSTRUCTS[:9]:
        cases.append({"src": f"x = f(g({cons}))[{cons}]\n", "py": f"x = f(g({py}))[{py}]\n", "construct": None})
        cases.append({"src": f"$(echo @({cons}))\n", "py": f"__xonsh__.subproc_captured('echo', *__xonsh__.list_of_strs_or_callables({py}))\n", "construct": None})
    for src, py, cons in TARGETS:
        cases.append({"src": src, "py": py, "construct": cons, "target": True})
    # a construct continued on the next line: every alignment of the continuation line against the end column of the piece before it
    for pre in ["", "x = ", "xy = ", "xyzw = ", "f(", "r = [1, "]:
        post = {"f(": ")", "r = [1, ": "]"}.get(pre, "")
        for k in range(0, 15):
            pad = " " * k
            cases.append({"src": f"{pre}$(ls\n{pad}-l){post}\n", "py": f"{pre}__xonsh__.subproc_captured('ls', '-l'){post}\n", "construct": None})
            cases.append({"src": f"{pre}![echo $H\n{pad}/tmp]{post}\n", "py": f"{pre}__xonsh__.subproc_captured_hiddenobject('echo', __xonsh__.env['H'], '/tmp'){post}\n",
                          "construct": None})
    # the same (construct, context) pairs under other layouts: the translation is written out in the same layout
    base = list(cases)
    for i, c in enumerate(base):
        if i % (3 if rep.tier == "quick" else 1):
            continue
        for vs, vp in list(zip(pool.layouts(c["src"]), pool.layouts(c["py"])))[1:]:
            if len(pool.layouts(c["src"])) == len(pool.layouts(c["py"])):
                cases.append({"src": vs, "py": vp, "construct": None, "target": c.get("target")})
    rc, out, err = run_py("harness/desugar.py", [], timeout=1800, stdin=json.dumps({"op": "c05", "cases": cases}))
    si = StandIn("desugar-vs-written-out", f"{len(cases)} programs: {len(CONSTRUCTS)} constructs x {len(CONTEXTS)} expression contexts, nesting depth 2, {len(TARGETS)} binding-target forms; "
                 "tree (positions ignored) == ast.parse of the program with the documented translation written out; construct node spans the construct text")
    if rc != 0:
        rep.undecided("C05.standin.run", "bounded", "run the desugaring stand-in", "cpython-exec", err[-600:])
    else:
        d = json_from(out)
        si.evaluations = d["evaluations"]
        si.distinct_nontrivial = d["evaluations"]
        for f in d["failures"]:
            site = "span" if "spans exactly" in f["observed"] else "desugar"
            cons = (f.get("case") or {}).get("construct") or ""
            if site == "span" and "?" in cons:
                site = "span:help"
            si.failures.append({"input": f["input"], "site": site, "what": f["observed"], "observed": f["observed"]})
        si.samples = [cases[0]["src"], cases[50]["src"]]
    si.seconds = time.time() - t0
    rep.standins.append(si)


def run(rep: Report):
    rep.trust("CPython ast", "engine/pegir, engine/pegfacts", "engine/pyvc", "engine/rx")
    rep.assume("the written-out translation parses to that tree in every context: C01", "first sets ignore lookaheads (over-approximation, sound for disjointness)",
               "documented translations are taken from the property statement and tests/data/exprs")
    e1common.file_into(rep, "C05", rep.tier)
    routing_obligations(rep)
    d = rxload.patterns()
    decide(rep, "C05.rx.SearchPath.spec", "L(SearchPath) == documented form: optional [rgpf]+ or @name prefix, backtick, body without unescaped backtick/newline, backtick",
           lambda: rx.equal(rx.tr(d["ours"]["SearchPath"]), rx.tr(SEARCH_PATH_SPEC)), "C05")
    standin(rep)
