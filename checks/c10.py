"""C10 -- f-strings (tokens and trees) agree with CPython 3.12.

Proved (all inputs):
  * refines(R) for the seven f-string grammar rules against CPython 3.12's rules (spec/ref/python312_fstring.gram, transcribed by
    hand: ASSUMED faithful): same alternatives, same order (E4 on the grammar the repository's pegen reads, which E2 ties to the
    generated methods under C16);
  * actions: a literal part becomes Constant(value=<token text>), a field becomes FormattedValue(value=<expr>, conversion=...,
    format_spec=...), `fstring` passes its parts unchanged to handle_fstring, which returns JoinedStr(values=b) (syntactic);
  * check_fstring_conversion returns the character code of s / r / a and raises otherwise (E1);
  * `fstring` is reachable only through `strings`, so every f-string goes through concatenate_strings (IR reachability);
  * mode-frame queries in_braces / in_fstring / in_colon (E1 contracts).
Bounded (exhaustive over short strings, real `re`): the literal-text search pattern of each quote style never runs past the closing
quote and stops at the first single `{`.
The f-string mode machine is verified from its real bodies (E1, tagged C10): handle_fstring_progs / handle_end_progs /
next_psuedo_matches push, pop and reset frames as the quote / brace / colon they meet demands, and emit the buffered literal text as
one FSTRING_MIDDLE next to the delimiter; side conditions of the frame invariant are the C10.frames.* obligations.
handle_fstring / concatenate_strings are verified from their bodies (E1): one JoinedStr over the matched parts, spanning the first part's
start .. the last part's end, a single Constant exactly when no part is an f-string.  NOT proved: the merging of adjacent Constants
inside concatenate_strings (opaque loop: inner values/spans by the stand-in only), what escapes decode to in _decode_fstring_parts (opaque there; its control flow, recursion into nested specs and error location are verified), `re` itself.
Bounded stand-in: prefix x quote x literal part x field form x layout products vs tokenize / ast.parse of the running CPython 3.12.
The unchanged tree violates the property on several whole classes of f-strings (doubled braces, escapes in literal parts, `=`
debug fields, nested fields in specs, specs inside triple quotes, \\N{...}, ...): each class is a known finding keyed by the input
feature; inputs without such a feature must agree exactly.
"""
from __future__ import annotations

import ast
import itertools
import re
import time

from checks import e1common, irload, oracle
from checks.common import REPO, VERIF, Report, StandIn, json_from, run_py
from engine import gramref

import functools
import os

RULES = {"fstring_mid": "fstring_middle", "fstring_replacement_field": None, "fstring_conversion": None, "fstring_full_format_spec": None,
         "fstring_format_spec": None, "fstring": None, "strings": None}

# known-bad input features, in priority order (site = "fstring:<first feature present>")
KNOWN_BAD = ["multiline-spec", "named-unicode", "doubled-brace", "debug", "non-ascii"]

PREFIXES = ["f", "F", "rf", "fr", "Rf", "fR", "FR", "rF"]
QUOTES = ["'", '"', "'''", '"""']
# (text, tags); {q} is replaced by a quote character that is legal inside the chosen quote style
LITS = [("", ()), ("a", ()), ("a b", ()), (" ", ()), ("#", ()), ("%s", ()), (":", ()), ("!", ()), ("=", ()), ("$x", ()), ("@(", ()), ("a[0]", ()), (")", ()), ("{q}", ()),
        ("\\n", ("escape",)), ("\\\\", ("escape",)), ("\\x41", ("escape",)), ("\\{q}", ("escape",)), ("\\d", ("escape",)),
        ("{{", ("doubled-brace",)), ("}}", ("doubled-brace",)), ("{{x}}", ("doubled-brace",)), ("\\N{DOLLAR SIGN}", ("named-unicode",)), ("\u00e9", ("non-ascii",)), ("\u4e2d", ("non-ascii",))]
FIELDS = [("{x}", ()), ("{x!r}", ()), ("{x!s}", ()), ("{x!a}", ()), ("{ x }", ()), ("{x+1}", ()), ("{d[1]}", ()), ("{f(a, b)}", ()), ("{a if b else c}", ()), ("{(lambda: 1)()}", ()),
          ("{x.y.z}", ()), ("{x,}", ()), ("{*a,}", ()), ("{(y:=1)}", ()), ("{x!r:>5}", ("spec",)), ("{x:>5}", ("spec",)), ("{x:%Y-%m}", ("spec",)), ("{x:x}", ("spec",)), ("{1:x}", ("spec",)),
          ("{x: }", ("spec",)), ("{x:,}", ("spec",)), ("{x:#x}", ("spec",)), ("{x:a b}", ("spec",)), ("{x:!r}", ("spec",)), ("{d[a:b]}", ()), ("{d[a:b]:>4}", ("spec",)), ("{ {1: 2}[1] }", ()),
          ("{x:}", ("spec", "empty-spec")), ("{x=}", ("debug",)), ("{x = }", ("debug",)), ("{x=!r}", ("debug",)), ("{x=:>5}", ("debug", "spec")),
          ("{x:{w}}", ("spec", "nested-spec")), ("{x:{w}.{p}}", ("spec", "nested-spec")), ("{x!s:^{w}}", ("spec", "nested-spec")), ("{x:a{y}b}", ("spec", "nested-spec")),
          ("{x:=^10}", ("spec", "spec-starts-with-op")), ("{x:->5}", ("spec", "spec-starts-with-op")), ("{x:**^9}", ("spec", "spec-starts-with-op")), ("{x:>>5}", ("spec", "spec-starts-with-op")),
          ("{x:{{}}", ("spec", "doubled-brace")), ("{x:\\n}", ("spec", "escape")), ("{'s'}", ("inner-quote",)), ('{"s"}', ("inner-quote",)), ("{d['k']}", ("inner-quote",)),
          ("{f'{y}'}", ("inner-quote", "nested-fstring")), ('{f"{y!r:>3}"}', ("inner-quote", "nested-fstring", "spec")), ("{$HOME}", ("xonsh",)), ("{$(ls)}", ("xonsh",)), ("{@(x)}", ("xonsh",)),
          # strings INSIDE a replacement field are literals of their own: evaluated once, by their own prefix (never again by the outer f-string)
          ('{r"\\n"}', ("inner-quote",)), ('{"\\\\n"}', ("inner-quote",)), ('{s.replace("\\\\n", " ")}', ("inner-quote",)), ('{f"a\\\\nb{y}"}', ("inner-quote", "nested-fstring")),
          ('{rf"\\t{y}"}', ("inner-quote", "nested-fstring")), ('{x:{f"\\\\x41"}}', ("inner-quote", "nested-fstring", "spec")), ('{re.search(r"\\bfoo\\b", s)!r:>{w}}', ("inner-quote", "spec"))]


def site_of(tags) -> str:
    for k in KNOWN_BAD:
        if k in tags:
            return "fstring:" + k
    return "fstring:plain"


def make_cases(tier: str):
    cases = {}

    def add(src, tags):
        tags = set(tags)
        raw = "raw" in tags
        if "escape" in tags and not raw:
            tags.add("escape-in-literal")
        if "spec" in tags and "triple" in tags:
            tags.add("triple-quoted-spec")
        cases.setdefault(src, tags)

    def lit(text, q):
        other = '"' if q[0] == "'" else "'"
        return text.replace("{q}", other if "\\{q}" not in text else q[0])

    for q in QUOTES:
        qt = ("triple",) if len(q) == 3 else ()
        for (l1, t1), (f, tf), (l2, t2) in itertools.product(LITS, FIELDS, [LITS[0], LITS[1], LITS[14], LITS[19], LITS[20]]):
            if "inner-quote" in tf and q[0] in f.replace("f'", "").replace('f"', "") and len(q) == 1:
                continue                     # same quote inside a single-quoted f-string is 3.12-only nesting; keep to the other quote
            add(f"f{q}{lit(l1, q)}{f}{lit(l2, q)}{q}\n", t1 + tf + t2 + qt)
    for p, q in itertools.product(PREFIXES, QUOTES):
        qt = ("triple",) if len(q) == 3 else ()
        rw = ("raw",) if "r" in p.lower() else ()
        for (l, t), (f, tf) in itertools.product(LITS, FIELDS[:6] + FIELDS[14:17]):
            if rw and "\\{q}" in l:
                continue
            add(f"{p}{q}{lit(l, q)}{f}{lit(l, q)}{q}\n", t + tf + qt + rw)
    pairs = itertools.product(FIELDS, FIELDS) if tier == "thorough" else itertools.product(FIELDS[::2], FIELDS[1::3])
    for (f1, t1), (f2, t2) in pairs:
        if "'" in f1 + f2:
            continue
        add(f"f'{f1}{f2}'\n", t1 + t2)
        add(f"x = f'{f1} and {f2}' + g  # c\n", t1 + t2)
    # concatenation, nesting, layout
    fixed = [
        ("f'a' 'b'\n", ()), ("'a' f'{b}'\n", ()), ("f'{a}' f'{b}'\n", ()), ("f'{a}' 'lit' f'{b}'\n", ()), ("f'{a}' \"l\" F'{b}' r'\\n'\n", ()), ("u'a' f'{b}'\n", ()),
        ("(f'{a}'\n f'{b}')\n", ()), ("(f'{a}' # c\n 'x'\n f'{b}')\n", ()), ("x = f'{a}'; y = {1}\n", ()), ("f'{a}', {1: 2}\n", ()), ("g(f'{a}', {b}, f\"{c}\")\n", ()),
        ("f'{x}' if y else f'{z}'\n", ()), ("[f'{x}' for x in y]\n", ()), ("f'{x}'.format()\n", ()), ("f'{a}{b}{c}'\n", ()), ("f''\n", ()), ("f'a'\n", ()),
        ("f'' ''\n", ("empty-literal-concat",)), ("f'{x}' ''\n", ("empty-literal-concat",)), ("'' f'{x}'\n", ("empty-literal-concat",)),
        ("f'''a\n{b}\nc'''\n", ("triple",)), ("f'''\n{b}\n'''\n", ("triple",)), ("f'''{\na\n}'''\n", ("triple",)), ("f'''a\n  {b} c\n{d}{e}\n\n{f}'''\n", ("triple",)),
        ("f\"\"\"x\n{a!r}\n\"\"\" + f'{b}'\n", ("triple",)), ("f'''a''{b}'c'''\n", ("triple",)), ("f'''{a}'''  f'''{b}'''\n", ("triple",)), ("x = f'''\n    {a}\n    {b}\n''' # c\ny = 1\n", ("triple",)),
        ("f'''{a:\n>5}'''\n", ("triple", "spec", "multiline-spec")), ("f'a\\\n{b}'\n", ("escape",)), ("f'{a}\\\nb'\n", ("escape",)),
        ("f'{f\"{x}\"}'\n", ("nested-fstring",)), ("f'{f\"{f'''{x}'''}\"}'\n", ("nested-fstring",)), ("f'{a!r:{b!r}}'\n", ("spec", "nested-spec")), ("f'{a:{b:{c}}}'\n", ("spec", "nested-spec")),
        ("rf'\\{x}'\n", ("backslash-brace", "raw")), ("f'\\{x}'\n", ("backslash-brace",)), ("rf'\\d{x}\\w'\n", ("raw",)), ("rf'{x}\\n'\n", ("raw",)),
        ("if a:\n    y = f'{b}'\n    z = f'''\n{c}'''\nw = 1\n", ("triple",)), ("def f():\n    return f'{x!r}' f'{y}'\n", ()), ("f'{lambda x: 1}'\n", ("spec",)),
        ("f'{x!z}'\n", ()), ("f'{x!rr}'\n", ()), ("f'{}'\n", ()), ("f'{x'\n", ()), ("f'{x!}'\n", ()),
    ]
    for s, t in fixed:
        add(s, t + (("escape-in-literal",) if "escape" in t and "raw" not in t else ()))
    # implicit concatenation: every sequence of 2 (quick: and a third of those of 3) literals from a pool with EMPTY plain / f-string pieces
    # and literal text at either end of an f-string, on one line and continued over lines (inner Constant spans cover merged pieces)
    lits = ["''", "'a'", "f''", "f'a'", "f'{x}'", "f'a{x}'", "f'{x}a'", "f'a{x}b'", '"""m\nl"""', "f'{x}{y}'"]
    seqs = list(itertools.product(lits, repeat=2)) + [t3 for i, t3 in enumerate(itertools.product(lits, repeat=3)) if tier == "thorough" or i % 3 == 0]
    for sq in seqs:
        tags = ("empty-literal-concat",) if any(x in ("''", "f''") for x in sq) else ()
        add(" ".join(sq) + "\n", tags)
        add("msg = (" + "\n       ".join(sq) + ")\n", tags)
    return cases


def grammar_obligations(rep: Report):
    rc, out, err = run_py("harness/dump_refgrammar.py", [REPO, os.path.join(VERIF, "spec", "ref", "python312_fstring.gram")], timeout=120)
    if rc != 0:
        rep.undecided("C10.refines.load", "refinement", "load the 3.12 f-string reference rules", "gramref-unify", err[-400:])
        return
    ref = json_from(out)
    # `string` is a one-token wrapper rule in CPython; the real grammar uses the STRING token directly
    def subst(x):
        if isinstance(x, dict):
            if x.get("k") == "name" and x.get("v") == "string":
                return {"k": "name", "v": "STRING"}
            return {k: subst(v) for k, v in x.items()}
        if isinstance(x, list):
            return [subst(v) for v in x]
        return x
    ref = subst(ref)
    our = irload.grammar("xonsh")
    saved = dict(gramref.RENAME)
    gramref.RENAME["fstring_middle"] = "fstring_mid"
    try:
        res = gramref.refine(our, ref, delta_rules={}, only=set(RULES))
    finally:
        gramref.RENAME.clear()
        gramref.RENAME.update(saved)
    seen = set()
    for r in res:
        seen.add(r.rule)
        fn = f"peg_parser/parser.py:XonshParser.{r.rule}"
        oid = f"C10.refines.{r.rule}"
        desc = f"rule `{r.rule}` has CPython 3.12's alternatives in the same order (no extra non-diagnostic alternative)"
        if r.status == "mismatch":
            rep.fail(oid, "refinement", desc, "gramref-unify", r.detail, witness={"rule": r.rule, "detail": r.detail}, function=fn)
        elif r.extra_alts:
            rep.fail(oid, "refinement", desc, "gramref-unify", f"extra alternative(s) {[i + 1 for i in r.extra_alts]} not in the reference rule",
                     witness={"rule": r.rule, "extra": r.extra_alts}, function=fn)
        else:
            rep.ok(oid, "refinement", desc, "gramref-unify", function=fn)
    for name in RULES:
        if name not in seen:
            rep.fail(f"C10.refines.{name}", "refinement", f"rule `{name}` exists and is compared", "gramref-unify", "rule missing on one side", witness=name)


def action_obligations(rep: Report):
    ir = irload.ir("xonsh")

    def act(rule, alt):
        r = ir.rules.get(rule)
        if r is None or alt >= len(r.alts) or r.alts[alt].action is None:
            return None, None
        return r.alts[alt], r.alts[alt].action

    def kw(call, name):
        return next((k.value for k in call.keywords if k.arg == name), None)

    def var_of(a, pred):
        return next((it.var for it in a.items if it.pe is not None and it.var and pred(it.pe)), None)

    checks = []
    # literal part
    for rule, alt in (("fstring_mid", 1), ("fstring_format_spec", 0)):
        a, c = act(rule, alt)
        v = var_of(a, lambda pe: pe.kind == "token" and pe.arg == "FSTRING_MIDDLE") if a else None
        ok = (isinstance(c, ast.Call) and ast.unparse(c.func) == "ast.Constant" and v and isinstance(kw(c, "value"), ast.Attribute)
              and ast.unparse(kw(c, "value")) == f"{v}.string")
        checks.append((f"C10.action.{rule}.literal", f"`{rule}`: an FSTRING_MIDDLE token becomes Constant(value=<the token's text>)", ok, c, f"XonshParser.{rule}"))
    a, c = act("fstring_replacement_field", 0)
    if a is not None:
        ve = var_of(a, lambda pe: pe.kind == "rule" and pe.arg == "annotated_rhs")
        vc = next((it.var for it in a.items if it.pe is not None and it.optional and it.pe.kind == "rule" and it.pe.arg == "fstring_conversion"), None)
        vf = next((it.var for it in a.items if it.pe is not None and it.optional and it.pe.kind == "rule" and it.pe.arg == "fstring_full_format_spec"), None)
        ok = (isinstance(c, ast.Call) and ast.unparse(c.func) == "ast.FormattedValue" and ve and ast.unparse(kw(c, "value")) == ve
              and vf and ast.unparse(kw(c, "format_spec")) == vf and vc and isinstance(kw(c, "conversion"), ast.IfExp)
              and ast.unparse(kw(c, "conversion").body) == vc and ast.unparse(kw(c, "conversion").test) == vc
              and isinstance(kw(c, "conversion").orelse, ast.IfExp) and ast.unparse(kw(c, "conversion").orelse.orelse) == "-1")
        checks.append(("C10.action.fstring_replacement_field", "a replacement field becomes FormattedValue(value=<the expression>, conversion=<the conversion if "
                       "given, else -1 unless a debug `=` is present>, format_spec=<the spec>)", ok, c, "XonshParser.fstring_replacement_field"))
    a, c = act("fstring_conversion", 0)
    if a is not None:
        v = var_of(a, lambda pe: pe.kind == "name" or (pe.kind == "token" and pe.arg == "NAME"))
        ok = isinstance(c, ast.Call) and ast.unparse(c) == f"self.check_fstring_conversion({v})"
        checks.append(("C10.action.fstring_conversion", "`!name` is checked and mapped by check_fstring_conversion", ok, c, "XonshParser.fstring_conversion"))
    a, c = act("fstring_full_format_spec", 0)
    if a is not None:
        v = next((it.var for it in a.items if it.pe is not None and it.pe.kind == "repeated"), None)
        ok = isinstance(c, ast.Call) and ast.unparse(c.func) == "ast.JoinedStr" and v and v in ast.unparse(kw(c, "values"))
        checks.append(("C10.action.fstring_full_format_spec", "a format spec becomes JoinedStr(values=<its parts>)", ok, c, "XonshParser.fstring_full_format_spec"))
    a, c = act("fstring", 0)
    if a is not None:
        v = next((it.var for it in a.items if it.pe is not None and it.pe.kind == "repeated"), None)
        vs = var_of(a, lambda pe: pe.kind == "token" and pe.arg == "FSTRING_START")
        ok = isinstance(c, ast.Call) and ast.unparse(c.func) == "self.handle_fstring" and [ast.unparse(x) for x in c.args] == [vs, v]
        checks.append(("C10.action.fstring", "`fstring` hands FSTRING_START and the list of parts, unchanged and in order, to handle_fstring", ok, c, "XonshParser.fstring"))
    a, c = act("strings", 0)
    if a is not None:
        v = next((it.var for it in a.items if it.pe is not None and it.pe.kind == "repeated"), None)
        ok = isinstance(c, ast.Call) and ast.unparse(c) == f"self.concatenate_strings({v})"
        checks.append(("C10.action.strings", "`strings` hands every adjacent literal, in order, to concatenate_strings", ok, c, "XonshParser.strings"))
    for oid, desc, ok, c, fn in checks:
        if ok:
            rep.ok(oid, "action", desc, "pegir-unify", function=f"peg_parser/parser.py:{fn}")
        else:
            rep.fail(oid, "action", desc, "pegir-unify", f"action is `{ast.unparse(c)[:200] if c is not None else None}`", witness=ast.unparse(c)[:300] if c is not None else None,
                     function=f"peg_parser/parser.py:{fn}")
    # handle_fstring returns JoinedStr(values=b, **locs)
    tree = ast.parse(open(os.path.join(REPO, "peg_parser/subheader.py"), encoding="utf-8").read())
    fn = next((n for c in ast.walk(tree) if isinstance(c, ast.ClassDef) and c.name == "Parser" for n in c.body if isinstance(n, ast.FunctionDef) and n.name == "handle_fstring"), None)
    rets = [n.value for n in ast.walk(fn) if isinstance(n, ast.Return)] if fn else []
    # `return <name>` where <name> is assigned exactly once, from the constructor call, counts as returning that call
    if fn and len(rets) == 1 and isinstance(rets[0], ast.Name):
        defs = [n.value for n in ast.walk(fn) if isinstance(n, ast.Assign) and any(isinstance(t, ast.Name) and t.id == rets[0].id for t in n.targets)]
        if len(defs) == 1:
            rets = defs
    parts = fn.args.args[2].arg if fn and len(fn.args.args) > 2 else None
    kwname = fn.args.kwarg.arg if fn and fn.args.kwarg else None
    good = (len(rets) == 1 and isinstance(rets[0], ast.Call) and ast.unparse(rets[0].func) == "ast.JoinedStr"
            and any(k.arg == "values" and ast.unparse(k.value) == parts for k in rets[0].keywords)
            and any(k.arg is None and ast.unparse(k.value) == kwname for k in rets[0].keywords))
    rets = [ast.unparse(r) for r in rets]
    if good:
        rep.ok("C10.builder.handle_fstring", "structural", "Parser.handle_fstring returns JoinedStr(values=<the parts it was given>, <the rule's span>) on its only return path",
               "syntactic", function="peg_parser/subheader.py:Parser.handle_fstring")
    else:
        rep.fail("C10.builder.handle_fstring", "structural", "Parser.handle_fstring returns JoinedStr(values=<the parts it was given>, <the rule's span>)", "syntactic",
                 f"return expressions: {rets}", witness=rets)
    # escape decoding touches the f-string's own literal text (and its format specs) only: never the expression inside a replacement field
    fnd = next((n for c in ast.walk(tree) if isinstance(c, ast.ClassDef) and c.name == "Parser" for n in c.body if isinstance(n, ast.FunctionDef) and n.name == "_decode_fstring_parts"), None)
    if fnd is not None:
        param = fnd.args.args[1].arg if len(fnd.args.args) > 1 else None
        loops = [n for n in ast.walk(fnd) if isinstance(n, ast.For)]
        walks = [ast.unparse(n)[:60] for n in ast.walk(fnd) if isinstance(n, ast.Call) and ast.unparse(n.func) in ("ast.walk", "ast.iter_child_nodes", "ast.iter_fields")]
        recs = [ast.unparse(n.args[0]) for n in ast.walk(fnd) if isinstance(n, ast.Call) and isinstance(n.func, ast.Attribute) and n.func.attr == "_decode_fstring_parts" and n.args]
        lv = loops[0].target.id if len(loops) == 1 and isinstance(loops[0].target, ast.Name) else None
        ok = (len(loops) == 1 and ast.unparse(loops[0].iter) == param and not walks and recs == [f"{lv}.format_spec.values"])
        desc = ("Parser._decode_fstring_parts visits exactly the parts it was given and recurses only into a part's format_spec.values: a string inside a replacement "
                "field (evaluated by its own prefix) is never decoded again")
        if ok:
            rep.ok("C10.builder.decode_scope", "structural", desc, "syntactic", function="peg_parser/subheader.py:Parser._decode_fstring_parts")
        else:
            rep.fail("C10.builder.decode_scope", "structural", desc, "syntactic", f"loops over {[ast.unparse(l.iter) for l in loops]}; generic walks {walks}; recursive calls on {recs}",
                     witness={"walks": walks, "recursion": recs}, function="peg_parser/subheader.py:Parser._decode_fstring_parts")
    # reachability: fstring only through strings
    from checks.c14 import walk_pe
    who = sorted({n for n, r in ir.rules.items() for a in r.alts for it in a.items if it.pe is not None for p in walk_pe(it.pe) if p.kind == "rule" and p.arg == "fstring"})
    who = ["strings" if u.startswith("_tmp_") and all(x == "strings" for x in users_of(ir, u)) else u for u in who]
    if set(who) <= {"strings"} and who:
        rep.ok("C10.reach.fstring_only_via_strings", "protocol", "`fstring` is referenced only by `strings`: every f-string literal is joined by concatenate_strings",
               "pegir-fixpoint", function="peg_parser/parser.py:XonshParser.strings")
    else:
        rep.fail("C10.reach.fstring_only_via_strings", "protocol", "`fstring` is referenced only by `strings`", "pegir-fixpoint", f"referenced by {who}", witness=who)


def frame_obligations(rep: Report):
    """side conditions of the EndProg frame invariant used by E1 (contracts/shapes.py): frames are built only by add_prog, their
    mode / pattern / quote are never written afterwards, a format-spec frame is pushed only on top of a replacement-field frame"""
    src = open(os.path.join(REPO, "peg_parser", "tokenize.py"), encoding="utf-8").read()
    tree = ast.parse(src)
    fn_of = {}
    for f in ast.walk(tree):
        if isinstance(f, ast.FunctionDef):
            for n in ast.walk(f):
                fn_of.setdefault(id(n), f.name)
    ctor = sorted({fn_of.get(id(n), "<module>") for n in ast.walk(tree) if isinstance(n, ast.Call) and isinstance(n.func, ast.Name) and n.func.id == "EndProg"})
    desc = "EndProg frames are constructed only inside TokenizerState.add_prog (whose precondition is the frame invariant)"
    if ctor == ["add_prog"]:
        rep.ok("C10.frames.only_add_prog", "structural", desc, "syntactic", function="peg_parser/tokenize.py:TokenizerState.add_prog")
    else:
        rep.fail("C10.frames.only_add_prog", "structural", desc, "syntactic", f"EndProg(...) is called in {ctor}", witness=ctor)
    writes = sorted({f"{fn_of.get(id(t), '<module>')}: .{t.attr}" for n in ast.walk(tree) if isinstance(n, (ast.Assign, ast.AugAssign, ast.AnnAssign))
                     for t in (n.targets if isinstance(n, ast.Assign) else [n.target]) if isinstance(t, ast.Attribute) and t.attr in ("mode", "pattern", "quote")
                     and not (isinstance(t.value, ast.Name) and t.value.id == "self" and fn_of.get(id(t)) == "__init__")})
    desc = "no statement assigns to the .mode / .pattern / .quote attribute of a frame after its construction"
    if not writes:
        rep.ok("C10.frames.immutable", "structural", desc, "syntactic", function="peg_parser/tokenize.py")
    else:
        rep.fail("C10.frames.immutable", "structural", desc, "syntactic", f"assignments: {writes}", witness=writes)
    # every add_prog(..., mode=ModeInColon(...)) is guarded by state.in_braces() in the enclosing if-test
    bad, seen = [], 0
    class V(ast.NodeVisitor):
        def __init__(self):
            self.guards = []
        def visit_If(self, n):
            self.guards.append(ast.unparse(n.test))
            for x in n.body:
                self.visit(x)
            self.guards.pop()
            self.guards.append("not (" + ast.unparse(n.test) + ")")
            for x in n.orelse:
                self.visit(x)
            self.guards.pop()
        def visit_Call(self, n):
            nonlocal seen
            if isinstance(n.func, ast.Attribute) and n.func.attr == "add_prog" and any(k.arg == "mode" and "ModeInColon" in ast.unparse(k.value) for k in n.keywords):
                seen += 1
                if not any(".in_braces()" in g and not g.startswith("not (") for g in self.guards):
                    bad.append(f"line {n.lineno}: guards {self.guards}")
            self.generic_visit(n)
    V().visit(tree)
    desc = "a format-spec frame (ModeInColon) is pushed only under a test that includes in_braces(): it always sits on the replacement-field frame that opened it"
    if seen >= 1 and not bad:
        rep.ok("C10.frames.colon_on_braces", "structural", desc + f" ({seen} site)", "syntactic", function="peg_parser/tokenize.py:next_psuedo_matches")
    else:
        rep.fail("C10.frames.colon_on_braces", "structural", desc, "syntactic", f"{seen} site(s); unguarded: {bad}", witness=bad or seen)


def users_of(ir, helper):
    from checks.c14 import walk_pe
    return sorted({n for n, r in ir.rules.items() for a in r.alts for it in a.items if it.pe is not None for p in walk_pe(it.pe) if p.kind == "rule" and p.arg == helper})


def regex_bounded(rep: Report):
    """exhaustive over short strings with the real `re`: LBrace search vs closing quote"""
    from checks import rxload
    d = rxload.patterns()
    sp, ep = d.get("startpats") or {}, d["endpats"]
    t0 = time.time()
    n = 7 if rep.tier == "quick" else 8
    si = StandIn("fstring-literal-search", f"all strings of length <= {n} over the alphabet {{quote, other quote, backslash, '{{', '}}', 'a'}} per quote style: when the "
                 "field-start pattern matches, it ends at a `{` not followed by `{`, before the closing quote that the end pattern finds, and no earlier single `{` was skipped")
    if not sp:
        rep.fail("C10.rx.startpats", "lemma", "per-quote field-start patterns exist (the search for `{` knows the closing quote)", "syntactic",
                 "tokenize.startpats not found: the field-start search is not quote-aware", witness=list(d["ours"].keys()))
        return
    for q in sp:
        cs, ce = re.compile(sp[q]), re.compile(ep[q])
        alpha = [q[0], '"' if q[0] == "'" else "'", "\\", "{", "}", "a"]
        for L in range(0, n + 1):
            for tup in itertools.product(alpha, repeat=L):
                w = "".join(tup)
                si.evaluations += 1
                ms = cs.match(w)
                me = ce.match(w)
                si.distinct_nontrivial += 1 if ms else 0
                bad = None
                # the field start is the first `{` that is not followed by another `{` ...
                i0 = next((i for i in range(len(w)) if w[i] == "{" and w[i + 1:i + 2] != "{"), None)
                qs = me.end() - len(q) if me else None          # ... and it must lie before the closing quote the end pattern finds
                want = i0 is not None and (qs is None or i0 < qs)
                if bool(ms) != want:
                    bad = f"field-start match {'found' if ms else 'not found'}; first single `{{` at {i0}, closing quote at {qs}"
                elif ms and ms.end() - 1 != i0:
                    bad = f"match ends at {ms.end() - 1}, the first single `{{` is at {i0}"
                if bad and len(si.failures) < 20:
                    si.failures.append({"input": w, "site": f"startpats[{q}]", "what": bad, "observed": {"start_match_end": ms.end() if ms else None, "end_match_end": me.end() if me else None}})
    si.seconds = time.time() - t0
    si.samples = ["a{", "a'{b"]
    rep.standins.append(si)


def standin(rep: Report):
    t0 = time.time()
    cases = make_cases(rep.tier)
    srcs = list(cases)
    a = oracle.run("tokens", [{"src": s} for s in srcs])
    b = oracle.run("pytokens", [{"src": s} for s in srcs])
    pa = oracle.run("parse", [{"src": s} for s in srcs])
    pb = oracle.run("cpython", [{"src": s} for s in srcs])
    si = StandIn("fstring-vs-cpython", f"{len(srcs)} sources: {len(PREFIXES)} prefixes x {len(QUOTES)} quote styles x {len(LITS)} literal parts x {len(FIELDS)} field forms "
                 "(pairs, concatenations, nesting, multi-line layouts); FSTRING_*/expression tokens vs tokenize.generate_tokens and trees (values and spans) vs ast.parse")
    per_site = {}
    for s, x, y, t, u in zip(srcs, a, b, pa, pb):
        si.evaluations += 1
        tags = cases[s]
        site = site_of(tags)
        if "xonsh" in tags:
            continue                     # C05's stand-in compares xonsh constructs inside fields with their translation
        if "exc" in y or "exc" in u:
            # CPython rejects: we must reject too (SyntaxError), nothing else to compare
            if t.get("ok"):
                si.failures.append({"input": s, "site": site, "what": f"CPython rejects ({(u.get('exc') or y.get('exc'))['msg'][:60]}), the parser returns a tree",
                                    "observed": "accepted"})
            continue
        si.distinct_nontrivial += 1
        per_site[site] = per_site.get(site, 0) + 1
        if "exc" in x:
            si.failures.append({"input": s, "site": site, "what": f"tokenizer raises {x['exc']['cls']}: {x['exc']['msg'][:80]}", "observed": x["exc"]})
            continue
        mine = [(n, st, tuple(p), tuple(e)) for n, st, p, e, _ in x["tokens"] if n not in ("WS", "NL", "COMMENT")]
        ref = [(n, st, tuple(p), tuple(e)) for n, st, p, e in y["tokens"] if n not in ("NL", "COMMENT")]
        if mine != ref:
            i = next((i for i, (m, r) in enumerate(zip(mine, ref)) if m != r), min(len(mine), len(ref)))
            si.failures.append({"input": s, "site": site, "what": f"token #{i}: ours {mine[i] if i < len(mine) else None} vs CPython {ref[i] if i < len(ref) else None}",
                                "observed": {"ours": mine[max(0, i - 1):i + 2], "cpython": ref[max(0, i - 1):i + 2]}})
            continue
        if "exc" in t:
            si.failures.append({"input": s, "site": site, "what": f"parser raises {t['exc']['cls']}: {t['exc']['msg'][:80]}", "observed": t["exc"]})
            continue
        if t["dump"] != u["dump"]:
            d1, d2 = t["dump"], u["dump"]
            i = next((i for i, (m, r) in enumerate(zip(d1, d2)) if m != r), min(len(d1), len(d2)))
            si.failures.append({"input": s, "site": site, "what": f"tree differs: ...{d1[max(0, i - 60):i + 50]} vs CPython ...{d2[max(0, i - 60):i + 50]}",
                                "observed": {"ours": d1[max(0, i - 80):i + 80], "cpython": d2[max(0, i - 80):i + 80]}})
    si.samples = srcs[:2] + srcs[-2:]
    si.seconds = time.time() - t0
    rep.extra["inputs_per_site"] = per_site
    rep.standins.append(si)


def run(rep: Report):
    rep.trust("CPython ast / tokenize of the running 3.12 as oracle", "engine/pegir", "engine/gramref", "engine/pyvc", "the repository's pegen front end as grammar reader")
    rep.assume("spec/ref/python312_fstring.gram is a faithful hand transcription of CPython 3.12's f-string rules (no 3.12 source tree offline)",
               "ASSUMED: the contract of TokenizerState.match (what `re` does; engine/pymatch.py) and the top-only abstraction of the frame stack; what an escape decodes to is opaque in the contract of _decode_fstring_parts; the Constant-merging loop of concatenate_strings is opaque (side conditions checked syntactically)",
               "xonsh constructs inside replacement fields are compared by C05's stand-in",
               "inputs carrying a known-bad feature (see known_findings.json, sites fstring:*) are not compared beyond that finding")
    e1common.file_into(rep, "C10", rep.tier)
    grammar_obligations(rep)
    action_obligations(rep)
    frame_obligations(rep)
    regex_bounded(rep)
    standin(rep)
