"""C08 -- the tokenizer is lossless: tokens tile the source with exact, ordered positions.

Proved (all inputs): per-function postconditions of the real tokenize.py functions under contract -- next_statement (INDENT
spans exactly the measured blank prefix, DEDENTs are zero-width at the cursor, indentation stack stays strictly increasing),
next_end_tokens (implicit NEWLINE rule, one DEDENT per open level, exactly one ENDMARKER, last), _tokenize (ends with the
ENDMARKER; cursor invariants 0 <= pos <= max = len(line)); regex lemmas (E3): every alternative of the master pattern but
End is epsilon-free and is a named group spanning its alternative (token span = match span), string-end / field-start / format-spec
patterns end with the character they look for.  Stage 2 (strings, f-strings) is verified from the real bodies too: prog_token,
add_prog, pop_mode, the EndProg methods, handle_fstring_progs (literal text buffered from earlier lines + this line's text is ONE
FSTRING_MIDDLE adjacent to the delimiter token; nothing dropped), handle_end_progs (a closing quote gives one STRING token with
everything buffered; otherwise the rest of the line goes into the frame's buffer; when tokens were produced the cursor stands
right after the last one), next_psuedo_matches (a token is the source slice old cursor..new cursor; a plain string start is
carried by its frame).  ASSUMED: what `re` does (contract of TokenizerState.match in engine/pymatch.py, tied to the real patterns
by the lemmas above); frames below the top of end_progs are not modelled (frame invariant + three syntactic side conditions,
C10.frames.*).  The composition of the per-function clauses into "the whole stream tiles the input" is argued, not proved.
Bounded: tiling reconstruction on an input product.
"""
from __future__ import annotations

import itertools
import json
import time

from checks import e1common, pool, rxload
from checks.c09 import decide
from checks.common import Report, StandIn, json_from, run_py
from engine import rx


def rx_obligations(rep: Report):
    d = rxload.patterns()
    o = d["ours"]
    try:
        tops = rx.top_alternatives(o["PseudoToken"])
    except Exception as e:
        rep.undecided("C08.pseudo.structure", "structural", "parse PseudoToken", "syntactic", repr(e))
        return
    if all(ok for _n, _i, ok in tops) and len(tops) == 9:
        rep.ok("C08.pseudo.structure", "structural", "every alternative of PseudoToken is one named group spanning the alternative, so "
               "m.span(m.lastgroup) == m.span(): the token span is the match span", "syntactic", function="peg_parser/tokenize.py:next_psuedo_matches")
    else:
        rep.fail("C08.pseudo.structure", "structural", "every alternative of PseudoToken is one named group spanning the alternative", "syntactic",
                 f"alternatives: {[(n, ok) for n, _i, ok in tops]}", witness=[n for n, _i, _ok in tops])
    for n, items, _ok in tops:
        if n and n != "End":
            decide(rep, f"C08.pseudo.epsfree.{n}", f"alternative {n} never matches the empty string (a token always covers >= 1 character)",
                   lambda items=items: rx.eps_free(rx.Translator("drop").seq(items)), "C08")
    # the End alternative (backslash-newline | \\Z): its only empty match is the end-of-string assertion (used by the Match contract of E1)
    for n, items, _ok in tops:
        if n == "End":
            try:
                grp = list(items[0][1][-1]) if items and items[0][0] is rx.sre_c.SUBPATTERN else list(items)
                branches = [list(b_) for b_ in grp[0][1][1]] if len(grp) == 1 and grp[0][0] is rx.sre_c.BRANCH else None
                ok = branches is not None and all(
                    (len(b_) == 1 and b_[0][0] is rx.sre_c.AT and b_[0][1] in (rx.sre_c.AT_END_STRING, rx.sre_c.AT_END)) or rx.eps_free(rx.Translator("drop").seq(b_))[0] == "unsat"
                    for b_ in branches)
            except Exception as e:      # noqa: BLE001
                rep.undecided("C08.pseudo.end_alt", "lemma", "structure of the End alternative", "syntactic", repr(e))
                continue
            desc = "every branch of the End alternative is non-empty or is exactly the end-of-string assertion: End matches the empty string only at the end of the line"
            if ok:
                rep.ok("C08.pseudo.end_alt", "lemma", desc, "syntactic+z3-regex", function="peg_parser/tokenize.py:next_psuedo_matches")
            else:
                rep.fail("C08.pseudo.end_alt", "lemma", desc, "syntactic+z3-regex", f"branches: {branches}", witness=str(branches)[:300])
    # field-start and format-spec patterns end with the brace they look for (Match contract of E1: line[e-1] is the brace)
    pats = {f"startpats[{q}]": p_ for q, p_ in (d.get("startpats") or {}).items()}
    pats.update({k: o[k] for k in ("SpecLBrace", "SpecRBrace") if k in o})
    for nm, pat in sorted(pats.items()):
        want = "}" if nm == "SpecRBrace" else "{"
        oid = "C08.bracepat.ends." + nm.replace("[", "_").replace("]", "").replace("'", "s").replace('"', "d")
        desc = f"the pattern {nm} ends with the literal {want!r}: a match is non-empty and its last character is that brace"
        try:
            items = list(rx.sre_parse.parse(pat))
            ok = bool(items) and items[-1][0] is rx.sre_c.LITERAL and chr(items[-1][1]) == want
        except Exception as e:      # noqa: BLE001
            rep.undecided(oid, "lemma", desc, "syntactic", repr(e))
            continue
        if ok:
            rep.ok(oid, "lemma", desc, "syntactic", function="peg_parser/tokenize.py")
        else:
            rep.fail(oid, "lemma", desc, "syntactic", f"pattern {pat!r}", witness=pat)
    if len(pats) < 6:
        rep.fail("C08.bracepat.present", "lemma", "the four per-quote field-start patterns and the two format-spec patterns exist (the E1 Match contract speaks about them)",
                 "syntactic", f"found {sorted(pats)}", witness=sorted(pats))
    for q in ("'", '"', "'" * 3, '"' * 3):
        oid = f"C08.endpat.ends.{len(q)}{'s' if q[0] == chr(39) else 'd'}"
        desc = f"the string-end pattern for {q} ends with the literal {q} (a STRING token ends at its closing quote)"
        try:
            items = list(rx.sre_parse.parse(d["endpats"][q]))
            tail = items[-len(q):]
            ok = len(tail) == len(q) and all(op is rx.sre_c.LITERAL and chr(av) == q[0] for op, av in tail)
        except Exception as e:
            rep.undecided(oid, "lemma", desc, "syntactic", repr(e))
            continue
        if ok:
            rep.ok(oid, "lemma", desc, "syntactic", function="peg_parser/tokenize.py")
        else:
            rep.fail(oid, "lemma", desc, "syntactic", f"pattern {d['endpats'][q]!r} does not end with the literal quote", witness=d["endpats"][q])


def standin(rep: Report):
    t0 = time.time()
    srcs = pool.PY_STMTS + pool.XSH_STMTS + ["f'''a\n{x} d'''\n", "f'''{a}\n{b}'''\n", "x = '''a\nb''' + 1\n", "f'{a:>{w}}' f'{b}'\n", "f'{{}}{a}'\n",
                                             'f"{a!r:^10}"\n', "x = 1 \\\n  + 2\n", "if a:\n  b\n\n  c\nd\n", "'abc\n", "x = (\n", "\\\n", " \f x\n",
                                             "f'''\n{a}\n{b:\n>5}\n'''\n", "msg = f\"\"\"Dear {name},\n\n{body}\n\"\"\"\n", "x = 'a\\\nb'\n", "x = f'a\\\n{b}'\n",
                                             "x\r\ny\r\n", "if a:\r\n\tb\r\n", 'f"{x:=5}"\n', "f'{v:=^{w}} and {total:=+9,.2f}'\n", "x = 'a\\\r\nb'\r\n", "y = f'a\\\r\n{b}'\r\n",
                                             "print(f\"\"\"a\n{val:=^{width}} b\n\"\"\")\n", "é = 'ü'\n", "$(echo 'a b' é)\n"]
    for _n, s in pool.data_files():
        srcs.append(s)
    alpha = ["a", "1", " ", "\n", "'", '"', "\\", "{", "}", "f", "(", ")", "#", "\t", "$", "`", ":", "!", "'''", "\f", "\r\n", "é"]
    kmax = 3 if rep.tier == "quick" else 4
    for k in range(1, kmax + 1):
        for t in itertools.product(alpha, repeat=k):
            srcs.append("".join(t))
    srcs = list(dict.fromkeys(srcs))
    rc, out, err = run_py("harness/tiling.py", [], timeout=3600, stdin=json.dumps(srcs))
    si = StandIn("tiling-reconstruction", f"{len(srcs)} inputs: statement pool, test data files, multi-line string / f-string layouts, all strings of <= {kmax} atoms over a "
                 f"{len(alpha)}-atom alphabet (quotes, braces, backslash, newline, CRLF, tab, form feed, non-ASCII)")
    if rc != 0:
        rep.undecided("C08.standin.run", "bounded", "run the tiling check", "cpython-exec", err[-800:])
    else:
        d = json_from(out)
        si.evaluations = d["evaluations"]
        si.distinct_nontrivial = d["accepted"]
        for f in d["failures"]:
            si.failures.append({"input": f["input"], "site": f"tiling:{f['kind']}", "what": f["observed"], "observed": f["observed"]})
        si.samples = srcs[:3]
    si.seconds = time.time() - t0
    rep.standins.append(si)


def run(rep: Report):
    rep.trust("z3 / cvc5", "engine/pyvc", "engine/rx.py + re._parser")
    rep.assume("A1 Python semantics of the supported subset; A3 finite input",
               "assumed contract of re.Pattern.match (start == pos <= end <= len(line), matched text in the pattern's language)")
    e1common.file_into(rep, "C08", rep.tier)
    rx_obligations(rep)
    standin(rep)
