"""Shared plumbing for all property checks: obligations, verdicts, known findings, replay files, evidence.

Exit codes (DESIGN 3.7): 0 every obligation discharged (known findings aside) / 1 violation / 2 undecided /
3 checker crash.  `unknown`, a timeout or a traceback is never mapped to a violation.
"""
from __future__ import annotations

import hashlib
import json
import os
import shutil
import re
import subprocess
import sys
import time
import traceback
from dataclasses import dataclass, field
from typing import Any, Callable, Optional

VERIF = os.path.dirname(os.path.dirname(os.path.abspath(__file__)))
REPO = os.environ.get("XONSH_PARSER_REPO", "/repo")
VENV_PY = os.environ.get("XONSH_PARSER_PY", "/venv/bin/python")
EVIDENCE_DIR = os.environ.get("VERIF_EVIDENCE_DIR") or os.path.join(VERIF, "evidence")      # override: seed-matrix runs must not clobber the real evidence
REPLAY_DIR = os.environ.get("VERIF_REPLAY_DIR") or os.path.join(VERIF, "replays")
KNOWN_FINDINGS = os.path.join(VERIF, "known_findings.json")

DISCHARGED, FAILED, UNDECIDED, KNOWN = "discharged", "failed", "undecided", "known-finding"


def slug(s: str) -> str:
    return re.sub(r"[^A-Za-z0-9_.-]+", "_", s)[:120]


@dataclass
class Obligation:
    id: str                       # stable id, e.g. "C16.implements.sum"
    kind: str                     # post | invariant | variant | safety | frame | lemma | structural | ...
    desc: str
    status: str = UNDECIDED
    backend: str = ""             # z3 | cvc5 | pegir-unify | pegir-fixpoint | rx-z3 | frames | ...
    seconds: float = 0.0
    detail: str = ""              # solver output / mismatch text
    witness: Any = None           # counterexample (function-level)
    replay: Any = None            # result of replaying the witness on the real code
    function: str = ""            # function under contract this obligation belongs to
    bounded: bool = False         # bounded stand-in (never counted as proved)


@dataclass
class StandIn:
    name: str
    bound: str
    evaluations: int = 0
    distinct_nontrivial: int = 0
    failures: list = field(default_factory=list)   # list of dict(input=..., observed=..., site=...)
    seconds: float = 0.0
    samples: list = field(default_factory=list)


class Report:
    def __init__(self, prop: str, tier: str, seed: int, checker_cmd: str):
        self.prop = prop
        self.tier = tier
        self.seed = seed
        self.checker_cmd = checker_cmd
        self.obligations: list[Obligation] = []
        self.standins: list[StandIn] = []
        self.assumptions: list[str] = []
        self.trusted: list[str] = []
        self.functions: set[str] = set()
        self.notes: list[str] = []
        self.t0 = time.time()
        self.extra: dict = {}
        try:
            self.known = json.load(open(KNOWN_FINDINGS))
        except FileNotFoundError:
            self.known = {"findings": [], "fixed": []}

    # ------------------------------------------------------------------------------------------
    def add(self, ob: Obligation) -> Obligation:
        if ob.function:
            self.functions.add(ob.function)
        self.obligations.append(ob)
        return ob

    def ok(self, id: str, kind: str, desc: str, backend: str, seconds: float = 0.0, function: str = "", detail: str = ""):
        return self.add(Obligation(id, kind, desc, DISCHARGED, backend, seconds, detail, function=function))

    def fail(self, id: str, kind: str, desc: str, backend: str, detail: str, witness=None, replay=None,
             seconds: float = 0.0, function: str = ""):
        return self.add(Obligation(id, kind, desc, FAILED, backend, seconds, detail, witness, replay, function))

    def undecided(self, id: str, kind: str, desc: str, backend: str, detail: str, seconds: float = 0.0, function: str = ""):
        return self.add(Obligation(id, kind, desc, UNDECIDED, backend, seconds, detail, function=function))

    def assume(self, *texts: str):
        for t in texts:
            if t not in self.assumptions:
                self.assumptions.append(t)

    def trust(self, *texts: str):
        for t in texts:
            if t not in self.trusted:
                self.trusted.append(t)

    # ------------------------------------------------------------------------------------------
    def _known_for(self, ob: Obligation):
        for f in self.known.get("findings", []):
            if f.get("property") == self.prop and f.get("obligation") == ob.id:
                return f
        return None

    @staticmethod
    def _shape_applies(f: dict, failure: dict) -> bool:
        """A finding matched by site + signature may narrow the inputs it stands for: `unless_line_ends_with` lists endings of the physical line the
        observation points at ("... at (L, C) ...") for which the finding does NOT apply, so that a different defect with the same symptom is reported."""
        ends = f.get("unless_line_ends_with")
        if not ends:
            return True
        import re as _re
        m = _re.search(r"at \((\d+), \d+\)", str(failure.get("observed")))
        src = failure.get("input")
        if not m or not isinstance(src, str):
            return False
        lines = src.split("\n")
        k = int(m.group(1)) - 1
        if not (0 <= k < len(lines)):
            return False
        line = lines[k] + ("\n" if k < len(lines) - 1 else "")
        return not any(line.endswith(e) for e in ends)

    def _standin_known(self, failure: dict):
        for f in self.known.get("findings", []):
            if f.get("property") == self.prop and f.get("standin_input") is not None \
                    and f.get("standin_input") == failure.get("input"):
                return f
            if f.get("property") == self.prop and f.get("site") and f.get("site") == failure.get("site") \
                    and self._shape_applies(f, failure) \
                    and (f.get("signature") is None or f.get("signature") in json.dumps(failure.get("observed"), default=str, ensure_ascii=False)
                         or f.get("signature") in str(failure.get("observed")) or f.get("signature") == failure.get("signature")):
                return f
        return None

    def finish(self) -> int:
        os.makedirs(EVIDENCE_DIR, exist_ok=True)
        violations = 0
        lines = []
        known_hit = []
        undecided = [o for o in self.obligations if o.status == UNDECIDED]
        fresh_standin = [(si, fl) for si in self.standins for fl in si.failures if self._standin_known(fl) is None]
        for ob in self.obligations:
            if ob.status != FAILED:
                continue
            if fresh_standin and not (isinstance(ob.replay, dict) and ob.replay.get("reproduced")):
                si0, fl0 = fresh_standin[0]
                # prefer a failing input of the SAME function (run-time cross-check of the very clauses E1 discharges): concrete arguments for which
                # the real function breaks its contract
                short = (ob.function or "").split(":")[-1]
                same = [(a, b) for a, b in fresh_standin if short and b.get("site") == f"contract-runtime:{short}"]
                if same:
                    si0, fl0 = same[0]
                ob.replay = {"reproduced": True, "how": f"bounded stand-in `{si0.name}` run on the same working tree", "input": fl0.get("input"),
                             "observed": fl0.get("what"), "note": "end-to-end input that fails while this obligation is refuted; "
                             "the function-level counter-model is in `witness`"}
            kf = self._known_for(ob)
            if kf is not None:
                # a known finding must still fail *the listed way*: same signature if one is recorded
                sig = kf.get("signature")
                if sig is None or sig in (ob.detail or "") or sig in json.dumps(ob.replay, default=str):
                    ob.status = KNOWN
                    known_hit.append((ob, kf))
                    continue
            violations += 1
            path = self.write_replay(ob)
            tail = ""
            if not (ob.replay and isinstance(ob.replay, dict) and ob.replay.get("reproduced")):
                tail = " no-failing-input-found"
            lines.append(f"VIOLATION property={self.prop} replay={path}{tail}")
        seen_inputs = set()
        for si in self.standins:
            for fl in si.failures:
                kk = (si.name, repr(fl.get("input")))
                if kk in seen_inputs:
                    continue
                seen_inputs.add(kk)
                kf = self._standin_known(fl)
                if kf is not None:
                    known_hit.append((Obligation(f"{self.prop}.standin.{si.name}", "bounded", kf.get("what", ""), KNOWN), kf))
                    continue
                violations += 1
                tag = hashlib.sha1(repr(fl.get("input")).encode("utf-8", "backslashreplace")).hexdigest()[:6]       # distinct inputs, distinct replay files
                ob = Obligation(f"{self.prop}.standin.{si.name}.{slug(repr(fl.get('input'))[:60])}.{tag}", "bounded",
                                f"bounded stand-in {si.name}: {fl.get('what', 'disagreement')}", FAILED, "cpython-exec",
                                detail=json.dumps(fl, default=str)[:2000], witness=fl.get("input"),
                                replay={"reproduced": True, "observed": fl.get("observed")}, bounded=True)
                path = self.write_replay(ob)
                lines.append(f"VIOLATION property={self.prop} replay={path}")
        seen = set()
        for ob, kf in known_hit:
            key = kf.get("obligation") or kf.get("site") or kf.get("standin_input")
            if key in seen:
                continue
            seen.add(key)
            print(f"KNOWN-FINDING: property={self.prop} {kf.get('what', ob.desc)}")
        for o in undecided:
            print(f"UNDECIDED property={self.prop} obligation={o.id} backend={o.backend}: {o.detail[:200]}")
        for ln in lines:
            print(ln)
        self.write_evidence(violations, known_hit)
        if violations:
            return 1
        if undecided:
            return 2
        return 0

    def write_replay(self, ob: Obligation) -> str:
        d = os.path.join(REPLAY_DIR, self.prop)
        os.makedirs(d, exist_ok=True)
        path = os.path.join(d, slug(ob.id) + ".json")
        json.dump({
            "property": self.prop, "obligation": ob.id, "kind": ob.kind, "description": ob.desc,
            "function": ob.function, "backend": ob.backend, "verifier_output": ob.detail,
            "witness": ob.witness, "replay_on_real_code": ob.replay,
            "how_to_replay": f"python3-vt checks/check.py {self.prop} --replay {os.path.relpath(path, VERIF)}",
            "repo_head": git_head(REPO),
        }, open(path, "w"), indent=1, default=str)
        return path

    def write_evidence(self, violations: int, known_hit):
        obs = [o for o in self.obligations if not o.bounded]
        proved = [o for o in obs if o.status == DISCHARGED]
        by_backend: dict = {}
        by_kind: dict = {}
        for o in proved:
            by_backend[o.backend] = by_backend.get(o.backend, 0) + 1
            by_kind[o.kind] = by_kind.get(o.kind, 0) + 1
        slow = sorted(obs, key=lambda o: -o.seconds)[:10]
        counted = [o for o in obs if o.status in (DISCHARGED, FAILED, UNDECIDED)]
        samples = [{"id": o.id, "kind": o.kind, "desc": o.desc, "backend": o.backend, "status": o.status,
                    "detail": (o.detail or "")[:600]} for o in (proved[:2] + proved[len(proved) // 2: len(proved) // 2 + 2] + proved[-1:])]
        cov = {
            "obligations": len(counted),
            "discharged": len(proved),
            "obligations_failed_known": len([o for o in obs if o.status == KNOWN]),
            "obligations_failed": len([o for o in obs if o.status == FAILED]),
            "obligations_undecided": len([o for o in obs if o.status == UNDECIDED]),
            "checker_cmd": self.checker_cmd,
            "trusted_base": self.trusted,
            "discharged_by_backend": by_backend,
            "discharged_by_kind": by_kind,
            "functions_under_contract": sorted(self.functions),
            "solver_seconds_total": round(sum(o.seconds for o in obs), 3),
            "solver_seconds_max": round(max([o.seconds for o in obs] or [0.0]), 3),
            "slowest": [{"id": o.id, "seconds": round(o.seconds, 3), "backend": o.backend} for o in slow if o.seconds > 0],
            "known_findings_hit": sorted({kf.get("obligation") or kf.get("site") or str(kf.get("standin_input")) for _o, kf in known_hit}),
            "bounded_standins": [{"name": s.name, "bound": s.bound, "evaluations": s.evaluations,
                                  "distinct_nontrivial": s.distinct_nontrivial, "failures": len(s.failures),
                                  "seconds": round(s.seconds, 2), "samples": s.samples[:5],
                                  "label": "bounded (never counted as proved)"} for s in self.standins],
            "samples": samples,
            "notes": self.notes,
        }
        cov.update(self.extra)
        if self.standins:
            cov["evaluations"] = sum(s.evaluations for s in self.standins) + len(counted)
            cov["distinct_nontrivial"] = sum(s.distinct_nontrivial for s in self.standins) + len(proved)
            cov["rule"] = ("obligations are distinct by id (one per function x clause x path); stand-in cases are distinct "
                           "inputs, non-trivial = reaches the parser/tokenizer code under contract")
        ev = {
            "property_id": self.prop, "tier": self.tier, "seed": self.seed, "level": "proof",
            "coverage": cov, "assumptions": self.assumptions, "wall_s": round(time.time() - self.t0, 2),
            "violations": violations,
        }
        if len(proved) == 0:
            ev["level"] = "other"
            cov["explanation"] = "no obligation was discharged in this run"
        json.dump(ev, open(os.path.join(EVIDENCE_DIR, f"{self.prop}.json"), "w"), indent=1, default=str)


def git_head(repo: str) -> str:
    try:
        return subprocess.run(["git", "-C", repo, "rev-parse", "HEAD"], capture_output=True, text=True, timeout=10).stdout.strip()
    except Exception:
        return ""


def run_py(script: str, args: list, timeout: float = 120, py: str = None, stdin: Optional[str] = None, env: Optional[dict] = None):
    """Run a harness script under the repository's interpreter; returns (rc, stdout, stderr)."""
    e = dict(os.environ)
    e["PYTHONPATH"] = REPO + os.pathsep + VERIF
    e.setdefault("PYTHONHASHSEED", "0")
    e["PYTHONDONTWRITEBYTECODE"] = "1"
    if env:
        e.update(env)
    p = subprocess.run([py or VENV_PY, os.path.join(VERIF, script), *map(str, args)], capture_output=True, text=True,
                       timeout=timeout, input=stdin, env=e, cwd=VERIF)
    return p.returncode, p.stdout, p.stderr


def json_from(stdout: str):
    """last line that parses as JSON (shell noise such as conda warnings is skipped)"""
    for ln in reversed(stdout.strip().splitlines()):
        ln = ln.strip()
        if ln.startswith("{") or ln.startswith("["):
            try:
                return json.loads(ln)
            except Exception:
                continue
    raise ValueError("no JSON in output: " + stdout[-400:])


def main_wrapper(prop: str, run: Callable[[Report], None], argv):
    import argparse
    import signal
    try:
        signal.signal(signal.SIGPIPE, signal.SIG_DFL)      # `check | head` must not turn into a checker crash
    except Exception:
        pass

    ap = argparse.ArgumentParser()
    ap.add_argument("--tier", default=os.environ.get("VERIF_TIER", "quick"))
    ap.add_argument("--replay", default=None)
    a = ap.parse_args(argv)
    tier = a.tier if a.tier in ("quick", "thorough") else "quick"
    seed = int(os.environ.get("VERIF_SEED", "0") or 0)
    rep = Report(prop, tier, seed, f"python3-vt checks/check.py {prop} --tier {tier}")
    try:
        shutil.rmtree(os.path.join(REPLAY_DIR, prop), ignore_errors=True)   # replay files describe this run only
        run(rep)
        return rep.finish()
    except SystemExit:
        raise
    except Exception:
        traceback.print_exc()
        print(f"CHECKER-CRASH property={prop}")
        return 3
