"""C14 -- statements parse independently: parse(A+B) = parse(A) then line-shifted parse(B).

Proved lemmas (E2/E5 on the real generated parser and runtime):
 (ii)  flag protocol: every alternative that calls a *_macro_start rule ends in the builder that clears the flag it set
       (handle_with_macro_stmt / macro_call / proc_macro_arg), and those builders do clear it;
 (iii) parser side channels: _path_token is written only by __init__, handle_fstring and concatenate_strings, and the `fstring`
       rule is used by `strings` only (whose action is concatenate_strings); in_recursive_rule is restored (E1, left-rec wrapper);
 (iv)  L4 barrier: no rule reachable from the expression rules consumes a NEWLINE / INDENT / DEDENT / ENDMARKER token, so nothing
       inside a statement reads past the NEWLINE that ends it (beyond the one-token probes of (v));
 (v)   the tokens probed after a block (else / elif / except / finally) are not in first(statement).
Assumed: tokenizer neutrality (i) (mode stack and bracket depth back to neutral at a top-level NEWLINE) and the composition of
(i)-(v) into the statement of the property (argued in prose).  concatenate_strings / handle_fstring are verified from their bodies
(E1): a p prefix is remembered together with the node that owns it, is consumed exactly by the concatenation containing that node,
and both fields are None afterwards; otherwise they are untouched.
Bounded: ordered pairs and triples from a statement pool (Python + every xonsh statement form).
"""
from __future__ import annotations

import ast
import itertools
import json
import os
import random
import time

from checks import e1common, irload, pool
from checks.common import REPO, Report, StandIn, json_from, run_py
from engine.pegfacts import Facts
from engine.pegir import walk_pe

STARTERS = {"with_macro_start": ("handle_with_macro_stmt", "_with_macro"), "func_macro_start": ("macro_call", "_call_macro"),
            "proc_macro_start": ("proc_macro_arg", "_proc_macro")}
SETTERS = {"handle_with_macro_start": "_with_macro", "handle_func_macro_start": "_call_macro", "handle_proc_macro_start": "_proc_macro"}


def flag_obligations(rep: Report):
    ir = irload.ir("xonsh")
    # every alternative calling a macro start rule as a *consuming* item ends with the clearing builder
    for name, r in ir.rules.items():
        for ai, a in enumerate(r.alts):
            for it in a.items:
                if it.pe is None or it.pe.kind != "rule" or it.pe.arg not in STARTERS:
                    continue
                builder, flag = STARTERS[it.pe.arg]
                act = ast.unparse(a.action) if a.action is not None else ""
                oid = f"C14.flags.{name}.alt{ai + 1}"
                desc = f"`{name}` alt {ai + 1} calls `{it.pe.arg}` (sets Tokenizer.{flag}) and its action is self.{builder}(...), which clears it"
                if f"self.{builder}(" in act:
                    rep.ok(oid, "protocol", desc, "pegir-unify", function=f"peg_parser/parser.py:XonshParser.{name}")
                else:
                    rep.fail(oid, "protocol", desc, "pegir-unify", f"action is `{act[:120]}`", witness={"rule": name, "alt": ai + 1, "action": act[:200]})
    # setters / clearers in subheader.py
    tree = ast.parse(open(os.path.join(REPO, "peg_parser/subheader.py"), encoding="utf-8").read())
    fns = {n.name: n for c in ast.walk(tree) if isinstance(c, ast.ClassDef) and c.name == "Parser" for n in c.body if isinstance(n, ast.FunctionDef)}

    def assigns(fn, flag):
        return [ast.unparse(n.value) for n in ast.walk(fn) if isinstance(n, ast.Assign) and len(n.targets) == 1
                and ast.unparse(n.targets[0]) == f"self._tokenizer.{flag}"]
    for starter, (builder, flag) in STARTERS.items():
        fn = fns.get(builder)
        oid = f"C14.flags.clear.{builder}"
        desc = f"Parser.{builder} sets Tokenizer.{flag} = False on its (only) path"
        top = [s for s in (fn.body if fn else []) if isinstance(s, ast.Assign) and ast.unparse(s.targets[0]) == f"self._tokenizer.{flag}" and ast.unparse(s.value) == "False"]
        if fn is not None and top:
            rep.ok(oid, "protocol", desc, "frames", function=f"peg_parser/subheader.py:Parser.{builder}")
        else:
            rep.fail(oid, "protocol", desc, "frames", "no unconditional top-level `self._tokenizer.%s = False`" % flag, witness={"builder": builder, "flag": flag})
    # the flags are written nowhere else
    for rel in ("peg_parser/subheader.py", "peg_parser/tokenizer.py", "peg_parser/parser.py"):
        t = ast.parse(open(os.path.join(REPO, rel), encoding="utf-8").read())
        writers = {}
        for fn in ast.walk(t):
            if isinstance(fn, ast.FunctionDef):
                for n in ast.walk(fn):
                    if isinstance(n, ast.Assign):
                        for tg in n.targets:
                            if isinstance(tg, ast.Attribute) and tg.attr in ("_with_macro", "_call_macro", "_proc_macro", "_path_token"):
                                writers.setdefault(tg.attr, set()).add(fn.name)
        allowed = {"_with_macro": {"__init__", "handle_with_macro_start", "handle_with_macro_stmt", "consume_with_macro_params"},
                   "_call_macro": {"__init__", "handle_func_macro_start", "macro_call", "consume_macro_params"},
                   "_proc_macro": {"__init__", "handle_proc_macro_start", "proc_macro_arg"},
                   "_path_token": {"__init__", "handle_fstring", "concatenate_strings"}}
        for flag, ws in sorted(writers.items()):
            oid = f"C14.frame.{flag}.{os.path.basename(rel)}"
            extra = ws - allowed[flag]
            if extra:
                rep.fail(oid, "frame", f"`{flag}` is written only by {sorted(allowed[flag])} ({rel})", "frames", f"also written in {sorted(extra)}", witness=sorted(extra))
            else:
                rep.ok(oid, "frame", f"`{flag}` is written only by {sorted(ws)} ({rel})", "frames", function=rel)
    # fstring is used by strings only
    users = sorted({n for n, r in ir.rules.items() for a in r.alts for it in a.items if it.pe is not None for p in walk_pe(it.pe) if p.kind == "rule" and p.arg == "fstring"})
    helpers_ok = all(u == "strings" or u.startswith("_tmp_") for u in users)
    st = ir.rules.get("strings")
    act = ast.unparse(st.alts[0].action) if st and st.alts and st.alts[0].action is not None else ""
    if helpers_ok and "concatenate_strings" in act:
        rep.ok("C14.path_token.route", "protocol", f"the `fstring` rule (whose builder may set _path_token) is used only via `strings` ({users}), whose action is "
               "self.concatenate_strings(...)", "pegir-unify", function="peg_parser/parser.py:XonshParser.strings")
    else:
        rep.fail("C14.path_token.route", "protocol", "the `fstring` rule is used only via `strings`, whose action is concatenate_strings", "pegir-unify",
                 f"users: {users}; strings action: {act[:100]}", witness={"users": users})


def barrier_obligations(rep: Report):
    ir = irload.ir("xonsh")
    f = Facts(ir, second_pass=True)
    layout = {"NEWLINE", "INDENT", "DEDENT", "ENDMARKER"}
    eats = {n: False for n in ir.rules}

    def pe_eats(pe):
        if pe.kind in ("poslook", "neglook"):
            return False
        if pe.kind == "token" and pe.arg in layout:
            return True
        if pe.kind == "any_token":
            return True
        if pe.kind == "rule":
            return eats.get(pe.arg, False)
        return any(pe_eats(s) for s in pe.subs)
    changed = True
    while changed:
        changed = False
        for n, r in ir.rules.items():
            if not eats[n] and any(it.pe is not None and pe_eats(it.pe) for a in r.alts for it in a.items):
                eats[n] = True
                changed = True
    roots = [r for r in ("star_expressions", "expression", "named_expression", "expressions", "star_named_expression", "annotated_rhs") if r in ir.rules]
    reach = f.reachable(roots)
    for n in sorted(reach):
        oid = f"C14.barrier.{n}"
        desc = f"L4: expression-level rule `{n}` never consumes a NEWLINE/INDENT/DEDENT/ENDMARKER token"
        if eats[n]:
            culprit = next((str(it) for a in ir.rules[n].alts for it in a.items if it.pe is not None and pe_eats(it.pe)), "?")
            rep.fail(oid, "barrier", desc, "pegir-fixpoint", f"item `{culprit}` may consume a layout token", witness={"rule": n, "item": culprit},
                     function=f"peg_parser/parser.py:XonshParser.{n}")
        else:
            rep.ok(oid, "barrier", desc, "pegir-fixpoint", function=f"peg_parser/parser.py:XonshParser.{n}")
    first = f.compute_first()
    fs = first.get("statement", frozenset())
    bad = [k for k in ("else", "elif", "except", "finally") if ("lit", k) in fs]
    if bad:
        rep.fail("C14.continuation", "barrier", "block-continuation keywords are not in first(statement)", "pegir-fixpoint", f"{bad} can start a statement", witness=bad)
    else:
        rep.ok("C14.continuation", "barrier", "the keywords probed after a block (else, elif, except, finally) cannot start a statement: a following statement is never "
               "mistaken for a continuation", "pegir-fixpoint", function="peg_parser/parser.py:XonshParser.statement")


def standin(rep: Report):
    t0 = time.time()
    rnd = random.Random(rep.seed)
    stmts = [s for s in pool.PY_STMTS + pool.XSH_STMTS if s.endswith("\n")]
    stmts += ["case = 1\n", "match = 2\n", "type = 3\n", "else_ = 1\n", "x = (1,\n  2)\n", "s = '''a\nb'''\n", "f'''\n{a}\n'''\n", "with! a:\n    b c\n    d\n", "with! a: x y\n", "with! a:pass\n", "with! a as b:go on\n", "with! a:\n    s = \"\"\"m\n    n\"\"\"\n",
              "f!(a, b)\n", "$(echo! a   b)\n", "$(echo!)\n", "x = ![sudo ! ]\n", "f!()\n", "z=$[ls(a b)]\n", "if a:\n    with! b:\n        c d\n    e\n", "x = 1 \\\n  + 2\n", "# comment\n", "\n", "if a:\n    b\n", "def f():\n    return 1\n",
              "class A:\n    x = 1\n\n    def f(self): pass\n", "try:\n    a\nfinally:\n    b\n", "for i in x:\n    pass\nelse:\n    pass\n", "match x:\n    case 1:\n        pass\n"]
    stmts = list(dict.fromkeys(stmts))
    n = len(stmts)
    pairs = list(itertools.product(range(n), repeat=2))
    if rep.tier == "quick":
        rnd.shuffle(pairs)
        pairs = pairs[:5000]
    # make sure the macro / path-literal / f-string statements meet every other statement in both orders
    special = [i for i, s in enumerate(stmts) if any(k in s for k in ("!", "p'", 'p"', "pf", "f'", 'f"', "$("))]
    pairs += [(i, j) for i in special for j in range(n)] + [(j, i) for i in special for j in range(n)]
    pairs = list(dict.fromkeys(pairs))
    triples = [tuple(rnd.randrange(n) for _ in range(3)) for _ in range(1500 if rep.tier == "quick" else 20000)]
    rc, out, err = run_py("harness/concat.py", [], timeout=3600, stdin=json.dumps({"pool": stmts, "pairs": pairs, "triples": triples}))
    si = StandIn("concatenation", f"{len(pairs)} ordered pairs and {len(triples)} seeded triples from a pool of {n} complete statements (Python and every xonsh statement form)")
    if rc != 0:
        rep.undecided("C14.standin.run", "bounded", "run the concatenation stand-in", "cpython-exec", err[-600:])
    else:
        d = json_from(out)
        si.evaluations = d["evaluations"]
        si.distinct_nontrivial = d["evaluations"]
        for f in d["failures"]:
            parts = f.get("parts") or []
            site = "concat"
            for a, b in zip(parts, parts[1:]):
                if "with!" in a and a.count("\n") > 1 and (b.strip() == "" or b.lstrip().startswith("#")):
                    site = "concat:with-macro-then-blank-or-comment"
            si.failures.append({"input": f["input"], "site": site, "what": f["what"], "observed": f.get("observed") or parts})
        si.samples = [stmts[0] + stmts[1]]
        rep.notes.append(f"pool statements that do not parse alone (skipped): {d['unparsable']}")
    si.seconds = time.time() - t0
    rep.standins.append(si)


def run(rep: Report):
    rep.trust("CPython ast", "engine/pegir, engine/pegfacts", "engine/pyvc (in_recursive_rule restoration)")
    rep.assume("(i) tokenizer neutrality at a top-level NEWLINE (mode stack empty, bracket depth 0, continuation flag false) is assumed, checked by the stand-in only",
               "the composition of the lemmas into parse(A+B) = parse(A) ++ shift(parse(B)) is argued in prose")
    e1common.file_into(rep, "C14", rep.tier)
    flag_obligations(rep)
    barrier_obligations(rep)
    standin(rep)
