"""Loads the real pattern strings (subprocess under the repository's interpreter)."""
import functools

from checks.common import json_from, run_py


@functools.lru_cache(maxsize=None)
def patterns():
    rc, out, err = run_py("harness/dump_patterns.py", [], timeout=60)
    if rc != 0:
        raise RuntimeError("pattern dump failed: " + err[-800:])
    return json_from(out)
