"""C11 -- syntax errors are well-formed and point into the offending source.

Proved (all inputs): wf_error (message, the parser's file name, line >= 1, 1-based column, end not before start, six-element
args) as postcondition of Parser._build_syntax_error and of every raise_* helper, expect_forced, make_syntax_error,
raise_indentation_error, from their real bodies (E1), given token/node positions that are well-formed (tok_wf preserved by
Tokenizer.peek from the stream contract); Tokenizer.get_lines never raises and returns the cached text of each requested
line; every explicit `raise` of a SyntaxError subclass on the parse path is enumerated and must build a located error;
every call of a raise_* helper in the generated parser passes a token or a positioned node (E2 typing); Parser.literal_eval re-raises
an error of the literal itself at the token (E1); Tokenizer.get_lines reads the file as it is now (syntactic obligation).
Bounded: all rejected inputs of a mutation/prefix pool: fields well-formed and `text` begins with source line `lineno`.
"""
from __future__ import annotations

import ast
import io
import json
import os
import random
import re
import time

from checks import e1common, irload, oracle, pool, refcommon
from checks.common import REPO, Report, StandIn


EXOTIC = [
    'f("""page one\x0cpage two\nend""", x for x in y, 1)\n', 's = """a\rb\x0cc\nd"""\nx = (1 2)\n', 'f("""a\u2028b\nc""", 1 +)\n',
    'x = 1  # a\x0cb\ny = (a 1)\n', "s = 'a\x1cb'\ny = (a 1)\n", "x = \'\'\'a\x85\nb\'\'\'; y = (1 2)\n", 'y = """a\nb\nc""" = 3\n',
    "x = (\n  \'\'\'a\n\n  b\'\'\',\n  1 2)\n", "\x0c\nx = 1\ny = (a 1)\n",
]


def raise_sites(rep: Report):
    """every explicit raise of SyntaxError / IndentationError in the hand-written modules"""
    for rel in ("peg_parser/tokenize.py", "peg_parser/tokenizer.py", "peg_parser/subheader.py"):
        tree = ast.parse(open(os.path.join(REPO, rel), encoding="utf-8").read())
        for fn in ast.walk(tree):
            if not isinstance(fn, ast.FunctionDef):
                continue
            k = 0
            for n in ast.walk(fn):
                if not (isinstance(n, ast.Raise) and n.exc is not None):
                    continue
                e = n.exc
                cls = None
                if isinstance(e, ast.Call) and isinstance(e.func, ast.Name):
                    cls = e.func.id
                if cls not in ("SyntaxError", "IndentationError"):
                    if isinstance(e, ast.Call) and isinstance(e.func, ast.Attribute) and e.func.attr in ("_build_syntax_error", "make_syntax_error"):
                        k += 1
                        rep.ok(f"C11.raise.{os.path.basename(rel)}.{fn.name}.{k}", "structural", f"{rel}:{fn.name}: raises what _build_syntax_error built (wf_error by its contract)",
                               "syntactic", function=f"{rel}:{fn.name}")
                    continue
                k += 1
                oid = f"C11.raise.{os.path.basename(rel)}.{fn.name}.{k}"
                located = len(e.args) == 2 and isinstance(e.args[1], (ast.Tuple, ast.Name)) and (not isinstance(e.args[1], ast.Tuple) or len(e.args[1].elts) == 6)
                desc = f"{rel}:{fn.name}: `raise {cls}(...)` builds a located error (message + 6-element (file, line, column, text, end line, end column))"
                if located:
                    rep.ok(oid, "structural", desc, "syntactic", function=f"{rel}:{fn.name}")
                else:
                    rep.fail(oid, "structural", desc, "syntactic", f"`{ast.unparse(n)[:160]}` at line {n.lineno} carries no (complete) location",
                             witness={"file": rel, "function": fn.name, "line": n.lineno, "code": ast.unparse(n)[:200]}, function=f"{rel}:{fn.name}")


def helper_call_sites(rep: Report):
    from engine.pegfacts import Facts
    from engine.pegtypes import Typer
    import re
    ir = irload.ir("xonsh")
    asdl = refcommon.asdl_fields()
    src = open(os.path.join(REPO, "peg_parser/tokenize.py"), encoding="utf-8").read() + open(os.path.join(REPO, "peg_parser/tokenizer.py"), encoding="utf-8").read()
    emitted = set(re.findall(r"Token\.([A-Z_]+)", src))
    reach = Facts(ir, True).reachable(["file", "eval"])
    ty = Typer(ir, asdl, emitted, reach)
    probs = [p for p in ty.run() if p.kind == "errarg"]
    by = {}
    for p in probs:
        by.setdefault((p.rule, p.alt), []).append(p)
    for name in sorted(reach):
        r = ir.rules[name]
        for ai, a in enumerate(r.alts):
            if a.action is None:
                continue
            calls = [n for n in ast.walk(a.action) if isinstance(n, ast.Call) and isinstance(n.func, ast.Attribute) and n.func.attr.startswith("raise_syntax_error")]
            if not calls:
                continue
            oid = f"C11.callsite.{name}.alt{ai + 1}"
            desc = f"`{name}` alt {ai + 1}: {len(calls)} raise_* call(s) pass a token or a positioned node"
            if (name, ai) in by:
                rep.fail(oid, "typing", desc, "pegir-types", "; ".join(p.text for p in by[(name, ai)][:3]), witness=[p.text for p in by[(name, ai)][:3]],
                         function=f"peg_parser/parser.py:XonshParser.{name}")
            else:
                rep.ok(oid, "typing", desc, "pegir-types", function=f"peg_parser/parser.py:XonshParser.{name}")


def standin(rep: Report):
    t0 = time.time()
    rnd = random.Random(rep.seed)
    progs = pool.PY_STMTS + pool.XSH_STMTS + ["x = (1,\n\n 2 3)\n", "x = '''a\nb''' y\n", "f('''a\nb\nc''' y)\n", "if a:\n  b\n c\n", "x = 1\n\n\n# c\ny z\n",
                                              "def f(:\n", "class A\n", "x = [1, 2\n", "f(a for a in b, c)\n", "a = 1 +\n", "print 1\n", "x = 'abc\n", "\tx\n y\n",
                                              "def f[T](): pass\n", "f!((a]\n", "f!(a,\n   (b])\n", "x = 1\ny = f!(a, [b,\n        c)\n", "f!(\n  {k: v)\n)\n", "f!(a,\n  b\n", "x = '\\x'\n", "a\n\n'\\x'\n", "1 = x\n", "del f()\n", "for 1 in x: pass\n", "x = yield = 1\n",
                                              "import a.b as c.d\n", "from . import *, a\n", "with a as 1: pass\n", "try:\n  pass\n", "@\ndef f(): pass\n", "lambda: (yield) = 1\n",
                                              "f(**a, *b)\n", "f(a=1, 2)\n",
                                              # characters str.splitlines() treats as line ends but the tokenizer does not, next to multi-line strings / comments
                                              *EXOTIC, "x = {1: 2, 3}\n", "a if b\n", "x = f'{a b}'\n", "match x:\n  case 1 | y: pass\n case: pass\n"]
    cases = list(progs)
    # errors raised by the tokenizer itself: dedents that match no enclosing level, with spaces, tabs and form feeds in the indentation
    for unit in ("  ", "\t", "\t\t", " \t", "    "):
        for depth in (1, 2, 3):
            head = "".join(f"{unit * d}if a{d}:\n" for d in range(depth))
            for bad_indent in (" ", unit * (depth - 1) + " ", unit * depth + "\x0c ", "\t" if unit != "\t" else "   ", unit * (depth - 1) + "\t "):
                cases.append(f"{head}{unit * depth}x = 1\n{bad_indent}y = 2\n")
    n = (1500 if rep.tier == "quick" else 15000) + len(cases)
    toks = ["(", ")", "[", "]", ":", ",", "=", "x", "1", "def", "if", "\n", " ", "'", "$", "!", "{", "}", ".", "lambda", "*", "@", "\n  "]
    while len(cases) < n:
        p = rnd.choice(progs)
        i = rnd.randrange(len(p) + 1)
        k = rnd.random()
        if k < 0.3:
            cases.append(p[:i])
        elif k < 0.65:
            cases.append(p[:i] + rnd.choice(toks) + p[i:])
        else:
            j = min(len(p), i + rnd.randint(1, 4))
            cases.append(p[:i] + p[j:])
    # the hand-written invalid programs also under other layouts (CRLF, no final newline, tabs, form feed, leading comment)
    cases += [v for p0 in progs[len(pool.PY_STMTS) + len(pool.XSH_STMTS):] for v in pool.layouts(p0)[1:]]
    cases = list(dict.fromkeys(cases))
    res = oracle.run("parse", [{"src": c, "mode": "exec"} for c in cases])
    si = StandIn("error-wellformedness", f"{len(cases)} inputs (pool, hand-written invalid programs, seeded prefixes / insertions / deletions); every SyntaxError/IndentationError "
                 "raised is checked field by field against the source")
    for c, r in zip(cases, res):
        si.evaluations += 1
        if r.get("ok") or r["exc"]["cls"] not in ("SyntaxError", "IndentationError"):
            continue
        si.distinct_nontrivial += 1
        e = r["exc"]
        lines = io.StringIO(c).readlines()
        bad = None
        if not e.get("msg"):
            bad = "no message"
        elif e.get("nargs", 0) < 2 or e.get("lineno") is None:
            bad = f"bare {e['cls']}({e['msg'][:60]!r}): no file name / position"
        elif not e.get("filename"):
            bad = "no file name"
        elif not (1 <= e["lineno"] <= len(lines) + 1):
            bad = f"lineno {e['lineno']} outside 1..{len(lines) + 1}"
        elif e.get("offset") is None or e["offset"] < 1:
            bad = f"offset {e.get('offset')} is not a 1-based column"
        else:
            line = lines[e["lineno"] - 1] if e["lineno"] <= len(lines) else ""
            if e["offset"] > len(line) + 1:
                bad = f"offset {e['offset']} beyond the end of line {e['lineno']} (length {len(line)})"
            elif e.get("end_lineno") is None or e.get("end_offset") is None:
                bad = "no end position"
            elif (e["end_lineno"], e["end_offset"]) < (e["lineno"], e["offset"]):
                bad = f"end {(e['end_lineno'], e['end_offset'])} before start {(e['lineno'], e['offset'])}"
            elif e.get("text") is None or not e["text"].startswith(line.rstrip("\n")) and not line.startswith(e["text"].rstrip("\n")):
                bad = f"text {e.get('text')!r} does not begin with source line {e['lineno']} {line!r}"
        if bad:
            site = "bare" if bad.startswith("bare") else ("tokenize-indent" if e.get("filename") == "<tokenize>" else "field")
            txt = (e.get("text") or "").rstrip("\n")
            from_literal = bool(re.match(r"[A-Za-z]{0,3}['\"]", txt)) and e.get("lineno") == 1 and txt in c and txt not in [ln.rstrip("\n") for ln in lines]
            if site == "field" and (re.search(r"\((unicode|value) error\)|bytes can only contain ASCII|invalid \w+ literal|leading zeros|invalid character|unterminated string", e.get("msg", ""))
                                    or from_literal):
                # raised by ast.literal_eval on a token's text (recognisable: `text` is exactly a string literal of the source, not a source line, line 1):
                # carries the token's own coordinates (known finding)
                site = "literal_eval"
            si.failures.append({"input": c, "site": f"error:{site}", "what": f"{e['cls']}: {bad}", "observed": {"problem": bad, "msg": e.get("msg", "")[:80], "args": [e.get(k) for k in ("filename", "lineno", "offset", "end_lineno", "end_offset")]}})
    si.samples = cases[:3]
    si.seconds = time.time() - t0
    rep.standins.append(si)
    # file mode: the hand-written invalid programs written one after the other to ONE path and parsed from there (a script edited and parsed
    # again): the reported text must be the line of the file AS IT IS NOW
    t1 = time.time()
    import json as _json
    import subprocess
    from checks.common import REPO, VENV_PY, VERIF
    inv = [p0 for p0 in progs[len(pool.PY_STMTS) + len(pool.XSH_STMTS):] if "\r" not in p0 and "\x0c" not in p0][:120]
    sf = StandIn("file-mode-errors-one-path", f"{len(inv)} invalid programs written in turn to the same path and parsed with parse_file in one process; "
                 "`text` of each error must begin with the reported line of the CURRENT content")
    env = dict(os.environ)
    env["PYTHONPATH"] = REPO
    pr = subprocess.run([VENV_PY, os.path.join(VERIF, "harness", "file_vs_string.py")], input=_json.dumps({"contents": inv, "same_path": True}), capture_output=True, text=True,
                        env=env, timeout=1200, cwd="/")
    if pr.returncode != 0:
        rep.undecided("C11.standin.file-mode", "bounded", "run the file-mode stand-in", "cpython-exec", pr.stderr[-600:])
    else:
        dd = _json.loads([ln for ln in pr.stdout.splitlines() if ln.startswith("{")][-1])
        for c, r in zip(inv, dd["results"]):
            sf.evaluations += 1
            e = r["file"]
            if e.get("ok") or e.get("exc") not in ("SyntaxError", "IndentationError") or e.get("lineno") is None:
                continue
            sf.distinct_nontrivial += 1
            lines = io.StringIO(c).readlines()
            line = lines[e["lineno"] - 1] if 1 <= e["lineno"] <= len(lines) else ""
            txt = e.get("text")
            sm = r["string"]
            if txt is None or (not txt.startswith(line.rstrip("\n")) and not line.startswith(txt.rstrip("\n"))):
                if sm.get("text") == txt:
                    continue            # the same text is reported for string input: judged (and, where known, recorded) by the string-mode stand-in above
                sf.failures.append({"input": c, "site": "error:file-mode-text", "what": f"parse_file reports text {txt!r}, line {e['lineno']} of the file is {line!r}",
                                    "observed": {"file": e, "string": sm}})
    sf.seconds = time.time() - t1
    rep.standins.append(sf)


def lines_obligation(rep: Report, prop: str = "C11"):
    """Tokenizer.get_lines reads the file it is given at the moment of the error: the builtin open(self._path, encoding=...) and nothing that
    remembers earlier contents of the path (linecache, functools caches, module-level dicts)"""
    rel = "peg_parser/tokenizer.py"
    from checks.common import REPO
    try:
        tree = ast.parse(open(os.path.join(REPO, rel), encoding="utf-8").read())
    except (OSError, SyntaxError) as e:
        rep.undecided(f"{prop}.lines.fresh_read", "ambient", f"parse {rel}", "frames", repr(e))
        return
    fn = next((m for c in ast.walk(tree) if isinstance(c, ast.ClassDef) and c.name == "Tokenizer" for m in c.body
               if isinstance(m, ast.FunctionDef) and m.name == "get_lines"), None)
    desc = "Tokenizer.get_lines (file input) reads the lines from the file as it is now: builtin open(self._path, ...) inside the function, no linecache / memoised reader"
    if fn is None:
        rep.undecided(f"{prop}.lines.fresh_read", "ambient", desc, "frames", "Tokenizer.get_lines not found")
        return
    calls = [n for n in ast.walk(fn) if isinstance(n, ast.Call)]
    opens = [n for n in calls if (isinstance(n.func, ast.Name) and n.func.id == "open")
             or (isinstance(n.func, ast.Attribute) and n.func.attr == "open" and ast.unparse(n.func.value).split(".")[0] not in ("linecache", "tokenize", "codecs", "os"))]
    foreign = [ast.unparse(n)[:70] for n in calls if isinstance(n.func, ast.Attribute) and isinstance(n.func.value, ast.Name)
               and n.func.value.id in ("linecache", "functools", "tokenize", "codecs", "os") and n not in opens]
    deco = [ast.unparse(d) for d in fn.decorator_list]
    ok = len(opens) == 1 and "self._path" in ast.unparse(opens[0]) and not foreign and not deco
    if ok:
        rep.ok(f"{prop}.lines.fresh_read", "ambient", desc, "frames", function=f"{rel}:Tokenizer.get_lines")
    else:
        rep.fail(f"{prop}.lines.fresh_read", "ambient", desc, "frames", f"open() calls: {[ast.unparse(o)[:60] for o in opens]}; other readers: {foreign}; decorators: {deco}",
                 witness={"opens": [ast.unparse(o) for o in opens], "foreign": foreign, "decorators": deco}, function=f"{rel}:Tokenizer.get_lines")


def run(rep: Report):
    rep.trust("z3 / cvc5", "engine/pyvc", "engine/pegtypes", "CPython ast")
    rep.assume("A1 Python semantics of the supported subset", "positions of tokens are well-formed (contract of _tokenize: tok_wf for the stream; preserved by peek)",
               "nodes handed to the helpers carry the positions their actions gave them (C04 typing: LOCATIONS everywhere)",
               "call sites of known_range / starting_from pass ordered positions (precondition stated, checked only by the stand-in)",
               "ast.literal_eval is external: it returns a value or raises SyntaxError with coordinates of its own (re-located by Parser.literal_eval, E1); "
               "its ValueError subclasses for non-literal text are not modelled (tokens handed to it are NUMBER / STRING tokens)")
    e1common.file_into(rep, "C11", rep.tier)
    raise_sites(rep)
    helper_call_sites(rep)
    lines_obligation(rep)
    standin(rep)
