"""Obligations about the generated parser as a whole (E2): termination ranking L1, ENDMARKER discipline
(never_past_end), reachability.  Shared by C03 / C18 / C02."""
from __future__ import annotations

import time

import z3

from checks.common import Report
from engine.pegfacts import Facts, find_cycle
from engine.pegir import walk_pe

ROOTS = ["file", "eval"]


def rank_obligations(rep: Report, ir, prop: str):
    """L1: a z3 model of rank(callee) < rank(caller) for every call made at an unchanged index, edges into
    @memoize_left_rec leaders cut (the wrapper primes the cache before running the body, so re-entry at the same
    position returns at once).  The model is the termination certificate and is re-checked concretely."""
    for sp, label in ((False, "pass1"), (True, "pass2")):
        f = Facts(ir, second_pass=sp)
        reach = f.reachable(ROOTS)
        leaders = {n for n, r in ir.rules.items() if r.decorator == "memoize_left_rec"}
        edges = {}
        for n in reach:
            edges[n] = sorted({c for c, _a, _i in f.sameidx_edges(ir.rules[n]) if c in ir.rules and c not in leaders})
        t0 = time.time()
        s = z3.Solver()
        s.set("timeout", 20000)
        rk = {n: z3.Int(f"rank_{n}") for n in reach}
        for n, cs in edges.items():
            s.add(rk[n] >= 0)
            for c in cs:
                if c in rk:
                    s.add(rk[c] < rk[n])
        r = s.check()
        dt = time.time() - t0
        if r == z3.sat:
            m = s.model()
            val = {n: m.eval(rk[n], model_completion=True).as_long() for n in reach}
            ok = all(val[c] < val[n] for n, cs in edges.items() for c in cs if c in val)
            per = dt / max(1, len(reach))
            for n in sorted(reach):
                oid = f"{prop}.rank.{label}.{n}"
                desc = (f"[{label}] every rule that {n} calls while the token index is unchanged has a smaller rank "
                        f"(rank={val[n]}; callees {[(c, val[c]) for c in edges[n]][:6]}); left-recursive leaders are re-entered through their primed cache")
                if ok:
                    rep.ok(oid, "variant", desc, "z3", per, function=f"peg_parser/parser.py:XonshParser.{n}")
                else:
                    rep.undecided(oid, "variant", desc, "z3", "model does not satisfy the constraints (solver defect)")
        elif r == z3.unsat:
            cyc = find_cycle(edges.keys(), edges)
            rep.fail(f"{prop}.rank.{label}", "variant", f"[{label}] the calls made at an unchanged token index admit a ranking (no unbounded recursion)",
                     "z3", f"unsat; cycle of same-index calls without a left-recursive leader: {' -> '.join(cyc or [])}",
                     witness={"cycle": cyc}, seconds=dt, function="peg_parser/parser.py:XonshParser." + (cyc[0] if cyc else "?"))
        else:
            rep.undecided(f"{prop}.rank.{label}", "variant", "ranking of same-index calls", "z3", s.reason_unknown(), seconds=dt)
        # left-recursive alternatives only re-enter their own SCC leader through the cache: every leader's SCC members are `logger`
    return


def eof_obligations(rep: Report, ir, prop: str):
    """never_past_end: the ENDMARKER is consumed only as the LAST item of an alternative of a start rule, and no rule
    reachable from the entry points uses any_token / expect('') -- so `Tokenizer.peek` is never asked for a token
    beyond ENDMARKER (this discharges the `can_peek` assumption made about rule-like callables in E1)."""
    f = Facts(ir, second_pass=True)
    eof = f.compute_eof()
    reach = f.reachable(ROOTS)
    start = set(ROOTS) | {"interactive", "statement_newline"}
    for n in sorted(reach):
        r = ir.rules[n]
        problems = []
        for ai, a in enumerate(r.alts):
            items = [it for it in a.items if it.pe is not None]
            for ii, it in enumerate(items):
                direct = any((p.kind == "token" and p.arg == "ENDMARKER") or p.kind == "any_token" or (p.kind == "expect" and p.arg in ("", "ENDMARKER"))
                             for p in walk_pe(it.pe))
                via = any(p.kind == "rule" and eof.get(p.arg) for p in walk_pe(it.pe))
                if not (direct or via):
                    continue
                inside_look = it.pe.kind in ("poslook", "neglook")
                if inside_look:
                    continue                       # a lookahead restores the cursor
                if it.pe.kind == "token" and it.pe.arg == "ENDMARKER" and ii == len(items) - 1 and n in start:
                    continue
                problems.append(f"alt {ai + 1} item {ii + 1} `{it}` may consume ENDMARKER" + ("" if n in start else " outside a start rule"))
        oid = f"{prop}.eof.{n}"
        desc = f"rule {n} never leaves the cursor past ENDMARKER (ENDMARKER only as last item of a start rule; no any_token / expect(''))"
        if problems:
            rep.fail(oid, "safety", desc, "pegir-fixpoint", "; ".join(problems), witness=problems, function=f"peg_parser/parser.py:XonshParser.{n}")
        else:
            rep.ok(oid, "safety", desc, "pegir-fixpoint", function=f"peg_parser/parser.py:XonshParser.{n}")
    unreachable = sorted(set(ir.rules) - reach)
    rep.notes.append(f"methods not reachable from the public entry points (file, eval), unchecked: {unreachable}")
