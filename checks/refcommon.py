"""refines(R) + L2 gating + action correspondence, shared by C01 and C02."""
from __future__ import annotations

import functools
import os
import time

from checks import irload
from checks.common import REPO, VERIF, Report, json_from, run_py
from engine import gramref
from engine.pegfacts import Facts

DIAGNOSTIC_ONLY = {"expression_without_invalid": "only evaluated inside invalid_expression; its tree is never returned"}


@functools.lru_cache(maxsize=None)
def reference():
    rc, out, err = run_py("harness/dump_refgrammar.py", [REPO, os.path.join(VERIF, "spec", "ref", "python311.gram")], timeout=120)
    if rc != 0:
        raise RuntimeError("reference grammar dump failed: " + err[-600:])
    return json_from(out)


@functools.lru_cache(maxsize=None)
def asdl_fields():
    rc, out, err = run_py("harness/asdl_dump.py", [], timeout=60)
    if rc != 0:
        raise RuntimeError("asdl dump failed: " + err[-400:])
    return json_from(out)


def refine_obligations(rep: Report, prop: str, with_actions: bool):
    our, ref = irload.grammar("xonsh"), reference()
    ir = irload.ir("xonsh")
    t0 = time.time()
    res = gramref.refine(our, ref)
    f = Facts(ir, second_pass=False)
    must = f.compute_must(gramref.XONSH_LITS, gramref.XONSH_TYPES)
    ours = {r["name"]: r for r in our["rules"]}
    refs = {gramref.RENAME.get(r["name"], r["name"]): r for r in ref["rules"]}
    dt = (time.time() - t0) / max(1, len(res))
    fields = asdl_fields()["fields"] if with_actions else {}
    nact = {"equal": 0, "not-comparable": 0, "no-action": 0}
    for r in res:
        fn = f"peg_parser/parser.py:XonshParser.{r.rule}"
        oid = f"{prop}.refines.{r.rule}"
        if r.status == "assumed-delta":
            rep.assume(f"3.12 delta (reference grammar is 3.11), rule `{r.rule}` not compared: {r.detail}")
            continue
        if r.status == "mismatch":
            rep.fail(oid, "refinement", f"rule `{r.rule}` refines CPython's `{r.rule}` (same alternatives in the same order up to the refinement map)",
                     "gramref-unify", r.detail, witness={"rule": r.rule, "detail": r.detail}, function=fn)
            continue
        rep.ok(oid, "refinement", f"rule `{r.rule}`: its {len(r.matched)} non-diagnostic alternatives are CPython's, in order"
               + (f"; {len(r.extra_alts)} extra alternative(s) checked separately" if r.extra_alts else ""), "gramref-unify", dt, function=fn)
        # extra alternatives: 3.12 delta or xonsh-gated
        irr = ir.rules.get(r.rule)
        for i in r.extra_alts:
            oid2 = f"{prop}.gating.{r.rule}.alt{i + 1}"
            form = gramref.alt_forms({"name": r.rule, "rhs": {"alts": [ours[r.rule]["rhs"]["alts"][i]]}}, "our", {})[0]
            if (r.rule,) + tuple(form[:1]) in gramref.DELTA_EXTRA_ALTS:
                rep.assume(f"3.12 delta: `{r.rule}` alternative {i + 1} ({gramref.DELTA_EXTRA_ALTS[(r.rule,) + tuple(form[:1])]}) is not in the 3.11 reference")
                continue
            desc = (f"L2: extra alternative {i + 1} of `{r.rule}` (`{gramref.show(form)[:80]}`) can only succeed by consuming a xonsh-only lexeme "
                    f"(one of {sorted(gramref.XONSH_LITS)} or a SEARCH_PATH/MACRO_PARAM/WS token)")
            ok = irr is not None and i < len(irr.alts) and f.alt_must(irr.alts[i])
            if ok:
                rep.ok(oid2, "gating", desc, "pegir-fixpoint", function=fn)
            else:
                rep.fail(oid2, "gating", desc, "pegir-fixpoint",
                         "the alternative is not in CPython's rule and nothing forces a xonsh lexeme: text in the Python lexicon can be accepted through it",
                         witness={"rule": r.rule, "alt": i + 1, "form": gramref.show(form)}, function=fn)
        if with_actions and r.rule not in DIAGNOSTIC_ONLY:
            noninv = [a for a in refs[r.rule]["rhs"]["alts"]
                      if not gramref.is_invalid_alt(gramref.alt_forms({"name": r.rule, "rhs": {"alts": [a]}}, "ref", {})[0])]
            for i, j in r.matched:
                oa, ra = ours[r.rule]["rhs"]["alts"][i]["action"], noninv[j]["action"]
                if not oa or not ra:
                    nact["no-action"] += 1
                    continue
                v, d = gramref.compare_action(ra, oa, lambda n: fields.get(n))
                oid3 = f"{prop}.action.{r.rule}.alt{i + 1}"
                if v == "equal":
                    nact["equal"] += 1
                    rep.ok(oid3, "action", f"`{r.rule}` alt {i + 1} builds the node CPython builds: same constructor, field <- operand binding, operator, ctx "
                           f"(reference: {ra.strip()[:70]})", "gramref-unify", function=fn)
                elif v == "differs":
                    rep.fail(oid3, "action", f"`{r.rule}` alt {i + 1} builds the node CPython builds (reference action: {ra.strip()[:90]})", "gramref-unify", d,
                             witness={"rule": r.rule, "alt": i + 1, "detail": d, "real_action": oa.strip()[:300]}, function=fn)
                else:
                    nact["not-comparable"] += 1
    if with_actions:
        rep.assume(f"{nact['not-comparable']} reference actions call _PyPegen_* helpers or are not plain constructor calls: not compared (builders are specified "
                   f"directly in E1 where under contract); {nact['no-action']} matched alternatives have no action on one side (pass-through)")
        for k, v in DIAGNOSTIC_ONLY.items():
            rep.notes.append(f"rule `{k}` excluded from action comparison: {v}")
    rep.extra["refinement"] = {"rules_compared": len(res), "actions": nact}
