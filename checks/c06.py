"""C06 -- subprocess arguments follow source word boundaries and map to the right runtime call.

Proved (all inputs):
  * bracket form -> runtime method table of `sub_procs` on the real generated parser (E2): `$(`->subproc_captured, `$[`->
    subproc_uncaptured, `!(`->subproc_captured_object, `![`->subproc_captured_hiddenobject, closer of the same bracket kind;
    `@(`->proc_pyexpr (starred list_of_strs_or_callables), `@$(`->proc_inject (starred subproc_captured_inject), `$NAME`->env lookup;
    proc_cmds returns self.proc_args(...) of its proc_cmd+ list unchanged;
  * adjacency is purely positional: Parser.is_adjacent(prev, curr) <=> prev.end == curr.start (E1), and WS tokens are dropped by
    Tokenizer.is_blank outside subprocess macros (E1), so two pieces are adjacent iff no whitespace was between them (given C08);
  * (E3) every spelling of the shell-word alphabet is made of NAME / NUMBER / operator characters: no ERRORTOKEN.
  * the grouping loop itself (E1, real bodies of Parser._proc_args, proc_args and _append_node_or_token over a list of unknown length
    of tokens / nodes): the number of arguments yielded is the number of maximal runs of adjacent pieces (spec functions runs /
    run_begin, defined by recursion over the list), argument k spans from the start of its run's first piece to the end of its last
    one, a run ends exactly at a break or at the end of the list; merging two plain words appends the text; handle_proc / proc_inject
    pass the grouped list on unchanged to the call of the table's method.
Bounded stand-in: command lines of <= 3 words from a 36-word pool x spacing x gluing vs an independent
whitespace splitter.
"""
from __future__ import annotations

import ast
import itertools
import json
import time

from checks import e1common, irload, rxload
from checks.common import Report, StandIn, json_from, run_py
from engine import rx

TABLE = [("$(", ")", "subproc_captured"), ("$[", "]", "subproc_uncaptured"), ("![", "]", "subproc_captured_hiddenobject"), ("!(", ")", "subproc_captured_object")]
WORDS = ["ls", "-l", "--color=auto", "a.b/c", "1", "1.5", "x=1", "a:b", "a,b", "+c", "%d", "^x", "~", "*", "*.py", "<", ">", "|", "&", ";", "@", "é", "0x1f", "2>", "a-b",
         "'q s'", '"d q"', "r'raw\\n'", "$HOME", "@(x)", "@(a + 1)", "@$(which y)", "$(inner a)", "![hid b]", "out.txt", "./run"]
ALPHABET = "abcXYZ019_-./=:,+%^~*<>|&;@"


def expected_word(w):
    """independent reading of one shell word (no whitespace inside except in quotes / nested forms)"""
    if w[0] in "'\"" or w[:2] in ("r'", 'r"'):
        return ["str", w]                     # quoted strings are passed verbatim as string constants (source text incl. quotes)
    if w.startswith("$(") and w.endswith(")"):
        return ["call:subproc_captured", [["str", x] for x in w[2:-1].split()]]
    if w.startswith("![") and w.endswith("]"):
        return ["call:subproc_captured_hiddenobject", [["str", x] for x in w[2:-1].split()]]
    if w.startswith("@$(") and w.endswith(")"):
        return ["star:subproc_captured_inject", [["str", x] for x in w[3:-1].split()]]
    if w.startswith("@(") and w.endswith(")"):
        return ["star:list_of_strs_or_callables", [["py", ast.unparse(ast.parse("(" + w[2:-1] + ")", mode="eval").body)]]]
    if w.startswith("$") and w[1:].isidentifier():
        return ["env", repr(w[1:])]
    return ["str", w]


def table_obligations(rep: Report):
    ir = irload.ir("xonsh")
    r = ir.rules.get("sub_procs")
    seen = {}
    for ai, a in enumerate(r.alts if r else []):
        items = a.real_items()
        lits = [it.pe.arg for it in items if it.pe.kind == "expect"]
        act = a.action
        method = None
        if isinstance(act, ast.Call) and isinstance(act.func, ast.Attribute) and act.func.attr == "handle_proc" and act.args and isinstance(act.args[0], ast.Constant):
            method = act.args[0].value
        arg_ok = isinstance(act, ast.Call) and len(act.args) >= 2 and isinstance(act.args[1], ast.Name) and any(it.var == act.args[1].id and it.pe.kind == "rule" and it.pe.arg == "proc_cmds" for it in items)
        seen[(lits[0] if lits else None, lits[-1] if lits else None)] = (method, arg_ok, ai)
    for op, cl, method in TABLE:
        oid = f"C06.table.{method}"
        got = seen.get((op, cl))
        desc = f"`{op} ... {cl}` calls __xonsh__.{method} with the proc_cmds result as its arguments"
        if got and got[0] == method and got[1]:
            rep.ok(oid, "routing", desc, "pegir-unify", function="peg_parser/parser.py:XonshParser.sub_procs")
        else:
            rep.fail(oid, "routing", desc, "pegir-unify", f"sub_procs maps: { {k: v[0] for k, v in seen.items()} }", witness={str(k): v[0] for k, v in seen.items()})
    pc = ir.rules.get("proc_cmd")
    want = {"@(": "proc_pyexpr", "@$(": "proc_inject"}
    for ai, a in enumerate(pc.alts if pc else []):
        items = a.real_items()
        if items and items[0].pe.kind == "expect" and items[0].pe.arg in want:
            b = want[items[0].pe.arg]
            act = ast.unparse(a.action) if a.action is not None else ""
            oid = f"C06.table.{b}"
            if f"self.{b}(" in act:
                rep.ok(oid, "routing", f"`{items[0].pe.arg} ... )` inside a subprocess is built by self.{b}", "pegir-unify", function="peg_parser/parser.py:XonshParser.proc_cmd")
            else:
                rep.fail(oid, "routing", f"`{items[0].pe.arg} ... )` inside a subprocess is built by self.{b}", "pegir-unify", f"action `{act[:100]}`", witness=act[:100])
    pcs = ir.rules.get("proc_cmds")
    act = ast.unparse(pcs.alts[0].action) if pcs and pcs.alts[0].action is not None else ""
    it0 = pcs.alts[0].real_items()[0] if pcs else None
    ok = pcs is not None and it0.pe.kind == "repeated" and it0.pe.subs[0].arg == "proc_cmd" and act == f"self.proc_args({it0.var})"
    if ok:
        rep.ok("C06.route.proc_cmds", "routing", "`proc_cmds` = proc_cmd+ and returns self.proc_args(<that list>) (order preserved, nothing dropped before grouping)", "pegir-unify",
               function="peg_parser/parser.py:XonshParser.proc_cmds")
    else:
        rep.fail("C06.route.proc_cmds", "routing", "`proc_cmds` = proc_cmd+ and returns self.proc_args(<that list>)", "pegir-unify", f"{pcs}; action {act}", witness=act)
    # alphabet: every character of the shell-word alphabet starts/continues a Name, Number or operator lexeme
    d = rxload.patterns()
    ops = "".join(sorted(set("".join(d["ops"]))))
    bad = [c for c in ALPHABET if not (c.isalnum() or c == "_" or c in ops)]
    if bad:
        rep.fail("C06.alphabet", "lemma", "every character of the shell-word alphabet belongs to a NAME / NUMBER / operator lexeme", "syntactic", f"not covered: {bad}", witness=bad)
    else:
        rep.ok("C06.alphabet", "lemma", f"every character of the shell-word alphabet `{ALPHABET}` is a word character or an operator character of OPS: none becomes an ERRORTOKEN",
               "syntactic", function="peg_parser/tokenize.py")


def flatten(x):
    if x[0] == "glue":
        out = []
        for y in x[1]:
            fy = flatten(y)
            out.extend(fy[1] if fy[0] == "glue" else [fy])
        # adjacent plain strings inside a glue are one string
        merged = []
        for y in out:
            if merged and merged[-1][0] == "str" and y[0] == "str":
                merged[-1] = ["str", merged[-1][1] + y[1]]
            else:
                merged.append(y)
        return merged[0] if len(merged) == 1 else ["glue", merged]
    if x[0].startswith(("call:", "star:")) and isinstance(x[1], list):
        return [x[0], [flatten(y) if isinstance(y, list) and y and isinstance(y[0], str) else y for y in x[1]]]
    return x


def standin(rep: Report):
    t0 = time.time()
    cases = []
    seps = [" ", "   ", "\t", " \t "]
    n = 0
    for k in (1, 2, 3):
        combos = itertools.product(WORDS, repeat=k) if k < 3 else itertools.product(WORDS[:18], WORDS[18:], WORDS[:12])
        for ws in combos:
            n += 1
            if rep.tier == "quick" and k == 3 and n % 5:
                continue
            sep = seps[n % len(seps)]
            op, cl, method = TABLE[n % 4]
            body = sep.join(ws)
            pad = " " if n % 3 == 0 else ""
            cases.append({"src": f"{op}{pad}{body}{pad}{cl}\n", "expect": [expected_word(w) for w in ws], "method": method})
    # gluing: pieces written without whitespace form one argument
    glue = [("a", "$HOME", "/b"), ("pre", "@(x)", "suf"), ("@(x)", ".tar", ".gz"), ("out/", "@(x)", ".txt"), ("a", "@(x)", "b.c"), ("@$(which f)", "-1.0"), ("$A", "$B"),
            ("x", "=", "$HOME"), ("--opt=", "'q s'"), ("a", "$(inner a)", "b")]
    for g in glue:
        for op, cl, method in TABLE[:2]:
            exp = flatten(["glue", [expected_word(w) for w in g]])
            cases.append({"src": f"{op}echo {''.join(g)} z{cl}\n", "expect": [["str", "echo"], exp, ["str", "z"]], "method": method, "glued": True})
    # gluing across lines: a nested form or a triple-quoted string that contains a line break is still ONE piece, adjacent to what is
    # written directly before / after it (the pieces' end line differs from their start line)
    glue_ml = [("pre", "$(inner\n  a)"), ("--dir=", "@(a,\n   b)", "/bin"), ("pre", "@$(which\n y)", "post"), ("$HOME", "$(inner\n a)"),
               ("--msg=", '"""hello\nworld"""'), ("-v", "\'\'\'%s\n\'\'\'", "x"), ("a", "![hid\n b]", "c"), ("out/", "@(x\n)", ".txt")]
    for g in glue_ml:
        for op, cl, method in TABLE:
            exp = flatten(["glue", [expected_word(w) for w in g]])
            cases.append({"src": f"{op}echo {''.join(g)} z{cl}\n", "expect": [["str", "echo"], exp, ["str", "z"]], "method": method, "glued": True})
            cases.append({"src": f"r = f(1, {op}echo {''.join(g)}{cl})\n", "expect": [["str", "echo"], exp], "method": method, "glued": True})
    rc, out, err = run_py("harness/desugar.py", [], timeout=3600, stdin=json.dumps({"op": "c06", "cases": cases}))
    si = StandIn("word-boundaries", f"{len(cases)} command lines: <= 3 words from a {len(WORDS)}-word pool x 4 spacings x 4 bracket forms, plus {len(glue)} glued forms; arguments compared "
                 "with an independent whitespace splitter")
    if rc != 0:
        rep.undecided("C06.standin.run", "bounded", "run the word-boundary stand-in", "cpython-exec", err[-600:])
    else:
        d = json_from(out)
        si.evaluations = d["evaluations"]
        si.distinct_nontrivial = d["evaluations"]
        for f in d["failures"]:
            c = f.get("case") or {}
            got = f["observed"]
            si.failures.append({"input": f["input"], "site": "glue" if c.get("glued") else "split", "what": got[:300], "observed": got[:400]})
        si.samples = [cases[0]["src"], cases[100]["src"]]
    si.seconds = time.time() - t0
    rep.standins.append(si)


def run(rep: Report):
    rep.trust("CPython ast", "engine/pegir", "engine/pyvc")
    rep.assume("tokens tile the source (C08), so equal end/start coordinates mean no character in between",
               "pieces that are not tokens are modelled by their class (Constant / Starred / Tuple / other node) and positions only",
               "Python reserved words as command words are outside the property's domain")
    e1common.file_into(rep, "C06", rep.tier)
    table_obligations(rep)
    standin(rep)
