"""C02 -- no over-acceptance: text in the Python lexicon that CPython rejects is rejected.

Proved (all inputs):
  * Parser.parse (E1): a failed first pass can never yield a tree (returns only what the requested pass returned; never None);
  * refines(R) for every rule shared with CPython's grammar (E4): same alternatives in the same order, so on Python-lexicon
    input first-pass acceptance is the reference's; every EXTRA alternative is gated by a xonsh-only lexeme (L2, on the IR);
  * invalid_ alternatives are gated by call_invalid_rules (checked by C16's implements; the flag is written only by parse
    and *_without_invalid: frame);
  * start rules end with ENDMARKER; no rule matches ERRORTOKEN; every grammar literal is a name or an operator lexeme (E3).
Bounded: verdict agreement with ast.parse on token strings, single-token mutations and prefixes of valid programs.
Not decided: over-acceptance through the 3.12-delta rules; lexemes the C tokenizer rejects for its own reasons.
"""
from __future__ import annotations

import ast
import itertools
import os
import random
import time

from checks import e1common, irload, oracle, pool, refcommon, rxload
from checks.common import REPO, Report, StandIn
from engine import gramref, rx
from engine.pegir import walk_pe

PY_TOKENS = ["a", "b", "1", "'s'", "(", ")", "[", "]", "{", "}", ",", ":", ".", "=", "+", "-", "*", "**", "/", "lambda", "if", "else", "for", "in",
             "not", "and", "or", "def", "class", "return", "pass", "import", "from", "as", "with", "yield", "await", "async", ":=", "->", "@", "...", ";",
             "is", "==", "<", "del", "None", "global", "try", "except", "finally", "raise", "while", "%", "|", "~", "match", "case", "_", "type"]
XONSH_CHARS = ("$", "?", "!", "`", "&&", "||", "@(")


def structural_obligations(rep: Report):
    ir = irload.ir("xonsh")
    # start rules demand ENDMARKER
    for start in ("file", "eval"):
        r = ir.rules.get(start)
        ok = r is not None and all(a.real_items() and a.real_items()[-1].pe.kind == "token" and a.real_items()[-1].pe.arg == "ENDMARKER" for a in r.alts)
        oid = f"C02.start.{start}"
        if ok:
            rep.ok(oid, "structural", f"start rule `{start}` succeeds only with ENDMARKER as its last item (trailing garbage fails the parse)", "pegir-unify",
                   function=f"peg_parser/parser.py:XonshParser.{start}")
        else:
            rep.fail(oid, "structural", f"start rule `{start}` succeeds only with ENDMARKER as its last item", "pegir-unify", str(r)[:300], witness=str(r)[:300])
    # no rule accepts ERRORTOKEN; literals are operator or name lexemes
    lits, toks = set(), set()
    for r in ir.rules.values():
        for a in r.alts:
            for it in a.items:
                if it.pe is not None:
                    for p in walk_pe(it.pe):
                        if p.kind == "expect":
                            lits.add(p.arg)
                        if p.kind == "token":
                            toks.add(p.arg)
    if "ERRORTOKEN" in toks:
        rep.fail("C02.errortoken", "structural", "no rule matches an ERRORTOKEN", "pegir-unify", "token('ERRORTOKEN') is used", witness="ERRORTOKEN")
    else:
        rep.ok("C02.errortoken", "structural", f"no rule matches an ERRORTOKEN (token types used: {sorted(toks)})", "pegir-unify", function="peg_parser/parser.py")
    d = rxload.patterns()
    special, name = rx.tr(d["ours"]["Special"]), rx.tr(d["ours"]["Name"])
    bad = []
    t0 = time.time()
    ops = set(d["ops"])
    for s in sorted(lits):
        if s in ops:
            continue
        if s.isidentifier():
            continue
        bad.append(s)
    if bad:
        rep.fail("C02.literals", "lemma", "every literal the grammar expects is an operator of OPS or an identifier", "syntactic", f"other literals: {bad}", witness=bad)
    else:
        rep.ok("C02.literals", "lemma", f"all {len(lits)} literals the grammar expects are operators of OPS or identifiers, so a character that no pattern "
               "matches (ERRORTOKEN) can never satisfy an expect()", "syntactic", time.time() - t0, function="peg_parser/parser.py")
    # call_invalid_rules is written only by parse and the *_without_invalid prologues
    for rel in ("peg_parser/subheader.py", "peg_parser/parser.py"):
        tree = ast.parse(open(os.path.join(REPO, rel), encoding="utf-8").read())
        writers = set()
        for fn in ast.walk(tree):
            if isinstance(fn, ast.FunctionDef):
                for n in ast.walk(fn):
                    tg = n.targets if isinstance(n, ast.Assign) else ([n.target] if isinstance(n, (ast.AugAssign, ast.AnnAssign)) else [])
                    for t in tg:
                        if isinstance(t, ast.Attribute) and t.attr == "call_invalid_rules":
                            writers.add(fn.name)
        extra = {w for w in writers if w not in ("parse", "__init__") and not w.endswith("without_invalid")}
        oid = f"C02.frame.call_invalid_rules.{os.path.basename(rel)}"
        if extra:
            rep.fail(oid, "frame", f"call_invalid_rules is assigned only in parse/__init__/*_without_invalid ({rel})", "frames", f"also assigned in {sorted(extra)}", witness=sorted(extra))
        else:
            rep.ok(oid, "frame", f"call_invalid_rules is assigned only in parse/__init__/*_without_invalid ({rel}): diagnostics are off during the first pass", "frames", function=rel)


def tokenise_ok(src):
    import io
    import tokenize
    try:
        return [t.string for t in tokenize.generate_tokens(io.StringIO(src).readline)]
    except Exception:
        return None


def standin(rep: Report):
    t0 = time.time()
    rnd = random.Random(rep.seed)
    cases = []
    k = 3
    for n in range(1, k + 1):
        for t in itertools.product(PY_TOKENS[:26] if n == 3 else PY_TOKENS, repeat=n):
            cases.append(" ".join(t) + "\n")
    progs = pool.PY_STMTS + [s for _n, f in pool.data_files() for s in pool.split_statements(f)[:40]]
    progs = [p for p in dict.fromkeys(progs) if not any(c in p for c in XONSH_CHARS)]
    nmut = 1500 if rep.tier == "quick" else 20000
    import re
    TOK = re.compile(r"[A-Za-z_]\w*|\d[\w.]*|'[^'\n]*'|\"[^\"\n]*\"|\*\*=?|//=?|->|:=|[<>=!+\-*/%&|^@]=|<<=?|>>=?|\.\.\.|\S")
    progs += ["def f(a, /, b): pass\n", "def f(a, b=1, /, c=2, *, d): pass\n", "lambda a, /, b: 0\n", "lambda *, a: 0\n", "def f(*, a, **k): pass\n",
              "x = [a for a in b if c]\n", "x = {a: b, **c}\n", "with (a as b, c): pass\n", "a[1:2, ::3] = b\n", "from a import (b as c, d)\n",
              "print(a, *b, c=d, **e)\n", "class A(B, m=C): pass\n", "x = a if b else c\n", "del a[0], b.c\n", "a = b = c\n", "a: int = 1\n",
              "try:\n    a\nexcept (A, B) as e:\n    b\n", "match a:\n    case [1, 2, *r]: pass\n", "async def f(): await a\n", "@a.b\ndef f(): pass\n"]
    for _ in range(nmut):
        p = rnd.choice(progs)
        kind = rnd.random()
        if kind < 0.2:
            i = rnd.randrange(len(p) + 1)
            cases.append(p[:i])
            continue
        lines = p.splitlines(keepends=True)
        li = rnd.randrange(len(lines))
        ln = lines[li]
        ind = ln[:len(ln) - len(ln.lstrip(" \t"))]
        toks = TOK.findall(ln)
        if not toks:
            continue
        i = rnd.randrange(len(toks))
        if kind < 0.5:
            del toks[i]
        elif kind < 0.8:
            toks[i] = rnd.choice(PY_TOKENS)
        else:
            toks.insert(i, rnd.choice(PY_TOKENS))
        lines[li] = ind + " ".join(toks) + "\n"
        cases.append("".join(lines))
    cases = [c for c in dict.fromkeys(cases) if not any(x in c for x in XONSH_CHARS)]
    if rep.tier == "quick":
        cases = cases[:24000]
    # indentation: every way of landing a dedent on / between the levels of blocks nested 1..4 deep, by spaces and by tabs
    for depth in (1, 2, 3, 4):
        for unit in ("  ", "    ", "\t"):
            head = "".join(f"{unit * d}if a{d}:\n" for d in range(depth))
            body = f"{unit * depth}x = 1\n"
            width = len((unit * depth).expandtabs(8))
            for col in range(0, width + 3):
                cases.append(f"{head}{body}{' ' * col}y = 2\n")
            cases.append(f"{head}{body}{unit * max(0, depth - 1)} \ty = 2\n")
    # implicit concatenation: every run of 2 and 3 literals over the literal kinds (CPython refuses to mix bytes and str, also when a piece is empty)
    kinds = ["''", "'a'", "b''", "b'a'", "rb''", "r''", "u'x'", "f''", "f'{x}'", '""', 'B"c"']
    for k2 in itertools.product(kinds, repeat=2):
        cases.append("x = " + " ".join(k2) + "\n")
        cases.append("y = (" + "\n     ".join(k2) + ")\n")
    for k3 in itertools.product(kinds, repeat=3):
        cases.append("f(" + " ".join(k3) + ")\n")
    cases += ["a = f'x } y'\n", "a = f\'\'\'\n   blech }\n\'\'\'\n", "f'{a}}'\n"]
    cases = list(dict.fromkeys(cases))
    ref = oracle.run("cpython", [{"src": c, "mode": "exec"} for c in cases])
    rejected = [c for c, r in zip(cases, ref) if not r.get("ok") and r["exc"]["cls"] in ("SyntaxError", "IndentationError", "TabError")]
    why = {c: ("fstring-single-brace" if "single '}'" in (r["exc"].get("msg") or "") else r["exc"]["cls"]) for c, r in zip(cases, ref) if not r.get("ok")}
    ours = oracle.run("parse", [{"src": c, "mode": "exec"} for c in rejected])
    si = StandIn("verdict-vs-ast.parse", f"{len(cases)} Python-lexicon inputs (all token strings of <= {k} tokens over {len(PY_TOKENS)}/26 tokens, {nmut} seeded "
                 f"single-token mutations and prefixes of {len(progs)} valid programs); those CPython rejects must be rejected")
    si.evaluations = len(cases)
    si.distinct_nontrivial = len(rejected)
    for c, r in zip(rejected, ours):
        if r.get("ok"):
            site = "over-accept:" + why[c] if why.get(c) in ("TabError", "fstring-single-brace") else "over-accept"
            si.failures.append({"input": c, "site": site, "what": f"CPython rejects with {why.get(c)}, this parser returns a tree", "observed": (r.get("dump") or "")[:200]})
        elif r["exc"]["cls"] not in ("SyntaxError", "IndentationError", "TokenError"):
            pass        # totality is C03's business
    si.samples = rejected[:3]
    si.seconds = time.time() - t0
    rep.standins.append(si)


def run(rep: Report):
    rep.trust("CPython ast", "z3 / cvc5", "engine/pyvc", "engine/pegir, engine/gramref (own unifier)", "the repository's pegen front end (reads both grammars)",
              "spec/ref/python311.gram: CPython's own grammar, verbatim")
    rep.assume("reference grammar is 3.11; the 3.12 delta rules are assumed (listed below)",
               "`expect` compares token strings regardless of type: that an FSTRING_MIDDLE / MACRO_PARAM whose text equals a grammar literal is never offered "
               "to an expect() is argued (such tokens only follow FSTRING_START / '}' / macro starts) but not machine-checked",
               "lexemes: a token string the C tokenizer rejects for its own reasons (0777, 1__0) is outside this argument (bounded stand-in only)",
               "unification is syntactic: PEG refinement of identical ordered alternatives (fixpoint induction over the rule graph)")
    e1common.file_into(rep, "C02", rep.tier)
    refcommon.refine_obligations(rep, "C02", with_actions=False)
    structural_obligations(rep)
    standin(rep)
