"""C01 -- pure-Python sources parse to exactly CPython's AST (types, fields, spans).

Proved (all inputs):
  (G) refines(R) for every rule shared with CPython's own grammar + action correspondence for the mechanically
      translatable reference actions (constructor, field <- operand binding, operator class, ctx) (E4);
      every extra alternative needs a xonsh-only lexeme (L2);
  (S) span meaning: Tokenizer.get_last_non_whitespace_token returns the last consumed token that is not
      NEWLINE/INDENT/DEDENT/ENDMARKER (loop invariant), Parser.span reads it (E1); every action using LOCATIONS reads
      _lnum/_col from peek().start at the method's mark (C16 implements: uses_span);
  (F) token filtering: Tokenizer.is_blank / peek drop exactly NL/COMMENT/WS/whitespace-ERRORTOKEN and a NEWLINE after a NEWLINE (E1);
  (K) builders under contract (extract_import_level ...); left-recursion wrapper (termination, cache consistency).
Bounded: dump(include_attributes) equality with ast.parse on statement pool, test data, layout variants (CRLF, tabs, form
feed, continuation, comments, no final newline), eval-mode expressions.
Not decided: programs beyond the bound whose trees go through helper-laden reference actions; the 3.12 delta rules.
"""
from __future__ import annotations

import itertools
import re
import time

from checks import e1common, oracle, pool, refcommon
from checks.common import Report, StandIn

XONSH_CHARS = ("$", "?", "!", "`", "&&", "||", "@(")


def has_fstring(src: str) -> bool:
    import io
    import re
    return re.search(r"(?i)\b(?:f|fr|rf)['\"]", src) is not None


def layouts(src: str):
    """layout variants of the same program (the property lists them)"""
    out = [src]
    out.append(src.replace("\n", "\r\n"))
    out.append(src.rstrip("\n"))
    if "    " in src and "'''" not in src and '"""' not in src:
        out.append(src.replace("    ", "\t"))
    lines = src.splitlines(keepends=True)
    if lines and not lines[0].startswith((" ", "\t", "@")) and "\\\n" not in src:
        out.append("\f" + src)
        out.append("# leading comment\n\n" + src)
    if len(lines) == 1 and " = " in src and "'" not in src and '"' not in src:
        out.append(src.replace(" = ", " = \\\n    ", 1))
        out.append(src.rstrip("\n") + "  # trailing comment\n")
    return out


def standin(rep: Report):
    t0 = time.time()
    progs = list(pool.PY_STMTS)
    files = pool.data_files()
    for _n, f in files:
        if not has_fstring(f) and _n not in ("type_comment.py",):
            progs.append(f)
        progs.extend(pool.split_statements(f)[: (40 if rep.tier == "quick" else 400)])
    progs += ["if a:\n    if b:\n        c\n    \f    d\n", "x = 1\n \fy = 2\n", "if a:\n\tb\n\tif c:\n\t\td\n\te\n", "x = (1 +\n     2)\n", "class A:\n    def f(self):\n        return 1\n\n    x = 2\n",
              "'a' 'b'  'cd'\n", "x = 'a' \\\n    'b'\n", "def f(*a: *b): pass\n", "() = x\n", "del ()\n", "x = \"p'\"\n", "a = b'x' b'y'\n", "x = u'a'\n"]
    # implicit concatenation of plain literals: value, span and `kind` come from the right pieces (kind from the FIRST literal only)
    skinds = ["'a'", "u'b'", "r'c\\d'", "U'e'", '"f"', "'''g\nh'''", "''"]
    for k2 in itertools.product(skinds, repeat=2):
        progs.append("x = " + " ".join(k2) + "\n")
    for k3 in itertools.product(skinds[:5], repeat=3):
        progs.append("f(" + " ".join(k3) + ")\n")
    progs += ["def f():\n    return u'''doc\n''' 'tail'\n", "x = (b'a'\n     b'b' rb'c')\n"]
    # input that ends without a newline inside / after multi-line tokens and comments
    progs += ["x = '''\n#'''", "x = 1\n# c", "x = [1,\n#c\n2]", "if a:\n  b\n  ", "x\n  "]
    # non-ASCII text: identifiers, strings, comments (CPython counts columns in UTF-8 bytes)
    progs += ["x = '\u4e2d' + y\n", "\u00e9t\u00e9 = 1; y = 2\n", "f('\u00fc', b)  # \u00e9\n", "x = 1  # \u4e2d\ny = 2\n", "def \u0192(\u03b1, \u03b2=1):\n    return \u03b1 + \u03b2\n",
              's = """\u00e9\n\u4e2d""" + t\n']
    progs = [p for p in dict.fromkeys(progs) if not any(c in p for c in XONSH_CHARS) and not has_fstring(p)]
    cases = []
    for p in progs:
        for v in (layouts(p) if len(p) < 3000 else [p]):
            cases.append({"src": v, "mode": "exec"})
    exprs = ["a + b * c", "a if b else c", "lambda x, /, y=1, *z, k, **kw: (x, y)", "[i for i in a if i]", "{k: v for k, v in d}", "a.b[c](d)[1:2]", "not a or b and c",
             "a < b <= c", "(yield)", "-a ** -b", "(a, b, *c)", "x[a:b, c]", "'a' 'b'", "1_0.5j", "...", "a @ b", "(a := 1)", "await_", "b'x'", "[*a, *b]", "{**a}", "a if b else c if d else e"]
    for e in exprs:
        cases.append({"src": e, "mode": "eval"})
        cases.append({"src": e + "\n", "mode": "eval"})
    ref = oracle.run("cpython", cases)
    ours = oracle.run("parse", cases)
    si = StandIn("tree-vs-ast.parse", f"{len(cases)} sources: {len(progs)} programs (statement pool, test data files and their statements) x layout variants "
                 f"(LF/CRLF, tabs, form feed, continuation, comments, no final newline) + {len(exprs)} eval-mode expressions; ast.dump(include_attributes=True) equality")
    for c, r, o in zip(cases, ref, ours):
        si.evaluations += 1
        if not r.get("ok"):
            continue
        si.distinct_nontrivial += 1
        if not o.get("ok"):
            si.failures.append({"input": c["src"], "site": "rejects-valid-python", "what": f"CPython accepts ({c['mode']}), this parser raises {o['exc']['cls']}: {o['exc']['msg'][:80]}",
                                "observed": o["exc"]})
        elif o.get("dump") != r.get("dump"):
            a, b = o.get("dump") or "", r.get("dump") or ""
            i = next((i for i, (x, y) in enumerate(zip(a, b)) if x != y), min(len(a), len(b)))
            cols = re.compile(r"(end_)?col_offset=\d+")
            site = "span:non-ascii-columns" if (not c["src"].isascii()) and cols.sub("", a) == cols.sub("", b) else "tree-differs"
            si.failures.append({"input": c["src"], "site": site, "what": f"tree differs from ast.parse at dump offset {i}: ours ...{a[max(0, i - 60):i + 60]}... vs ...{b[max(0, i - 60):i + 60]}...",
                                "observed": {"ours": a[max(0, i - 80):i + 80], "cpython": b[max(0, i - 80):i + 80]}})
    si.samples = [cases[0]["src"], cases[5]["src"]]
    si.seconds = time.time() - t0
    rep.standins.append(si)


def run(rep: Report):
    rep.trust("CPython ast", "z3 / cvc5", "engine/pyvc", "engine/pegir, engine/gramref (own unifier)", "spec/ref/python311.gram (CPython's own grammar, verbatim)",
              "the repository's pegen front end (reads both grammars)")
    rep.assume("reference grammar is 3.11; 3.12 delta rules assumed", "A7: the reference grammar/ASDL describe what the C parser does on accepted input",
               "full equivalence of seed growing with left-recursive PEG semantics (left associativity) is assumed (Warth et al.)",
               "token streams agree with CPython's: C09", "helper-laden reference actions (_PyPegen_*) are not compared")
    e1common.file_into(rep, "C01", rep.tier)
    refcommon.refine_obligations(rep, "C01", with_actions=True)
    standin(rep)
