"""Input pools for the bounded stand-ins (stated in evidence as the bound)."""
from __future__ import annotations

import glob
import os

from checks.common import REPO

PY_STMTS = [
    "x = 1\n", "x: int = 1\n", "x += 1\n", "a, b = b, a\n", "del x, y\n", "pass\n", "assert x, 'm'\n", "import a.b as c\n",
    "from . import x\n", "from ..a import (b, c as d)\n", "global g\n", "return\n" if False else "x = [1, 2, *y]\n",
    "if a:\n    b\nelif c:\n    d\nelse:\n    e\n", "while a:\n    break\nelse:\n    pass\n", "for i, (j, k) in z:\n    continue\n",
    "try:\n    a\nexcept E as e:\n    b\nelse:\n    c\nfinally:\n    d\n", "try:\n    a\nexcept* E:\n    b\n",
    "with a as b, c:\n    pass\n", "with (a as b, c as d):\n    pass\n", "def f(a, /, b=1, *c, d, e=2, **f) -> int:\n    return a\n",
    "async def f():\n    await g()\n    async for i in x: pass\n    async with y: pass\n", "class A(B, metaclass=M):\n    x = 1\n",
    "@dec(1)\n@other\ndef f(): pass\n", "lambda a, *b, c=1, **d: a\n", "x = a if b else c\n", "x = a or b and not c\n",
    "x = a < b <= c != d is not e in f\n", "x = a | b ^ c & d << e >> f + g - h * i / j // k % l @ m\n", "x = -a ** -b\n",
    "x = a.b[c](d, *e, f=g, **h)\n", "x = a[1:2, ::3, ...]\n", "x = [i for i in a if b for j in c]\n", "x = {k: v for k, v in d}\n",
    "x = {1, 2}\n", "x = {**a, 'b': 1}\n", "x = (yield)\n" if False else "x = (a := 1)\n", "x = 1_0.5e-3j + 0x_ff + 0b1 + 0o7\n",
    "x = 'a' \"b\" '''c'''\n", "x = b'a' rb'\\n'\n", "x = f'{a!r:>{w}} {b=}'\n" if False else "x = f'{a}b{c!r}'\n",
    "match x:\n    case [1, *r] if r:\n        pass\n    case {'a': A(b=1) | None as n, **k}:\n        pass\n    case _:\n        pass\n",
    "type X[T: int, *Ts, **P] = list[T]\n", "def f[T](x: T) -> T: return x\n", "class C[T](B[T]): pass\n",
    "x = (\n  1,\n  2,\n)\n", "if a: b; c\n", "x = 1 # c\n", "def f(*a: *b): pass\n", "() = x\n", "[a, *b] = c\n", "del (a), [b]\n",
    "x = a if b else (lambda: c)()\n", "print(*a, sep='')\n", "x = not a\n", "x = await_ + 1\n", "raise E from e\n", "nonlocal_ = 1\n",
    "(a.b) = 1\n", "(a[0]) = 1\n", "del (a.b), (c[0])\n", "*a.b, c = x\n", "for *a[0], c in x: pass\n", "x = (a[i]) * 2\n", "(a[i.j]).foo()\n",
    "[a.b, (c[d], e)] = f\n", "with a as (b.c, d[0]): pass\n", "x = [(y := f(i)) for i in z]\n", "def f(a, b=1, /, c=2, *, d=3, **e): pass\n",
    "x = ...\n", "x = None is True\n", "for x in *a, b: pass\n", "x = [*a, *b]\n", "x = a[b][c].d\n", "x = (a, )\n", "x = a,\n",
]

XSH_STMTS = [
    "$X = 1\n", "x = $HOME\n", "${'a' + b} = 2\n", "x = ${y}\n", "ls -l\n" if False else "$(ls -l)\n", "x = $(echo hi)\n", "$[ls]\n",
    "x = !(ls -la /tmp)\n", "![echo $HOME]\n", "x = `.*\\.py`\n", "y = g`*.py`\n", "x = p'/tmp'\n", "x = pf'/{a}'\n", "a = p\"/usr\" pf\"/{name}\"\n", "b = \"plain\"\n", "print(f\"{x} done\")\n", "x = pr'\\n'\n",
    "a?\n", "a??\n", "a?.b?\n", "x = a && b || c\n", "$(echo @(x) @$(which ls))\n", "$(echo a$HOME/b)\n", "f!(a, b c)\n", "x = f!(1 +)\n",
    "with! ctx:\n    a b c\n    d\n", "with! ctx: inline text\n", "$(echo! hello  world)\n", "for $I in x: pass\n", "with a as $B: pass\n",
    "x = [$A for $A in y]\n", "$(ls | grep x)\n", "$(ls > out.txt)\n", "x = $(ls) + $(pwd)\n", "$[echo 'a b' \"c\"]\n", "x = f'{$HOME}'\n",
    "![ls -l --color=auto a.b/c]\n", "$(cmd -x=1 a,b +c %d)\n", "x = @(1)\n" if False else "$(echo @(1 + 2))\n", "$(a 2>&1)\n",
]


def data_files():
    out = []
    for p in sorted(glob.glob(os.path.join(REPO, "tests", "data", "*.py"))):
        try:
            out.append((os.path.basename(p), open(p, encoding="utf-8").read()))
        except OSError:
            pass
    return out


def split_statements(src: str):
    """top-level statements of a valid Python source as separate sources (via CPython's ast)"""
    import ast
    try:
        mod = ast.parse(src)
    except SyntaxError:
        return []
    lines = src.splitlines(keepends=True)
    out = []
    for n in mod.body:
        start = min([n.lineno] + [d.lineno for d in getattr(n, "decorator_list", [])])
        out.append("".join(lines[start - 1:n.end_lineno]))
    return [s if s.endswith("\n") else s + "\n" for s in out]


def layouts(src: str):
    """layout variants of the same program: LF / CRLF, missing final newline, tabs for indentation, leading form feed, leading comment
    and blank line, a backslash continuation, a trailing comment"""
    out = [src]
    out.append(src.replace("\n", "\r\n"))
    out.append(src.rstrip("\n"))
    if "    " in src and "'''" not in src and '"""' not in src:
        out.append(src.replace("    ", "\t"))
    lines = src.splitlines(keepends=True)
    if lines and not lines[0].startswith((" ", "\t", "@")) and "\\\n" not in src:
        out.append("\f" + src)
        out.append("# leading comment\n\n" + src)
    if len(lines) == 1 and " = " in src and "'" not in src and '"' not in src:
        out.append(src.replace(" = ", " = \\\n    ", 1))
        out.append(src.rstrip("\n") + "  # trailing comment\n")
    return list(dict.fromkeys(out))
