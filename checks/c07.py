"""C07 -- macros receive the verbatim source text of their arguments / body.

Proved (all inputs): the flag protocol of the three macro forms on the real parser/runtime (shared with C14: each alternative that
sets a raw-capture flag ends in the builder that clears it; flags are written nowhere else); Tokenizer.peek (E1) hands control to
the capture routines exactly when their flag is set and appends what they return unfiltered unless blank; Tokenizer.is_blank keeps
WS tokens while _proc_macro is set (E1 postcondition), so a subprocess macro sees its spacing; the grammar passes the MACRO_PARAM
token strings to macro_call / handle_with_macro_stmt unchanged (IR: the action's arguments are the item variables).
Tokenizer.consume_macro_params is verified from its body (E1): returned text == concatenation of the raw tokens pulled before the
delimiter, span, delimiter is a real `,` / `)` OP token, `)` pushed back and flag cleared (four ghost preconditions ASSUMED at its
call site, listed in the evidence).  Tokenizer.consume_with_macro_params is verified from its body as to control flow, flags, span and
what it captures per token (whole lines in the block form, from the token on in the one-line form); how the pieces are assembled is opaque.  Parser.macro_call / handle_with_macro_stmt / proc_macro_arg (E1): one string Constant
per argument, in order, carrying that argument's text and position, plus globals() and locals(); the flag is lowered.
NOT proved: bracket/string protection of commas (only the delimiter's token type is) and the text of a with-macro block -- bounded stand-in: argument texts from a pool x bracket nestings vs an
independent bracket-aware splitter; block bodies (multi-line tokens, comments, blank lines); the statement after the macro.
"""
from __future__ import annotations

import ast
import itertools
import json
import textwrap
import time

from checks import e1common, irload
from checks.c14 import flag_obligations
from checks.common import Report, StandIn, json_from, run_py

ARGS = ["x", "1 + 2", " spaced  out ", "if True: pass", "import os", "f(a, b)", "[1, 2]", "{x: y, 42: 5}", "(x, y)", "((x, y), z)", "'a, b'", '"oh, my"',
        "$(ls -l)", "![ls, -l]", "@(x)", "${x + y}", "...", "not valid python !", "a ? b :: c", "lambda x, y: (x, y)", "r'raw,\\n'", "x=10", "{1, 2, 3,}",
        "[a, [b, (c, d)]]", "f(g(h(1, 2), 3), 4)", "\u00e9 \u00fc", "*args", "**kw", "x if y else z",
        'f"{a},{b}"', 'f"({a})"', "f'{x!r:>{w}}, {y}'", 'p"a,b"', "b'x,y'", "[1,  # c , )\n 2]", "x := (1, 2)", "a -> b", "1_000.5e3j", "@(a, b)", "$[x , y]",
        "\'\'\'t,\nq\'\'\'", "f\'\'\'{a},\n{b}\'\'\'"]
BODIES = ["a b c\n", "x = 1\ny = 2\n", "if x:\n    y\nelse:\n    z\n", "# only a comment\nstuff here\n", "deep:\n    deeper:\n        deepest\n", "'''str\nin body'''\n",
          "echo $HOME | grep x\n", "def f():\n    return 1\n\n\nx = f()\n",
          # tokens that span lines and do not start their line; blank and comment lines anywhere in the body
          'doc = """one\ntwo\nthree\nfour"""\ny = 1\n', "x = [1,\n  2,\n3]; s = '''a\n  b\n'''; t = 3\nz\n", "f(a,\n  '''q\nr''', b)\n", "\n# lead\n\na\n\n# mid\nb\n",
          "s = 'a\\\nb'\nt\n", "if x:\n\ty\n", "a\n  b\n    c\n  d\ne\n"]
ONELINE_MULTI = ['s = """a\nb"""', "x = [1,\n    2,\n    3]", "f('''p\nq\nr''', 2)"]


def split_args(inner: str) -> list[str]:
    """independent reading of the statement: cut at commas that are outside every bracket and string literal"""
    out, cur, depth, i = [], "", 0, 0
    while i < len(inner):
        ch = inner[i]
        if ch in "'\"":
            q = inner[i:i + 3] if inner[i:i + 3] in ("\'\'\'", '"""') else ch
            j = i + len(q)
            while not inner.startswith(q, j):
                j += 2 if inner[j] == "\\" else 1
            cur += inner[i:j + len(q)]
            i = j + len(q)
            continue
        if ch == "#":                       # a comment runs to the end of the line (only legal inside brackets)
            j = inner.find("\n", i)
            j = len(inner) if j < 0 else j
            cur += inner[i:j]
            i = j
            continue
        if ch in "([{":
            depth += 1
        elif ch in ")]}":
            depth -= 1
        if ch == "," and depth == 0:
            out.append(cur)
            cur = ""
        else:
            cur += ch
        i += 1
    if cur.strip() or not out:
        out.append(cur)
    return out


def routing(rep: Report):
    ir = irload.ir("xonsh")
    checks = [("primary", "func_macro_start", "macro_call"), ("with_macro_stmt", "with_macro_start", "handle_with_macro_stmt")]
    for rule, starter, builder in checks:
        r = ir.rules.get(rule)
        for ai, a in enumerate(r.alts if r else []):
            if not any(it.pe is not None and it.pe.kind == "rule" and it.pe.arg == starter for it in a.items):
                continue
            act = a.action
            params = [it for it in a.items if it.pe is not None and ((it.pe.kind == "token" and it.pe.arg == "MACRO_PARAM") or
                      (it.pe.kind == "repeated" and it.pe.subs[0].kind == "token" and it.pe.subs[0].arg == "MACRO_PARAM"))]
            ok = (isinstance(act, ast.Call) and isinstance(act.func, ast.Attribute) and act.func.attr == builder and params
                  and any(isinstance(x, ast.Name) and x.id == params[0].var for x in act.args))
            oid = f"C07.route.{rule}.alt{ai + 1}"
            desc = f"`{rule}` alt {ai + 1} passes the MACRO_PARAM token(s) it matched to self.{builder} unchanged"
            if ok:
                rep.ok(oid, "routing", desc, "pegir-unify", function=f"peg_parser/parser.py:XonshParser.{rule}")
            else:
                rep.fail(oid, "routing", desc, "pegir-unify", f"action `{ast.unparse(act)[:120] if act is not None else None}`", witness={"rule": rule, "alt": ai + 1})
    # builders use the token text verbatim
    import os
    from checks.common import REPO
    tree = ast.parse(open(os.path.join(REPO, "peg_parser/subheader.py"), encoding="utf-8").read())
    fns = {n.name: n for c in ast.walk(tree) if isinstance(c, ast.ClassDef) and c.name == "Parser" for n in c.body if isinstance(n, ast.FunctionDef)}
    def verbatim_constant(call, name):
        """`ast.Constant(value=<name>.string, **<name>.loc())`, whatever <name> is called"""
        return (isinstance(call, ast.Call) and ast.unparse(call.func) == "ast.Constant"
                and any(k.arg == "value" and ast.unparse(k.value) == f"{name}.string" for k in call.keywords)
                and any(k.arg is None and ast.unparse(k.value) == f"{name}.loc()" for k in call.keywords))

    def params(fn):
        return [a.arg for a in fn.args.args[1:]]

    # macro_call(a, b): one Constant per element of its second parameter, in order (a comprehension over it), built from .string / .loc()
    fn = fns.get("macro_call")
    ok = False
    if fn is not None and len(params(fn)) >= 2:
        for n in ast.walk(fn):
            if isinstance(n, (ast.ListComp, ast.GeneratorExp)) and len(n.generators) == 1 and not n.generators[0].ifs \
                    and isinstance(n.generators[0].iter, ast.Name) and n.generators[0].iter.id == params(fn)[1] \
                    and isinstance(n.generators[0].target, ast.Name) and verbatim_constant(n.elt, n.generators[0].target.id):
                ok = True
    desc = "Parser.macro_call turns every MACRO_PARAM token of its list, in order, into Constant(value=<token>.string, **<token>.loc())"
    if ok:
        rep.ok("C07.verbatim.macro_call", "structural", desc, "syntactic", function="peg_parser/subheader.py:Parser.macro_call")
    else:
        rep.fail("C07.verbatim.macro_call", "structural", desc, "syntactic", "no such comprehension over the parameter list found",
                 witness=ast.unparse(fn)[:400] if fn else None)
    fn = fns.get("handle_with_macro_stmt")
    ok = fn is not None and len(params(fn)) >= 2 and any(verbatim_constant(n, params(fn)[1]) for n in ast.walk(fn))
    desc = "Parser.handle_with_macro_stmt builds the body constant as Constant(value=<MACRO_PARAM token>.string, **<token>.loc())"
    if ok:
        rep.ok("C07.verbatim.handle_with_macro_stmt", "structural", desc, "syntactic", function="peg_parser/subheader.py:Parser.handle_with_macro_stmt")
    else:
        rep.fail("C07.verbatim.handle_with_macro_stmt", "structural", desc, "syntactic", "no such Constant found", witness=ast.unparse(fn)[:400] if fn else None)
    # proc_macro_arg(a): "".join(<t>.string if isinstance(<t>, TokenInfo) else <t> for <t> in a).strip() is what the Constant carries
    fn = fns.get("proc_macro_arg")
    ok = False
    if fn is not None and params(fn):
        for n in ast.walk(fn):
            if isinstance(n, ast.Call) and isinstance(n.func, ast.Attribute) and n.func.attr == "strip" and not n.args \
                    and isinstance(n.func.value, ast.Call) and ast.unparse(n.func.value.func) == "''.join" and len(n.func.value.args) == 1 \
                    and isinstance(n.func.value.args[0], (ast.GeneratorExp, ast.ListComp)):
                g = n.func.value.args[0]
                if len(g.generators) == 1 and not g.generators[0].ifs and isinstance(g.generators[0].target, ast.Name) \
                        and ast.unparse(g.generators[0].iter) == params(fn)[0]:
                    t = g.generators[0].target.id
                    ok = ast.unparse(g.elt) == f"{t}.string if isinstance({t}, TokenInfo) else {t}"
    desc = "Parser.proc_macro_arg joins the raw token strings (WS tokens included, nothing dropped) and strips the result once"
    if ok:
        rep.ok("C07.verbatim.proc_macro_arg", "structural", desc, "syntactic", function="peg_parser/subheader.py:Parser.proc_macro_arg")
    else:
        rep.fail("C07.verbatim.proc_macro_arg", "structural", desc, "syntactic", "pattern not found", witness=ast.unparse(fn)[:300] if fn else None)


def standin(rep: Report):
    t0 = time.time()
    cases = []
    args = [a for a in dict.fromkeys(ARGS) if a]
    for a in args:
        cases.append({"src": f"f!({a})\n", "expect": split_args(a), "kind": "call"})
        cases.append({"src": f"x = g(1) + f!({a})\nprint(x)\n", "expect": split_args(a), "kind": "call", "after": "print(x)\n"})
    for a, b in itertools.product(args[:14] + args[29:35], args[8:22] + args[29:]):
        cases.append({"src": f"f!({a},{b})\n", "expect": split_args(f"{a},{b}"), "kind": "call"})
        cases.append({"src": f"obj.meth!({a}, {b} )\ny = 2\n", "expect": split_args(f"{a}, {b} "), "kind": "call", "after": "y = 2\n"})
    for a in args[:12]:
        cases.append({"src": f"f!([{a}, ({a})], {{1: {a}}})\n", "expect": split_args(f"[{a}, ({a})], {{1: {a}}}"), "kind": "call"})
        cases.append({"src": f"f!(\n  {a},\n  z\n)\n", "expect": split_args(f"\n  {a},\n  z\n"), "kind": "call"})
    for b in BODIES:
        ind = textwrap.indent(b, "    ")
        cases.append({"src": f"with! ctx:\n{ind}after = 1\n", "expect": [b], "kind": "with", "after": "after = 1\n"})
        cases.append({"src": f"if a:\n    with! ctx as c:\n{textwrap.indent(b, '        ')}    inner = 1\nouter = 2\n", "expect": [b], "kind": "with", "after": "outer = 2\n"})
    # physical lines of the block that are indented LESS than its first statement (bracket continuation, inner lines of a multi-line string, a
    # comment at a smaller column): the common margin is then smaller than the block's indentation (round-5 seed C07e cut a fixed width)
    for blk in ["    total = [1,\n  2, 3]\n    print(total)\n", '    msg = """first\nsecond line\n"""\n    echo @(msg)\n', "    if a:\n# note\n        b\n    c\n",
                "        deep = (1,\n    2)\n        more\n", "    f(a,\n b)\n"]:
        cases.append({"src": f"with! ctx:\n{blk}after = 1\n", "expect": [textwrap.dedent(blk)], "kind": "with", "after": "after = 1\n"})
    for line in ONELINE_MULTI:
        cases.append({"src": f"with! ctx: {line}\nnxt = 1\n", "expect": [" " + line + "\n"], "kind": "with", "after": "nxt = 1\n"})
    for line in ["pass", "x=1", "a b c"]:            # no blank after the colon
        cases.append({"src": f"with! ctx:{line}\nnxt = 1\n", "expect": [line + "\n"], "kind": "with", "after": "nxt = 1\n"})
        cases.append({"src": f"y = 0\nwith! ctx as c:{line}\nf!(x, y)\nprint(x)\n", "expect": [line + "\n"], "kind": "with", "after": "print(x)\n"})
    for line in ["a b c", "echo 'x y'  z", "x = $(not parsed) |", "1 +", "if while: for"]:
        cases.append({"src": f"with! ctx: {line}\nnxt = 1\n", "expect": [" " + line + "\n"], "kind": "with", "after": "nxt = 1\n"})
    for rest in ["hello  world", "a   b\tc", "-x 'q  s' | grep   y", "if for  while", "x=1  y = 2"]:
        for op, cl in (("$(", ")"), ("![", "]")):
            cases.append({"src": f"{op}echo! {rest}{cl}\nz = 1\n", "expect": [rest.strip()], "kind": "proc", "after": "z = 1\n"})
    # shapes reported by a round-5 seeding agent about the unchanged tree (each one a recorded finding, see known_findings.json): a backslash
    # continuation inside an argument, a soft keyword as the macro's name at the start of a statement, a line break / an f-string in a subprocess macro
    for a in ["a \\\n b", "1 +\\\n  2"]:
        cases.append({"src": f"f!({a}, c)\n", "expect": split_args(f"{a}, c"), "kind": "call"})
    for kw in ["match", "case", "type"]:
        cases.append({"src": f"{kw}!(a b, c)\nz = 1\n", "expect": ["a b", " c"], "kind": "call", "after": "z = 1\n"})
        cases.append({"src": f"x = {kw}!(a b, c)\nz = 1\n", "expect": ["a b", " c"], "kind": "call", "after": "z = 1\n"})
    for rest in ["a\n b", "f'x'  y", "f'{x}' z"]:
        cases.append({"src": f"$(echo! {rest})\nz = 1\n", "expect": [rest.strip()], "kind": "proc", "after": "z = 1\n"})
    rc, out, err = run_py("harness/desugar.py", [], timeout=3600, stdin=json.dumps({"op": "c07", "cases": cases}))
    si = StandIn("macro-verbatim", f"{len(cases)} macro uses: {len(args)} argument texts (also in pairs, nested in brackets, multi-line), {len(BODIES)} block bodies at two depths, "
                 "one-line with-macros, subprocess macros; received text == source text and the following statement parses normally")
    if rc != 0:
        rep.undecided("C07.standin.run", "bounded", "run the macro stand-in", "cpython-exec", err[-600:])
    else:
        d = json_from(out)
        si.evaluations = d["evaluations"]
        si.distinct_nontrivial = d["evaluations"]
        for f in d["failures"]:
            c = f.get("case") or {}
            si.failures.append({"input": f["input"], "site": f"macro:{c.get('kind')}", "what": f["observed"][:300], "observed": f["observed"][:400]})
        si.samples = [cases[0]["src"], cases[-1]["src"]]
    si.seconds = time.time() - t0
    rep.standins.append(si)


def run(rep: Report):
    rep.trust("CPython ast", "engine/pegir", "engine/pyvc")
    rep.assume("how Tokenizer.consume_with_macro_params ASSEMBLES the captured pieces (per-line dict, re.findall, dedent) is not modelled; what is captured per token is an obligation",
               "tokens tile the source (C08): concatenating raw token strings, WS included, reproduces the source slice",
               "textwrap.dedent (external) removes the common leading whitespace")
    e1common.file_into(rep, "C07", rep.tier)
    flag_obligations(rep)
    # re-label the shared obligations for this property
    for o in rep.obligations:
        if o.id.startswith("C14."):
            o.id = "C07." + o.id[4:]
    routing(rep)
    standin(rep)
