"""C18 -- parsing work grows at most linearly.

Proved part (for all inputs):  the memoisation discipline "no compounding re-entry" (engine/pegmemo.py) on the
first-pass and on the second-pass call graph of the real generated parser, one obligation per un-memoised rule;
every `repeated` / `gathered` iteration consumes at least one token (strict progress of the callee, L1).
Not proved: the linear bound itself (amortised argument, DESIGN C18 [N]) and re-exploration by the *continuation*
after a shorter alternative succeeds (e.g. `proc_cmd` falling back to `cmd_name` after `sub_procs` failed) --
both are covered only by the bounded stand-in (work at n and 2n on size-parameterised families).
"""
from __future__ import annotations

import time

from checks import e1common, irload
from checks.common import Report, StandIn, json_from, run_py
from engine.pegfacts import Facts
from engine.pegir import walk_pe
from engine.pegmemo import MemoDiscipline

ROOTS = ["file", "eval"]


def progress_obligations(rep: Report, ir, prop: str):
    """precondition of `repeated`/`gathered` (callee strict progress) at every call site, both passes"""
    f = Facts(ir, second_pass=True)
    for name, r in ir.rules.items():
        for ai, a in enumerate(r.alts):
            for ii, it in enumerate(a.items):
                if it.pe is None:
                    continue
                for p in walk_pe(it.pe):
                    if p.kind == "repeated":
                        bad = f.pe_nullable(p.subs[0])
                        what = f"repeated({p.subs[0]})"
                    elif p.kind == "gathered":
                        bad = f.pe_nullable(p.subs[0]) and f.pe_nullable(p.subs[1])
                        what = f"gathered({p.subs[0]}, sep {p.subs[1]})"
                    else:
                        continue
                    oid = f"{prop}.progress.{name}.alt{ai + 1}.item{ii + 1}"
                    desc = f"requires of Parser.repeated at {name} alt {ai + 1}: every success of the callee of {what} consumes >= 1 token"
                    if bad:
                        rep.fail(oid, "precondition", desc, "pegir-fixpoint",
                                 f"callee is nullable (least fixpoint of `may succeed without consuming`): the loop `while result := func(*args)` "
                                 f"never terminates once the callee succeeds on the empty string", witness={"rule": name, "alt": ai + 1, "item": str(it)},
                                 function=f"peg_parser/parser.py:XonshParser.{name}")
                    else:
                        rep.ok(oid, "precondition", desc, "pegir-fixpoint", function=f"peg_parser/parser.py:XonshParser.{name}")


def cache_lifetime_obligations(rep: Report):
    """the memo cache lives as long as one pass: `self._cache` is bound once (Parser.__init__), cleared only between the two passes
    (Parser.parse) and stored into only by the three memoising wrappers -- no rule method swaps, copies or empties it (a rule that
    ran with a private cache would re-parse its whole input at every nesting level)"""
    import ast as _ast
    import os
    from checks.common import REPO
    allowed_bind = {("peg_parser/subheader.py", "Parser.__init__")}
    allowed_clear = {("peg_parser/subheader.py", "Parser.parse")}
    allowed_store = {("peg_parser/subheader.py", "memoize.memoize_wrapper"), ("peg_parser/subheader.py", "memoize_left_rec.memoize_left_rec_wrapper")}
    for rel in ("peg_parser/subheader.py", "peg_parser/parser.py"):
        try:
            tree = _ast.parse(open(os.path.join(REPO, rel), encoding="utf-8").read())
        except (OSError, SyntaxError) as e:
            rep.undecided(f"C18.cache.lifetime.{os.path.basename(rel)}", "frame", f"parse {rel}", "frames", repr(e))
            continue
        bad = []

        def visit(node, qual):
            for ch in _ast.iter_child_nodes(node):
                q = qual
                if isinstance(ch, (_ast.FunctionDef, _ast.ClassDef, _ast.AsyncFunctionDef)):
                    q = f"{qual}.{ch.name}" if qual else ch.name
                is_cache = lambda x: isinstance(x, _ast.Attribute) and x.attr == "_cache"
                tg = []
                if isinstance(ch, _ast.Assign):
                    tg = ch.targets
                elif isinstance(ch, (_ast.AugAssign, _ast.AnnAssign)):
                    tg = [ch.target]
                elif isinstance(ch, _ast.Delete):
                    tg = ch.targets
                for t in tg:
                    for x in _ast.walk(t):
                        if is_cache(x) and isinstance(t, _ast.Attribute) and (rel, qual) not in allowed_bind:
                            bad.append(f"{qual}: `{_ast.unparse(ch)[:70]}` rebinds the cache (line {ch.lineno})")
                        elif is_cache(x) and isinstance(t, _ast.Subscript) and (rel, qual) not in allowed_store:
                            bad.append(f"{qual}: `{_ast.unparse(ch)[:70]}` stores into the cache (line {ch.lineno})")
                        elif is_cache(x) and isinstance(t, (_ast.Tuple, _ast.List)):
                            bad.append(f"{qual}: `{_ast.unparse(ch)[:70]}` (line {ch.lineno})")
                if isinstance(ch, _ast.Call) and isinstance(ch.func, _ast.Attribute) and is_cache(ch.func.value) and ch.func.attr in (
                        "clear", "pop", "popitem", "update", "setdefault", "copy", "__setitem__", "__delitem__") and (rel, qual) not in allowed_clear:
                    bad.append(f"{qual}: `{_ast.unparse(ch)[:70]}` (line {ch.lineno})")
                visit(ch, q)
        visit(tree, "")
        oid = f"C18.cache.lifetime.{os.path.basename(rel)}"
        desc = (f"{rel}: the memo cache is bound once in Parser.__init__, cleared only between the passes in Parser.parse and stored into only by the memoising "
                "wrappers (no rule runs with a private or emptied cache)")
        if bad:
            rep.fail(oid, "frame", desc, "frames", "; ".join(bad[:3]), witness=bad[:6], function=f"{rel}:<module>")
        else:
            rep.ok(oid, "frame", desc, "frames", function=f"{rel}:<module>")


def run(rep: Report):
    ir = irload.ir("xonsh")
    rep.trust("engine/pegir.py extractor", "engine/pegfacts.py + engine/pegmemo.py (own fixpoint / graph procedures)", "CPython ast")
    rep.assume("cost model: one evaluation of a memoised method at a position is a dictionary lookup except the first (E1 contracts of memoize / memoize_left_rec, discharged here)",
               "tokens of type FSTRING_MIDDLE / MACRO_PARAM are never offered to an `expect` of a grammar literal (first-set overlap)",
               "NOT modelled: re-exploration by the continuation after a shorter alternative succeeds; the linear bound itself (only polynomial follows); "
               "recursion depth limits (RecursionError at ~30 nested brackets is C03's known finding)")
    # the cost model's premise: the memoising wrappers replay a recorded outcome (success or failure) without running the method
    e1common.file_into(rep, "C18", rep.tier, only={"memoize.memoize_wrapper", "memoize_left_rec.memoize_left_rec_wrapper"})
    if ir.unrecognised:
        for n, u in ir.unrecognised.items():
            rep.undecided(f"C18.extract.{n}", "structural", f"extract method {n}", "pegir-unify", u.reason)
    for sp, label in ((False, "pass1"), (True, "pass2")):
        t0 = time.time()
        f = Facts(ir, second_pass=sp)
        md = MemoDiscipline(f, ir.keywords, ir.soft_keywords)
        viol, pairs = md.violations(ROOTS)
        dt = time.time() - t0
        by_r = {}
        for v in viol:
            by_r.setdefault(v["R"], []).append(v)
        g = md.u_graph()
        reach = f.reachable(ROOTS)
        rs = [r for r in sorted(g) if r in reach]
        for r in rs:
            oid = f"C18.memo.{label}.{r}"
            desc = (f"[{label}] un-memoised rule {r}: no un-memoised rule Q is evaluated twice at one token index within one activation "
                    f"of {r} while {r} is reachable from Q through un-memoised rules only")
            if r in by_r:
                v = by_r[r][0]
                rep.fail(oid, "memo-discipline", desc, "pegir-fixpoint",
                         detail=f"Q={v['Q']} is evaluated >= 2 times at one index via {' -> '.join(v['same_index_chain'])}; "
                                f"return path without a memoised rule: {' -> '.join(v['return_path_unmemoised'])}; "
                                f"({len(by_r[r])} such Q for this rule)",
                         witness=v, seconds=dt / max(1, len(rs)), function=f"peg_parser/parser.py:XonshParser.{r}")
            else:
                rep.ok(oid, "memo-discipline", desc, "pegir-fixpoint", dt / max(1, len(rs)), function=f"peg_parser/parser.py:XonshParser.{r}")
        rep.extra.setdefault("memo_graph", {})[label] = {"unmemoised_rules_reachable": len(rs), "pairs_checked": pairs,
                                                          "memoised": sorted(n for n, m in md.memo.items() if m and n in reach)[:80]}
    progress_obligations(rep, ir, "C18")
    cache_lifetime_obligations(rep)
    # diagnostic only (DESIGN C18): memo-flag parity with the reference grammar
    # bounded stand-in
    t0 = time.time()
    rc, out, err = run_py("harness/work_measure.py", [rep.tier], timeout=1800)
    si = StandIn("work-doubling", f"{'(6,12)' if rep.tier == 'quick' else '(10,20)'} nesting/length on each family; getnext+peek+reset counts; "
                 "violates when work(2n) > 2.2*work(n)+400")
    if rc != 0:
        rep.undecided("C18.standin.run", "bounded", "run the work measurement", "cpython-exec", err[-800:])
    else:
        d = json_from(out)
        for name, e in d["families"].items():
            si.evaluations += 2
            if e["work_n"] > 50:
                si.distinct_nontrivial += 1
            if e["violates"]:
                si.failures.append({"input": name, "site": f"family:{name}", "what": f"work grows x{e['ratio']} when the size doubles",
                                    "observed": e, "signature": None})
        si.samples = [{"family": k, **{x: v[x] for x in ("work_n", "work_2n", "ratio", "sample")}} for k, v in list(d["families"].items())[:4]]
    si.seconds = time.time() - t0
    rep.standins.append(si)
    # replay of refuted memo obligations: a size-parameterised family that actually multiplies on the real code
    fresh = [fl for fl in si.failures if rep._standin_known(fl) is None]
    for ob in rep.obligations:
        if ob.status == "failed" and ob.kind == "memo-discipline" and fresh:
            ob.replay = {"reproduced": True, "how": "harness/work_measure.py on the working tree", "family": fresh[0]["input"],
                         "observed": fresh[0]["observed"]}
