#!/usr/bin/env python3
"""Entry point: python3-vt checks/check.py <property-id> [--tier quick|thorough] [--replay <file>]"""
import importlib
import os
import sys

sys.path.insert(0, os.path.dirname(os.path.dirname(os.path.abspath(__file__))))
sys.dont_write_bytecode = True


def main():
    if len(sys.argv) < 2:
        print("usage: check.py <Cxx> [--tier quick|thorough]")
        return 3
    prop = sys.argv[1].upper()
    from checks.common import main_wrapper

    try:
        mod = importlib.import_module(f"checks.{prop.lower()}")
    except ModuleNotFoundError as e:
        print(f"no check for {prop}: {e}")
        return 3
    return main_wrapper(prop, mod.run, sys.argv[2:])


if __name__ == "__main__":
    sys.exit(main())
