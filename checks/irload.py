"""Loads the grammar dumps (subprocess, repository's pegen) and the extracted IR of the shipped parsers."""
from __future__ import annotations

import functools
import os

from checks.common import REPO, json_from, run_py
from engine.pegir import extract_parser

PAIRS = {
    "xonsh": dict(grammar="tasks/xonsh.gram", module="peg_parser/parser.py", cls="XonshParser", dialect="xonsh",
                  loc="**self.span(_lnum, _col)"),
    "meta": dict(grammar="pegen/metagrammar.gram", module="pegen/grammar_parser.py", cls="GeneratedParser", dialect="stock",
                 loc="lineno=start_lineno, col_offset=start_col_offset, end_lineno=end_lineno, end_col_offset=end_col_offset"),
}


@functools.lru_cache(maxsize=None)
def grammar(which: str) -> dict:
    p = PAIRS[which]
    rc, out, err = run_py("harness/dump_grammar.py", [REPO, os.path.join(REPO, p["grammar"]), p["dialect"]], timeout=120)
    if rc != 0:
        raise RuntimeError(f"grammar dump failed for {which}: {err[-800:]}")
    return json_from(out)


@functools.lru_cache(maxsize=None)
def ir(which: str):
    p = PAIRS[which]
    return extract_parser(os.path.join(REPO, p["module"]), p["cls"])
