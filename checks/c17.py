"""C17 -- the parser generator implements PEG semantics for every grammar.

Proved (for all token strings): the run-time combinators the generated code calls are the PEG operators (E1 contracts on
the real subheader.py: leaves, repeated, seq_alts, sep_repeated/gathered, lookaheads, expect_forced, memoize,
memoize_left_rec, logger); and for the two shipped grammar instances every generated method is the PEG meaning of its
rule (`implements`, pegir-unify).  The quantifier over ALL grammars cannot be discharged by contracts on a
string-emitting program (DESIGN C17 [N]): bounded stand-in = VERIF_SEED-seeded random well-formed grammars, each run
through the real generator and then *proved* by `implements`; the generator's nullable / left-recursion / leader
analyses are compared with an independent fixpoint computation.
"""
from __future__ import annotations

import os
import time

from checks import e1common, irload
from checks.common import REPO, Report, StandIn, json_from, run_py
from engine.gramanalysis import analyse
from engine.implements import Matcher
from engine.pegir import extract_parser


def leader_problems(g: dict):
    """PEG semantics do not depend on WHICH valid leader a left-recursive cycle gets: any rule that lies on every cycle of
    its SCC is acceptable, exactly one per SCC"""
    nullable, left, leader = analyse(g)
    cand = analyse.candidates
    bad = []
    by_scc = {}
    for r in g["rules"]:
        n = r["name"]
        if (r["nullable"], r["left_recursive"]) != (nullable[n], left[n]):
            bad.append((n, "nullable/left_recursive", (r["nullable"], r["left_recursive"]), (nullable[n], left[n])))
        if left[n]:
            scc, cs = cand[n]
            by_scc.setdefault(scc, []).extend([n] if r["leader"] else [])
            if r["leader"] and n not in cs:
                bad.append((n, "leader is not on every cycle of its SCC", sorted(cs)))
        elif r["leader"]:
            bad.append((n, "leader flag on a rule that is not left-recursive",))
    for scc, leaders in by_scc.items():
        if len(leaders) != 1:
            bad.append((sorted(scc), f"{len(leaders)} leaders in one left-recursive SCC"))
    return bad


def relax_decorators(g: dict, res: dict):
    """drop `decorator` mismatches that only reflect a different but valid choice of leader (checked by leader_problems)"""
    nullable, left, leader = analyse(g)
    for name, mism in res.items():
        if left.get(name):
            res[name] = [m for m in mism if "decorator is" not in str(m) or not any(d in str(m) for d in ("'memoize_left_rec'", "'logger'"))
                         or "'memoize'," in str(m) or "is 'memoize'" in str(m) or "is None" in str(m)]
    return res


def analysis_obligations(rep: Report, which: str, g: dict):
    bad = leader_problems(g)
    oid = f"C17.analysis.{which}"
    if bad:
        rep.fail(oid, "structural", f"generator analyses (nullable, left_recursive, leader) of {which} agree with an independent fixpoint computation",
                 "pegir-fixpoint", f"differences (rule, generator, independent): {bad[:5]}", witness=bad[:10], replay={"reproduced": True, "observed": bad[:3]})
    else:
        rep.ok(oid, "structural", f"generator analyses (nullable, left_recursive, leader) of {which}: {len(g['rules'])} rules agree with an independent "
               "fixpoint computation", "pegir-fixpoint", function="pegen/parser_generator.py:compute_left_recursives")


def dedup_obligations(rep: Report):
    """helper rules are shared between groups only when the groups are structurally identical, names and actions included:
    the sharing key is repr(rhs), and every __repr__ of the grammar node classes shows every field that matters for parsing"""
    import ast
    import os
    gen = ast.parse(open(os.path.join(REPO, "tasks", "generator.py"), encoding="utf-8").read())
    fn = next((n for c in ast.walk(gen) if isinstance(c, ast.ClassDef) for n in c.body if isinstance(n, ast.FunctionDef) and n.name == "artifical_rule_from_rhs"), None)
    keys = set()
    for n in ast.walk(fn) if fn else []:
        if isinstance(n, ast.Call) and isinstance(n.func, ast.Attribute) and n.func.attr == "get" and "_rhs_func_cache" in ast.unparse(n.func.value):
            keys.add(ast.unparse(n.args[0]))
        if isinstance(n, ast.Subscript) and "_rhs_func_cache" in ast.unparse(n.value) and isinstance(n.ctx, ast.Store):
            keys.add(ast.unparse(n.slice))
    param = fn.args.args[1].arg if fn and len(fn.args.args) > 1 else "rhs"
    desc = "helper rules are shared between groups under the key repr(<the group's alternatives>), for lookup and for insertion"
    if fn is not None and keys == {f"repr({param})"}:
        rep.ok("C17.dedup.key", "structural", desc, "syntactic", function="tasks/generator.py:XonshParserGenerator.artifical_rule_from_rhs")
    else:
        rep.fail("C17.dedup.key", "structural", desc, "syntactic", f"cache key expressions: {sorted(keys)}", witness=sorted(keys),
                 function="tasks/generator.py:XonshParserGenerator.artifical_rule_from_rhs")
    gr = ast.parse(open(os.path.join(REPO, "pegen", "grammar.py"), encoding="utf-8").read())
    ignore = {"type", "memo"}          # annotations / flags that do not change what a helper rule parses or returns
    classes = {c.name: c for c in gr.body if isinstance(c, ast.ClassDef)}
    bad = []
    checked = 0
    for name in ("Rhs", "Alt", "NamedItem", "Opt", "Repeat0", "Repeat1", "Gather", "Group", "PositiveLookahead", "NegativeLookahead", "NameLeaf", "StringLeaf"):
        c = classes.get(name)
        if c is None:
            bad.append(f"{name}: class not found")
            continue
        rp = next((m for m in c.body if isinstance(m, ast.FunctionDef) and m.name == "__repr__"), None)
        init, k = None, c
        while init is None and k is not None:       # __init__ may be inherited (Repeat0 <- Repeat, NameLeaf <- Leaf)
            init = next((m for m in k.body if isinstance(m, ast.FunctionDef) and m.name == "__init__"), None)
            base = k.bases[0].id if k.bases and isinstance(k.bases[0], ast.Name) else None
            k = classes.get(base) if init is None else None
        if rp is None or init is None:
            bad.append(f"{name}: no __repr__ / __init__")
            continue
        text = ast.unparse(rp)
        fields = [a.arg for a in init.args.args[1:] + init.args.kwonlyargs if a.arg not in ignore]
        own = {"PositiveLookahead": ["node"], "NegativeLookahead": ["node"]}.get(name, fields)
        for f in own:
            checked += 1
            if f"self.{f}" not in text:
                bad.append(f"{name}.__repr__ does not show field `{f}`")
    desc = "repr() of every grammar node class shows every field that matters for parsing (item names, actions, cut position, nested nodes), so equal keys mean identical groups"
    if bad:
        rep.fail("C17.dedup.repr_injective", "structural", desc, "syntactic", "; ".join(bad[:5]), witness=bad, function="pegen/grammar.py")
    else:
        rep.ok("C17.dedup.repr_injective", "structural", desc + f" ({checked} fields of 12 classes)", "syntactic", function="pegen/grammar.py")


def run(rep: Report):
    rep.trust("CPython ast", "z3 / cvc5", "engine/pyvc", "engine/pegir + engine/implements (own structural decision procedure)",
              "the repository's pegen front end as grammar reader", "networkx (SCC / DAG test in the independent analysis)")
    rep.assume("full denotational equivalence of seed growing with left-recursive PEG semantics (Warth et al.) is not re-proved: the wrapper's "
               "contract covers termination, cache consistency, cursor restoration and the fixpoint exit condition",
               "for ALL grammars the claim rests on sampled instances (bounded, seeded); only the two shipped instances are proved",
               "A1 Python semantics of the supported subset; rule-like callables deterministic in (cursor, abstract state, cache)")
    e1common.file_into(rep, "C17", rep.tier)
    for which in ("xonsh", "meta"):
        p = irload.PAIRS[which]
        try:
            g, ir = irload.grammar(which), irload.ir(which)
        except Exception as e:
            rep.undecided(f"C17.load.{which}", "structural", f"load pair {which}", "pegir-unify", repr(e))
            continue
        m = Matcher(g, ir, p["dialect"], location_formatting=p["loc"])
        t0 = time.time()
        res = relax_decorators(g, m.run())
        dt = (time.time() - t0) / max(1, len(res))
        for name, mism in res.items():
            oid = f"C17.implements.{which}.{name}"
            fn = f"{p['module']}:{p['cls']}.{name}"
            if mism:
                rep.fail(oid, "structural", f"generated method {name} is the PEG meaning of rule `{name}` of {p['grammar']}", "pegir-unify",
                         "; ".join(str(x) for x in mism[:4]), witness=[str(x) for x in mism[:6]], function=fn)
            else:
                rep.ok(oid, "structural", f"generated method {name} is the PEG meaning of rule `{name}` of {p['grammar']}", "pegir-unify", dt, function=fn)
        analysis_obligations(rep, which, g)
    dedup_obligations(rep)
    # bounded stand-in: random grammars through the real generator
    n = 60 if rep.tier == "quick" else 600
    t0 = time.time()
    rc, out, err = run_py("harness/random_grammars.py", [REPO, rep.seed, n], timeout=1800)
    si = StandIn("random-grammars", f"{n} VERIF_SEED-seeded random grammars (2-5 rules, all operators, direct/indirect left recursion, memo flags); "
                 "each generated by the real generator and proved by `implements`")
    if rc != 0:
        rep.undecided("C17.standin.run", "bounded", "run the real generator on random grammars", "cpython-exec", err[-800:])
    else:
        hidden = 0
        for rec in json_from(out):
            si.evaluations += 1
            if "error" in rec:
                continue        # outside the domain (generator rejects the grammar)
            # domain (quantifier of C17): left recursion hidden behind a nullable prefix is excluded
            if analyse(rec["grammar"])[1] != analyse(rec["grammar"], skip_nullable_prefix=False)[1]:
                hidden += 1
                continue
            si.distinct_nontrivial += 1
            try:
                ir = extract_parser("<generated>", None, src=rec["source"])
            except SyntaxError as e:
                si.failures.append({"input": rec["text"], "site": "generator-output", "what": f"generated module does not parse: {e}", "observed": rec["source"][:400]})
                continue
            m = Matcher(rec["grammar"], ir, "xonsh")
            mism = [str(x) for v in relax_decorators(rec["grammar"], m.run()).values() for x in v] + m.table_checks()
            mism += [f"analysis: {b}" for b in leader_problems(rec["grammar"])]
            if mism:
                si.failures.append({"input": rec["text"], "site": "random-grammar", "what": "generated parser is not the PEG meaning of the grammar: " + "; ".join(mism[:3]),
                                    "observed": mism[:6]})
            if len(si.samples) < 2:
                si.samples.append(rec["text"])
    si.seconds = time.time() - t0
    if rc == 0:
        rep.notes.append(f"random grammars outside the domain (left recursion hidden behind a nullable prefix): {hidden} skipped")
    rep.standins.append(si)
