"""C16 -- shipped generated parsers are exactly what their grammars generate.

Deciding obligations (DESIGN 5/C16):
  * implements(R) for every rule of both shipped (grammar, module) pairs   [pegir-unify, all token strings]
  * keyword / soft-keyword tables = quoted identifiers of the grammar      [pegir-unify]
  * regeneration: the repository's own generation step is run into a scratch file (outside /repo and /verif) under
    k hash seeds and compared member by member after normalisation          [cpython-exec; complete for the finite
    quantifier "the two shipped pairs" under the seeds used]
  * determinism: every iteration over a set on the generator path has an order-insensitive consumer [frames]
Verdict rule: a member whose regenerated text differs from the shipped one is a violation (stale or hand-edited
file).  A failed implements(R) whose regenerated method *equals* the shipped one is not a C16 violation (shipped =
generated holds); it is reported by C17.
"""
from __future__ import annotations

import time

from checks import irload
from checks.common import REPO, Report, json_from, run_py
from engine.implements import Matcher
from engine import setorder


def regen(which: str, seed: str):
    rc, out, err = run_py("harness/regen.py", [which, REPO], timeout=300, env={"PYTHONHASHSEED": seed})
    if rc != 0:
        return None, err[-1500:]
    return json_from(out), ""


def run(rep: Report):
    seeds = ["0"] if rep.tier == "quick" else ["0", "1", "2", "3", "17", "101", "4242", "random"]
    rep.trust("CPython `ast` (reads the shipped modules)", "the repository's pegen front end (reads the grammar files)",
              "engine/pegir.py extractor + engine/implements.py matcher (own decision procedure, ~600 lines)",
              "harness/regen.py normalisation (ast.dump per class member, return annotations dropped)")
    rep.assume("the set of hash seeds exercised concretely is finite (quick: 1, thorough: 8); seed-independence beyond them "
               "rests on the determinism obligations (set-iteration sites) and on sccutils' result being order-insensitive as a set of sets",
               "formatting (ruff) is not run: comparison is on ast, so layout, comments and quote style are ignored by construction")
    regen_by_pair = {}
    for which in ("xonsh", "meta"):
        p = irload.PAIRS[which]
        t0 = time.time()
        try:
            g = irload.grammar(which)
            ir = irload.ir(which)
        except Exception as e:   # grammar does not parse etc.
            rep.undecided(f"C16.load.{which}", "structural", f"load grammar and module of pair {which}", "pegir-unify", repr(e))
            continue
        m = Matcher(g, ir, p["dialect"], location_formatting=p["loc"])
        res = m.run()
        load_s = time.time() - t0
        # regeneration (all seeds): member -> differing?
        differing = {}
        hashes = set()
        for s in seeds:
            t1 = time.time()
            r, err = regen(which, s)
            if r is None:
                rep.undecided(f"C16.regen.{which}.seed{s}", "translation", f"run the generation step for {p['grammar']}", "cpython-exec", err)
                continue
            hashes.add(r["generated_sha256"])
            for d in r["diffs"]:
                differing.setdefault(d["member"], d)
            oid = f"C16.regen.{which}.seed{s}"
            if r["diffs"]:
                pass   # reported per member below
            else:
                rep.ok(oid, "translation", f"{p['grammar']} regenerated under PYTHONHASHSEED={s}: {r['members_generated']} members equal "
                       f"the shipped {p['module']}", "cpython-exec", time.time() - t1, function=p["module"])
        regen_by_pair[which] = differing
        if len(hashes) > 1:
            rep.fail(f"C16.determinism.{which}", "translation", f"generation of {p['grammar']} is not deterministic across hash seeds",
                     "cpython-exec", f"distinct outputs: {sorted(hashes)}", witness={"seeds": seeds},
                     replay={"reproduced": True, "observed": sorted(hashes)})
        for member, d in differing.items():
            rep.fail(f"C16.regen.{which}.{member}", "translation",
                     f"regenerated member `{member}` of {p['module']} differs from the shipped one ({d['kind']})", "cpython-exec",
                     detail=f"shipped:\n{d.get('shipped','')[:1500]}\n--- generated:\n{d.get('generated','')[:1500]}",
                     witness={"member": member, "kind": d["kind"]}, replay={"reproduced": True, "observed": d["kind"]},
                     function=f"{p['module']}:{member}")
        n = max(1, len(res))
        for name, mism in res.items():
            oid = f"C16.implements.{which}.{name}"
            fn = f"{p['module']}:{p['cls']}.{name}"
            if not mism:
                rep.ok(oid, "structural", f"method {name} = PEG meaning of rule `{name}` of {p['grammar']} (decorator, alternatives, items, cut, gating, action)",
                       "pegir-unify", load_s / n, function=fn)
            elif name in differing:
                pass    # already reported by the regeneration obligation of this member (one violation per member)
            else:
                rep.notes.append(f"implements({which}.{name}) fails but the regenerated method equals the shipped one: not a C16 violation, see C17: "
                                 + "; ".join(str(x) for x in mism[:2]))
        for h in sorted(m.used_helpers):
            rep.functions.add(f"{p['module']}:{p['cls']}.{h}")
        tc = m.table_checks()
        real_tc = [t for t in tc if not (t.startswith("methods of unrecognised shape") and not differing)]
        if real_tc and any(k in differing for k in ("KEYWORDS", "SOFT_KEYWORDS")) or not real_tc:
            if not real_tc:
                rep.ok(f"C16.tables.{which}", "structural", "KEYWORDS/SOFT_KEYWORDS = quoted identifiers of the grammar; no stray methods",
                       "pegir-unify", 0.0, function=p["module"])
        else:
            rep.fail(f"C16.tables.{which}", "structural", "keyword tables / method inventory", "pegir-unify", "; ".join(real_tc),
                     witness=real_tc, replay={"reproduced": True, "observed": real_tc}, function=p["module"])
        rep.extra.setdefault("pairs", {})[which] = {"rules": len(res), "helpers_matched": len(m.used_helpers), "seeds": seeds,
                                                    "distinct_outputs": len(hashes)}
    # determinism obligations on the generator path
    for ob in setorder.check_generator_path(REPO):
        rep.add(ob)
