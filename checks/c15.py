"""C15 -- options only do what they say: verbose is inert, py_version gating is monotone.

Proved (all inputs): relational (two-run) obligations verbose=True vs False on the three wrappers of the real
subheader.py (memoize, memoize_left_rec incl. its seed-growing loop via a relational loop invariant, logger) and the
single-run contracts of Tokenizer.reset/report/getnext, Parser.showpeek; check_version's contract (returns the node iff
py_version >= min_version, raises SyntaxError only otherwise); py_version is read nowhere else; the call sites of
check_version are exactly the three version-gated constructs.
Bounded: statement pool x verbose x py_version in {None,(3,8)..(3,13)} x mode.
"""
from __future__ import annotations

import ast
import os
import time

from checks import e1common, irload, oracle, pool
from checks.common import REPO, Report, StandIn

EXPECTED_SITES = {"try_stmt": (3, 11), "type_params": (3, 12), "type_alias": (3, 12)}


def callsite_obligations(rep: Report):
    ir = irload.ir("xonsh")
    found = {}
    for name, r in ir.rules.items():
        for a in r.alts:
            if a.action is None:
                continue
            for n in ast.walk(a.action):
                if isinstance(n, ast.Call) and isinstance(n.func, ast.Attribute) and n.func.attr == "check_version":
                    try:
                        v = ast.literal_eval(n.args[0])
                    except Exception:
                        v = None
                    found.setdefault(name, []).append(v)
    for name, vs in sorted(found.items()):
        oid = f"C15.callsite.{name}"
        if name in EXPECTED_SITES and all(v == EXPECTED_SITES[name] for v in vs):
            rep.ok(oid, "structural", f"check_version call in `{name}` gates {EXPECTED_SITES[name]} syntax named in the property", "pegir-unify",
                   function=f"peg_parser/parser.py:XonshParser.{name}")
        else:
            rep.fail(oid, "structural", f"check_version call site `{name}` with versions {vs} is not one of the version-gated constructs "
                     f"of the property ({EXPECTED_SITES})", "pegir-unify", f"found {vs}", witness={"rule": name, "versions": vs},
                     function=f"peg_parser/parser.py:XonshParser.{name}")
    for name in EXPECTED_SITES:
        if name not in found:
            rep.fail(f"C15.callsite.{name}", "structural", f"version-gated construct `{name}` no longer calls check_version", "pegir-unify",
                     "call site missing", witness={"rule": name}, function=f"peg_parser/parser.py:XonshParser.{name}")
    # py_version is read only by check_version (and written only by __init__)
    for rel in ("peg_parser/subheader.py", "peg_parser/parser.py"):
        tree = ast.parse(open(os.path.join(REPO, rel), encoding="utf-8").read())
        readers = set()
        for fn in ast.walk(tree):
            if isinstance(fn, ast.FunctionDef):
                for n in ast.walk(fn):
                    if isinstance(n, ast.Attribute) and n.attr == "py_version":
                        readers.add(fn.name)
        extra = readers - {"check_version", "__init__"}
        oid = f"C15.frame.py_version.{os.path.basename(rel)}"
        if extra:
            rep.fail(oid, "frame", f"`py_version` is used outside check_version/__init__ in {rel}", "frames", f"also used in {sorted(extra)}",
                     witness=sorted(extra), function=rel)
        else:
            rep.ok(oid, "frame", f"`py_version` is read only by check_version (written only by __init__) in {rel}", "frames", function=rel)
    # `_verbose` is read only by the wrappers / tokenizer reporting
    allowed = {"logger_wrapper", "memoize_wrapper", "memoize_left_rec_wrapper", "__init__", "getnext", "reset", "parse_file", "parse_string"}
    for rel in ("peg_parser/subheader.py", "peg_parser/tokenizer.py", "peg_parser/parser.py"):
        tree = ast.parse(open(os.path.join(REPO, rel), encoding="utf-8").read())
        readers = set()
        for fn in ast.walk(tree):
            if isinstance(fn, ast.FunctionDef):
                inner = {id(x) for sub in ast.walk(fn) if isinstance(sub, ast.FunctionDef) and sub is not fn for x in ast.walk(sub)}
                for n in ast.walk(fn):
                    if id(n) in inner:
                        continue
                    if (isinstance(n, ast.Attribute) and n.attr == "_verbose") or (isinstance(n, ast.Name) and n.id == "verbose" and isinstance(n.ctx, ast.Load)):
                        readers.add(fn.name)
        extra = readers - allowed
        oid = f"C15.frame.verbose.{os.path.basename(rel)}"
        if extra:
            rep.fail(oid, "frame", f"the verbose flag is consulted outside the three wrappers / tokenizer reporting in {rel}", "frames",
                     f"also used in {sorted(extra)}", witness=sorted(extra), function=rel)
        else:
            rep.ok(oid, "frame", f"the verbose flag is consulted only by the wrappers under relational contract and by Tokenizer reporting in {rel}",
                   "frames", function=rel)


VERSIONS = [None, [3, 8], [3, 9], [3, 10], [3, 11], [3, 12], [3, 13]]


def standin(rep: Report):
    t0 = time.time()
    srcs = pool.PY_STMTS + pool.XSH_STMTS + ["x y z\n", "def f(:\n", "f!(a)\nx y z\n", "a = (1,\n", "if x:\npass\n"]
    if rep.tier == "thorough":
        for _n, s in pool.data_files():
            srcs.extend(pool.split_statements(s)[:60])
    srcs = list(dict.fromkeys(srcs))
    cases = []
    for s in srcs:
        for v in VERSIONS:
            cases.append({"src": s, "mode": "exec", "py_version": v, "verbose": False})
        cases.append({"src": s, "mode": "exec", "py_version": None, "verbose": True})
        cases.append({"src": s.rstrip("\n"), "mode": "eval", "py_version": None, "verbose": False})
        cases.append({"src": s.rstrip("\n"), "mode": "eval", "py_version": None, "verbose": True})
    res = oracle.run("parse", cases)
    si = StandIn("options-product", f"{len(srcs)} sources x verbose in {{F,T}} x py_version in {{None,(3,8)..(3,13)}} x mode in {{exec,eval}}")
    per = len(VERSIONS) + 3

    def key(r):
        return ("ok", r.get("dump")) if r.get("ok") else ("exc", r["exc"]["cls"], r["exc"]["msg"], r["exc"].get("lineno"), r["exc"].get("offset"))
    for i, s in enumerate(srcs):
        rs = res[i * per:(i + 1) * per]
        byv = rs[:len(VERSIONS)]
        si.evaluations += per
        if any(r.get("ok") for r in rs):
            si.distinct_nontrivial += 1
        if key(rs[0]) != key(rs[len(VERSIONS)]):
            si.failures.append({"input": s, "site": "verbose-exec", "what": "verbose=True changes the outcome (exec)", "observed": [key(rs[0])[:2], key(rs[len(VERSIONS)])[:2]]})
        if key(rs[len(VERSIONS) + 1]) != key(rs[len(VERSIONS) + 2]):
            si.failures.append({"input": s, "site": "verbose-eval", "what": "verbose=True changes the outcome (eval)", "observed": None})
        default = byv[0]
        # monotone: ok at v => same tree at every later version and at the default; a rejection below names the version
        for j in range(1, len(byv)):
            r = byv[j]
            if r.get("ok"):
                for k in range(j + 1, len(byv)):
                    if key(byv[k]) != key(r):
                        si.failures.append({"input": s, "site": "py_version-monotone", "what": f"accepted at {VERSIONS[j]} but different at {VERSIONS[k]}", "observed": None})
                        break
                if VERSIONS[j][1] <= 12 and key(default) != key(r):
                    si.failures.append({"input": s, "site": "py_version-default", "what": f"result at {VERSIONS[j]} differs from the default", "observed": None})
            elif default.get("ok"):
                msg = r["exc"]["msg"]
                if r["exc"]["cls"] != "SyntaxError" or "only supported in Python" not in msg:
                    si.failures.append({"input": s, "site": "py_version-gate", "what": f"lowering py_version to {VERSIONS[j]} fails without naming the required version: {r['exc']['cls']}: {msg[:80]}", "observed": None})
            else:
                if key(r) != key(default) and "only supported in Python" not in r["exc"]["msg"]:
                    si.failures.append({"input": s, "site": "py_version-error", "what": f"py_version={VERSIONS[j]} changes the error of an invalid input", "observed": [key(default)[:3], key(r)[:3]]})
        # gated syntax accepted below its version?
    si.samples = [{"src": srcs[0], "results": [key(r)[0] for r in res[:per]]}]
    si.seconds = time.time() - t0
    rep.standins.append(si)


def run(rep: Report):
    rep.trust("CPython ast", "z3 / cvc5", "engine/pyvc (VC generator, ~2500 lines)", "engine/pegir extractor")
    rep.assume("A1 Python semantics of the supported subset as encoded by engine/pyexpr.py+pyexec.py",
               "rule-like callables are deterministic functions of (cursor, abstract parser state, memo cache): they do not depend on how many "
               "tokens have been pulled ahead, nor on Parser._level (the verbose paths call showpeek(), which may pull one token early)",
               "exceptions raised by rule methods propagate identically in both runs (no handler other than the try/finally restoring in_recursive_rule)",
               "print() has no effect on the modelled state")
    e1common.file_into(rep, "C15", rep.tier)
    callsite_obligations(rep)
    standin(rep)
