"""C03 -- totality: every input terminates with a tree or a SyntaxError / IndentationError / TokenError.

Proved (all inputs):
  * termination of the parser recursion: ranking of same-index calls (z3 model = certificate), left-recursive leaders cut
    at their primed cache; strict progress of every repeated/gathered callee; seed-growing loop variant (E1);
  * exception safety of the functions under contract: every subscript, dict lookup, next(), assert, unpacking and
    attribute-of-None in their real bodies has a discharged safety VC, every escaping exception class is one the
    contract allows (E1); the ENDMARKER discipline (never_past_end) that justifies `can_peek` (E2);
  * Parser.parse never returns None (E1);
  * (E3b, engine/rxambig.py) no tokenizer pattern has an unbounded loop whose body can start with a character that an unbounded
    repeat at the end of the same body also consumes -- the shape that makes `re` backtrack exponentially on a line that fails to
    match (a sufficient syntactic condition; other sources of super-linear matching are not excluded).
Bounded: prefixes / single-edit mutations / character soup of a statement pool (hang = 5 s).
Not modelled: recursion and memory limits (known finding, replayed), functions outside the contracts (listed).
"""
from __future__ import annotations

import json
import re
import time

from checks import e1common, irload, pool
from checks.c18 import progress_obligations
from checks.common import REPO, Report, StandIn, json_from, run_py
from checks.parserfacts import eof_obligations, rank_obligations

SAFETY_KINDS = {"safety", "variant", "raises", "pre", "vacuity", "invariant-entry", "invariant-preserved", "raises-only-when", "post"}


def regex_obligations(rep: Report):
    """termination in practice also needs `re` not to backtrack exponentially: per tokenizer pattern, no unbounded loop whose body can start
    with a character that an unbounded repeat at the end of the same body also consumes (engine/rxambig.py: sufficient, syntactic)"""
    from checks import rxload
    from engine import rxambig
    try:
        d = rxload.patterns()
    except RuntimeError as e:
        rep.undecided("C03.rx.load", "lemma", "load the tokenizer's patterns", "rx-syntactic", str(e)[-300:])
        return
    pats = {**{f"{k}": v for k, v in d["ours"].items()}, **{f"startpats[{k}]": v for k, v in d.get("startpats", {}).items()},
            **{f"endpats[{k}]": v for k, v in d["endpats"].items()}}
    for name, pat in sorted(pats.items()):
        oid = "C03.rx.backtracking." + "".join(c if c.isalnum() else "_" for c in name)
        desc = (f"pattern `{name}`: no unbounded loop can split a run of characters among its iterations in more than one way through a trailing inner repeat "
                "(no exponential backtracking of `re` on a line that fails to match)")
        try:
            probs = rxambig.problems(pat)
        except rxambig.Unsupported as u:
            rep.undecided(oid, "lemma", desc, "rx-syntactic", f"construct outside the analysis: {u}", function="peg_parser/tokenize.py:<patterns>")
            continue
        except re.error as e:
            rep.undecided(oid, "lemma", desc, "rx-syntactic", f"pattern does not compile: {e}", function="peg_parser/tokenize.py:<patterns>")
            continue
        if probs:
            rep.fail(oid, "lemma", desc, "rx-syntactic", probs[0], witness={"pattern": pat, "problems": probs[:3]}, function="peg_parser/tokenize.py:<patterns>")
        else:
            rep.ok(oid, "lemma", desc, "rx-syntactic", function="peg_parser/tokenize.py:<patterns>")


def expr_name_obligation(rep: Report):
    """Parser.get_expr_name raises ValueError for a node class it has no name for; that exception would escape from the diagnostic pass.  Every
    expression class of the running CPython's ASDL that can stand where a target is expected is named (Constant is handled before the table;
    Slice only occurs inside a Subscript, never as the target itself)."""
    rc, out, err = run_py("harness/expr_names.py", [], timeout=60)
    desc = "get_expr_name names every expression node class of the running CPython (no ValueError out of the invalid-target diagnostics)"
    if rc != 0:
        rep.undecided("C03.expr_names.total", "lemma", desc, "cpython-exec", err[-400:])
        return
    d = json_from(out)
    missing = sorted(set(d["expr_classes"]) - set(d["mapped"]) - {"Constant", "Slice"})
    if missing:
        rep.fail("C03.expr_names.total", "lemma", desc, "syntactic", f"no name for {missing}", witness=missing, function="peg_parser/subheader.py:Parser.get_expr_name")
    else:
        rep.ok("C03.expr_names.total", "lemma", desc + f" ({len(d['expr_classes'])} classes)", "syntactic", function="peg_parser/subheader.py:Parser.get_expr_name")


def run(rep: Report):
    rep.trust("CPython ast", "z3 / cvc5", "engine/pyvc", "engine/pegir + engine/pegfacts")
    rep.assume("A1 Python semantics of the supported subset", "A3 readline returns '' after finitely many calls (finite token stream)",
               "A5 no resource exhaustion: recursion depth and memory are not modelled (RecursionError on deep nesting is a known finding)",
               "external calls: ast.literal_eval may raise SyntaxError; its ValueError subclasses (lone surrogates) are a known finding; open() may raise OSError",
               "rule-like callables preserve the Tokenizer invariant tk_ok (inductive: they only act through the methods under contract)")
    ir = irload.ir("xonsh")
    e1common.file_into(rep, "C03", rep.tier, kinds=SAFETY_KINDS, all_contracts=True)
    rank_obligations(rep, ir, "C03")
    eof_obligations(rep, ir, "C03")
    progress_obligations(rep, ir, "C03")
    regex_obligations(rep)
    expr_name_obligation(rep)
    # ---- bounded stand-in
    t0 = time.time()
    n = 6000 if rep.tier == "quick" else 60000
    seeds = pool.PY_STMTS + pool.XSH_STMTS + ["f'{a}'\n", "f'''a\n{b:>{w}}\n'''\n", "x = '''a\nb'''\n", "x = (1,\n 2)\n", "x = 1 + \\\n 2\n",
                                              "with! a:\n", "f!(a, [b, c], 'd,e')\n", "if a:\n\tb\n        c\n",
                                              # literal concatenations mixing kinds, every order (an error of the literal must stay a SyntaxError; round-5 seed C03e)
                                              "f'a' b'c'\n", "x = f'a{y}b' b'c'\n", "print('s' f'a' b'c')\n", "b'c' f'a'\n", "f'{x}' b'c' 'd'\n", "'s' b'c'\n", "f\'\'\'a\'\'\' b'c'\n"]
    rc, out, err = run_py("harness/fuzz_totality.py", [rep.seed, n], timeout=3600, stdin=json.dumps(seeds))
    si = StandIn("totality-fuzz", f"{n} inputs: all prefixes + seeded single-edit mutations + character soup of {len(seeds)} sources, exec and eval mode, hang = 5 s")
    if rc != 0:
        rep.undecided("C03.standin.run", "bounded", "run the totality fuzz", "cpython-exec", err[-800:])
    else:
        d = json_from(out)
        si.evaluations = d["evaluations"]
        si.distinct_nontrivial = d["distinct"]
        for f in d["failures"]:
            cls = f["observed"].split(":")[0]
            si.failures.append({"input": f["input"], "site": f"exc:{cls}", "signature": ("surrogates not allowed" if "surrogates" in f["observed"] else cls),
                                "what": f"{f['observed']} escapes from parse_string(mode={f['mode']})", "observed": f["observed"]})
        si.samples = [seeds[0][:5], seeds[3][:9]]
    # known finding replay: deep nesting
    rc2, out2, err2 = run_py("harness/fuzz_totality.py", [0, 2000], timeout=300, stdin=json.dumps(["(" * 400 + ")" * 400 + "\n"]))
    if rc2 == 0:
        for f in json_from(out2)["failures"]:
            if f["observed"].startswith("RecursionError"):
                si.failures.append({"input": "'(' * 400 + ')' * 400", "site": "exc:RecursionError", "signature": "RecursionError",
                                    "what": "RecursionError escapes on deeply nested brackets", "observed": f["observed"]})
                break
    si.seconds = time.time() - t0
    rep.standins.append(si)
