"""Parallel front end to harness/oracle.py (16 worker subprocesses)."""
from __future__ import annotations

import json
import os
import subprocess
from concurrent.futures import ThreadPoolExecutor

from checks.common import REPO, VENV_PY, VERIF


def _chunk(op, cases, env_extra=None, case_seconds=10):
    e = dict(os.environ)
    e["PYTHONPATH"] = REPO
    e["PYTHONDONTWRITEBYTECODE"] = "1"
    e["ORACLE_CASE_SECONDS"] = str(case_seconds)
    if env_extra:
        e.update(env_extra)
    p = subprocess.run([VENV_PY, os.path.join(VERIF, "harness", "oracle.py")], input=json.dumps({"op": op, "cases": cases}),
                       capture_output=True, text=True, env=e, timeout=max(120, case_seconds * len(cases) + 60), cwd="/")
    if p.returncode != 0:
        raise RuntimeError(f"oracle {op} failed: {p.stderr[-1500:]}")
    for ln in reversed(p.stdout.strip().splitlines()):
        if ln.startswith("["):
            return json.loads(ln)
    raise RuntimeError("oracle produced no JSON: " + p.stdout[-500:])


def run(op: str, cases: list, workers: int = 16, env_extra=None, case_seconds: int = 10):
    if not cases:
        return []
    n = max(1, min(workers, len(cases) // 8 or 1))
    size = (len(cases) + n - 1) // n
    chunks = [cases[i:i + size] for i in range(0, len(cases), size)]
    with ThreadPoolExecutor(len(chunks)) as ex:
        parts = list(ex.map(lambda ch: _chunk(op, ch, env_extra, case_seconds), chunks))
    return [r for part in parts for r in part]
