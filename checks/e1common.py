"""Runs the E1 VC generator over the functions under contract and files the results into a Report."""
from __future__ import annotations

import ast
import hashlib
import json
import os
import pickle
import time

from checks.common import DISCHARGED, FAILED, REPO, UNDECIDED, VERIF, Obligation, Report

FILES = ["peg_parser/tokenizer.py", "peg_parser/subheader.py", "peg_parser/tokenize.py"]
BASELINE = os.path.join(VERIF, "baseline_obligations.json")


def _engine_hash():
    h = hashlib.sha256()
    for root in (os.path.join(VERIF, "engine"), os.path.join(VERIF, "contracts")):
        for fn in sorted(os.listdir(root)):
            if fn.endswith(".py"):
                h.update(open(os.path.join(root, fn), "rb").read())
    return h


def _file_hash(f: str):
    """cache key of one verified file: engine + contracts + the file + tokenizer.py (class shapes read constants from its __init__)"""
    h = _engine_hash()
    try:
        # binder lists / shapes of the baseline decide whether a contract is re-written for renamed binders (engine/alpha.py)
        bl = json.load(open(BASELINE))
        h.update(json.dumps({k: [v.get("binders"), v.get("shape")] for k, v in sorted(bl.items())}).encode())
    except (OSError, ValueError):
        pass
    for g in dict.fromkeys([f, "peg_parser/tokenizer.py"]):
        try:
            h.update(open(os.path.join(REPO, g), "rb").read())
        except OSError:
            h.update(b"<missing>")
    return h.hexdigest()[:20]


def function_hash(src: str, qual: str) -> str:
    """hash of the function's source with comments/formatting removed (ast.dump)"""
    try:
        tree = ast.parse(src)
        body = tree.body
        node = None
        for p in qual.split("#")[0].split("."):
            node = next((n for n in body if isinstance(n, (ast.FunctionDef, ast.ClassDef)) and n.name == p), None)
            if node is None:
                return "missing"
            body = node.body
        return hashlib.sha256(ast.dump(node).encode()).hexdigest()[:16]
    except SyntaxError:
        return "syntax-error"


def run_all(tier: str):
    """-> {contract name: {"vcs": [dict], "unsupported": str|None, "seconds": float, "fhash": str}} (cached per verified file and source state)"""
    cdir = os.environ.get("VERIF_SCRATCH_DIR") or os.path.join(VERIF, ".scratch")
    os.makedirs(cdir, exist_ok=True)
    from engine.run_e1 import verify_file
    out = {}
    timeout = 20000 if tier == "quick" else 60000
    keep = set()
    # one E1 computation at a time per cache directory: checks started together wait for the first one instead of competing for the
    # cores (solver verdicts must not flip under load)
    import fcntl
    lock = open(os.path.join(cdir, "e1.lock"), "w")
    fcntl.flock(lock, fcntl.LOCK_EX)
    try:
        return _run_all_locked(tier, cdir, verify_file, out, timeout, keep)
    finally:
        fcntl.flock(lock, fcntl.LOCK_UN)
        lock.close()


def _run_all_locked(tier, cdir, verify_file, out, timeout, keep):
    for f in FILES:
        tag = hashlib.sha256(f.encode()).hexdigest()[:6]
        cpath = os.path.join(cdir, f"e1-{tag}-{_file_hash(f)}-{tier}.pkl")
        keep.add(os.path.basename(cpath))
        part = None
        if os.path.exists(cpath) and not os.environ.get("VERIF_NO_CACHE"):
            try:
                part = pickle.load(open(cpath, "rb"))
            except Exception:
                part = None
        if part is None:
            part = {}
            try:
                src = open(os.path.join(REPO, f), encoding="utf-8").read()
                res = verify_file(REPO, f, None, timeout, both=(tier == "thorough"))
            except SyntaxError as e:
                part[f + ":<module>"] = {"vcs": [], "unsupported": f"source does not parse: {e}", "seconds": 0.0, "fhash": "syntax-error"}
                res = {}
            for name, d in res.items():
                part[name] = {"unsupported": d["unsupported"], "seconds": d["seconds"], "fhash": function_hash(src, name.split(":")[1]), "renamed": d.get("renamed"), "assumptions": d.get("assumptions", []),
                              "vcs": [{"id": v.id, "kind": v.kind, "desc": v.desc, "status": v.status, "seconds": v.seconds,
                                       "backend": v.backend, "model": v.model, "lineno": v.lineno} for v in d["vcs"]]}
            pickle.dump(part, open(cpath + ".tmp", "wb"))
            os.replace(cpath + ".tmp", cpath)
        out.update(part)
    for old in os.listdir(cdir):
        if old.startswith("e1-") and old.endswith(f"-{tier}.pkl") and old not in keep and not os.environ.get("VERIF_KEEP_CACHE"):
            try:
                os.unlink(os.path.join(cdir, old))
            except OSError:
                pass
    return out


def load_baseline():
    try:
        return json.load(open(BASELINE))
    except FileNotFoundError:
        return {}


def file_into(rep: Report, prop: str, tier: str, kinds=None, only=None, all_contracts=False):
    """adds the obligations of every contract that serves `prop`"""
    from engine.contract import REGISTRY
    from engine.run_e1 import load_contracts
    load_contracts()
    res = run_all(tier)
    base = load_baseline()
    n = 0
    rep.assume("E1 heap model: distinct object-valued parameters (and their object-valued fields) denote distinct objects -- no aliasing between arguments; "
               "objects returned by calls under contract and loop-carried objects have unconstrained identity")
    for name, c in REGISTRY.items():
        if prop not in c.properties and not all_contracts:
            continue
        if only and name.split(":")[1] not in only:
            continue
        short = name.split(":")[1]
        if not c.verify:
            rep.assume(f"ASSUMED contract (body not verified): {short} -- {c.why_assumed}")
            continue
        for r, why in c.requires_assumed.items():
            rep.assume(f"ASSUMED ghost precondition of {short} (not checked at its call sites): `{r}` -- {why}")
        d = res.get(name)
        if d is None:
            rep.undecided(f"{prop}.E1.{short}", "contract", f"verify {short}", "pyvc", "no result (file failed to load)", function=name)
            continue
        for a in d.get("assumptions") or []:
            rep.assume(f"{short}: {a}")
        if c.inline:
            rep.notes.append(f"{short}: the module-level helpers {', '.join(c.inline)} have no contract of their own: their REAL bodies are executed at the call sites inside this function")
        if d.get("renamed"):
            rep.notes.append(f"{short}: binders were renamed since the baseline ({d['renamed']}); the sidecar contract was re-written accordingly (same statement shape)")
        if d["unsupported"]:
            # a tool limit, not a verdict: the body uses a construct outside the executor's subset (or the sidecar no longer lines up with it).
            # Never reported as a violation; the bounded stand-in of the same run still judges the behaviour.
            b = base.get(name, {})
            changed = " (the function changed since the baseline: its sidecar contract needs maintenance)" if b and b.get("fhash") != d["fhash"] else ""
            rep.undecided(f"{prop}.E1.{short}.unsupported", "contract", f"verify {short}{changed}", "pyvc", d["unsupported"], function=name)
        for v in d["vcs"]:
            if kinds and v["kind"] not in kinds:
                continue
            oid = f"{prop}.E1.{v['id']}"
            n += 1
            if v["status"] == "discharged":
                rep.ok(oid, v["kind"], f"{short}: {v['desc']}", v["backend"], v["seconds"], function=name)
            elif v["status"] == "refuted":
                rep.fail(oid, v["kind"], f"{short}: {v['desc']}", v["backend"], f"refuted (line {v['lineno']}); solver model: {v['model']}",
                         witness={"function": name, "model": v["model"], "line": v["lineno"]}, seconds=v["seconds"], function=name)
            else:
                b = base.get(name, {})
                if b and v["id"] in b.get("discharged", []) and b.get("fhash") != d["fhash"]:
                    # passed on the unchanged tree, the function's code changed, and the obligation is no longer discharged
                    rep.fail(oid, v["kind"], f"{short}: {v['desc']}", v["backend"],
                             f"obligation was discharged on the baseline tree and is no longer discharged after the function changed; solver: {v['model']}",
                             witness={"function": name, "line": v["lineno"]}, seconds=v["seconds"], function=name)
                else:
                    rep.undecided(oid, v["kind"], f"{short}: {v['desc']}", v["backend"], str(v["model"]), seconds=v["seconds"], function=name)
    # run-time cross-check of the same clause texts on the real functions (bounded; validates the encoding, see checks/rtcheck.py)
    rt = [name.split(":")[1] for name, c in REGISTRY.items() if (prop in c.properties or all_contracts) and c.verify and name.split(":")[1].split(".")[-1] in RT_CALLABLE
          and (not only or name.split(":")[1] in only)]
    if rt and not kinds:
        from checks import rtcheck
        rtcheck.crosscheck(rep, rt)
    return n


# functions whose arguments the run-time cross-check can build (plain tokens / nodes / lists of them; no tokenizer state needed)
RT_CALLABLE = {"expand_env_name", "expand_env_expr", "expand_search_path", "proc_pyexpr", "handle_proc", "proc_inject", "macro_call", "handle_with_macro_stmt",
               "handle_func_macro_start", "handle_with_macro_start", "handle_proc_macro_start", "proc_macro_arg", "set_expr_context", "expand_help",
               "_append_node_or_token", "is_adjacent", "_strip_path_prefix", "proc_args", "_proc_args", "concatenate_strings", "handle_fstring", "_concat_strings_in_constant",
               "literal_eval", "ensure_real", "ensure_imaginary", "extract_import_level", "make_arguments", "get_comparison_ops", "get_comparators", "set_decorators", "check_fstring_conversion", "get_invalid_target", "raise_syntax_error_invalid_target"}
