"""C09 -- the tokenizer agrees with CPython's on Python sources.

Proved (E3, for all strings): lexeme languages of the REAL patterns equal the running CPython's stdlib reference
patterns (Number, Name, Comment, Whitespace, the four string-end patterns); Special = reference operators + exactly the
documented xonsh operators; longest-operator-first ordering; extra string prefixes all contain p/P; PseudoToken is an
alternation of named groups, none but End accepts the empty string; alternatives ordered differently from CPython have
disjoint first characters; SEARCH_PATH lexemes = the documented backtick form.  (E1) indentation arithmetic.
Bounded: significant-token sequences equal tokenize.generate_tokens on products of lexeme atoms and layouts.
Not decided: equality with the C tokenizer beyond the bound (oracle is C code); regex priority semantics are covered
only where the pattern text is identical to the reference or the language is prefix-free.
"""
from __future__ import annotations

import itertools
import time

from checks import oracle, pool, rxload
from checks.common import Report, StandIn
from engine import rx

XONSH_OPS = {"$", "?", "??", "||", "&&", "@(", "!(", "![", "$(", "$[", "${", "@$(", ">&"}
SEARCH_PATH_SPEC = r"([rgpf]+|@\w*)?`(?:\\.|[^\n`\\])*`"
PSEUDO_ORDER = ["Comment", "StringStart", "End", "NL", "SearchPath", "Number", "Special", "Name", "ws"]


def decide(rep, oid, desc, fn, prop="C09", kind="lemma", replay=None):
    t0 = time.time()
    try:
        verdict, w = fn()
    except Exception as e:  # translation failure = undecided
        rep.undecided(oid, kind, desc, "rx-z3", f"pattern could not be translated: {e!r}")
        return None
    dt = time.time() - t0
    if verdict == "unsat":
        rep.ok(oid, kind, desc, "rx-z3", dt, function="peg_parser/tokenize.py")
        return True
    if verdict == "sat":
        rp = replay(w) if replay else None
        rep.fail(oid, kind, desc, "rx-z3", f"refuted; witness string: {w!r}", witness=w, replay=rp, seconds=dt, function="peg_parser/tokenize.py")
        return False
    rep.undecided(oid, kind, desc, "rx-z3", str(w), seconds=dt)
    return None


def token_replay(w):
    """replay a lexeme witness on the real tokenizer and on CPython's"""
    src = w + "\n"
    a = oracle.run("tokens", [{"src": src}])[0]
    b = oracle.run("pytokens", [{"src": src}])[0]
    A = [(t[0], t[1]) for t in a.get("tokens", []) if t[0] not in ("NL", "COMMENT", "WS")] if a.get("ok") else a.get("exc")
    B = [(t[0], t[1]) for t in b.get("tokens", []) if t[0] not in ("NL", "COMMENT", "ENCODING")] if b.get("ok") else b.get("exc")
    return {"reproduced": A != B, "input": src, "ours": A, "cpython": B}


def rx_obligations(rep: Report, prop="C09"):
    d = rxload.patterns()
    o, r = d["ours"], d["ref"]
    for name in ("Number", "Name", "Comment"):
        if o[name] == r[name]:
            rep.ok(f"{prop}.rx.{name}.identical", "lemma", f"pattern {name} is textually the reference pattern of the running CPython's tokenize "
                   f"(same match relation, priorities included)", "syntactic", function="peg_parser/tokenize.py")
        else:
            decide(rep, f"{prop}.rx.{name}.language", f"L({name}) == L(tokenize.{name})", lambda n=name: rx.equal(rx.tr(o[n]), rx.tr(r[n])), prop,
                   replay=token_replay)
    decide(rep, f"{prop}.rx.Whitespace", "L(Whitespace) == L(tokenize.Whitespace) minus the empty string",
           lambda: rx.equal(rx.tr(o["Whitespace"]), rx.z3.Intersect(rx.tr(r["Whitespace"]), rx.z3.Plus(rx.anychar()))), prop)
    for q, rn in (("'", "Single"), ('"', "Double"), ("'''", "Single3"), ('"""', "Double3")):
        decide(rep, f"{prop}.rx.endpat.{rn}", f"string-end pattern for {q} == tokenize.{rn} (look-ahead atoms opaque)",
               lambda q=q, rn=rn: rx.equal(rx.Translator("opaque").tr(d["endpats"][q]), rx.Translator("opaque").tr(r[rn])), prop)
    # operators
    ours, ref = set(d["ops"]), set(d["ref_ops"])
    extra, missing = ours - ref, ref - ours
    if extra == XONSH_OPS and not missing:
        rep.ok(f"{prop}.ops.set", "structural", f"OPS = CPython's EXACT_TOKEN_TYPES + exactly the documented xonsh operators {sorted(XONSH_OPS)}", "syntactic",
               function="peg_parser/tokenize.py")
    else:
        w = sorted(extra ^ XONSH_OPS | missing)
        rep.fail(f"{prop}.ops.set", "structural", "OPS = CPython's EXACT_TOKEN_TYPES + exactly the documented xonsh operators", "syntactic",
                 f"unexpected extra: {sorted(extra - XONSH_OPS)}, xonsh ops missing: {sorted(XONSH_OPS - extra)}, Python ops missing: {sorted(missing)}",
                 witness=w, replay=token_replay("a " + (w[0] if w else "") + " b"))
    decide(rep, f"{prop}.rx.Special.language", "L(Special) == the set OPS", lambda: rx.equal(rx.tr(o["Special"]),
           rx.z3.Union(*[rx.z3.Re(x) for x in sorted(ours)])), prop, replay=token_replay)
    # longest-operator-first: order of the literal alternatives in the real pattern
    alts = []
    try:
        p = rx.sre_parse.parse(o["Special"])
        items = list(p)
        node = items[0]
        while node[0] is rx.sre_c.SUBPATTERN:
            node = list(node[1][3])[0]
        if node[0] is rx.sre_c.BRANCH:
            for a in node[1][1]:
                alts.append("".join(chr(av) for op, av in a if op is rx.sre_c.LITERAL))
        bad = [(a, b) for i, a in enumerate(alts) for b in alts[i + 1:] if b.startswith(a) and b != a]
        if bad:
            rep.fail(f"{prop}.ops.order", "structural", "every operator precedes its proper prefixes in the Special alternation (longest match)", "syntactic",
                     f"{bad[0][0]!r} is tried before {bad[0][1]!r}", witness=bad[:5], replay=token_replay("a " + bad[0][1] + " b"))
        else:
            rep.ok(f"{prop}.ops.order", "structural", f"every operator precedes its proper prefixes in the Special alternation ({len(alts)} alternatives)",
                   "syntactic", function="peg_parser/tokenize.py")
    except Exception as e:
        rep.undecided(f"{prop}.ops.order", "structural", "operator ordering", "syntactic", repr(e))
    # prefixes
    pex, pmiss = set(d["prefixes"]) - set(d["ref_prefixes"]), set(d["ref_prefixes"]) - set(d["prefixes"])
    if all("p" in x.lower() for x in pex) and not pmiss:
        rep.ok(f"{prop}.prefixes", "structural", f"string prefixes = CPython's + {len(pex)} extra ones that all contain p/P", "syntactic", function="peg_parser/tokenize.py")
    else:
        rep.fail(f"{prop}.prefixes", "structural", "string prefixes = CPython's + extra ones that all contain p/P", "syntactic",
                 f"extra without p: {sorted(x for x in pex if 'p' not in x.lower())}; missing: {sorted(pmiss)}", witness=sorted(pmiss) or sorted(pex),
                 replay=token_replay((sorted(pmiss) or sorted(x for x in pex if 'p' not in x.lower()) or ["?"])[0] + "'a'"))
    # PseudoToken structure
    try:
        tops = rx.top_alternatives(o["PseudoToken"])
    except Exception as e:
        rep.undecided(f"{prop}.pseudo.structure", "structural", "parse PseudoToken", "syntactic", repr(e))
        return
    names = [n for n, _i, _ok in tops]
    if names == PSEUDO_ORDER and all(ok for _n, _i, ok in tops):
        rep.ok(f"{prop}.pseudo.structure", "structural", f"PseudoToken is an alternation of the named groups {names}, each spanning its alternative "
               "(so m.span(m.lastgroup) == m.span())", "syntactic", function="peg_parser/tokenize.py")
    else:
        rep.fail(f"{prop}.pseudo.structure", "structural", f"PseudoToken is the alternation of named groups {PSEUDO_ORDER} in this order", "syntactic",
                 f"found {names}", witness=names, replay=token_replay("x = 1.5 + .5 ; y = 1if 0 else 2"))
    regs = {n: rx.Translator("drop").seq(i) for n, i, _ok in tops if n}
    for n, re_ in regs.items():
        if n == "End":
            continue
        decide(rep, f"{prop}.pseudo.epsfree.{n}", f"alternative {n} of PseudoToken does not match the empty string (scan loop progress)",
               lambda re_=re_: rx.eps_free(re_), prop)
    # alternatives that come earlier than in CPython's PseudoToken must not be able to start where a later class starts
    pairs = [("Comment", "Number"), ("Comment", "Special"), ("Comment", "Name"), ("StringStart", "Number"), ("StringStart", "Special"),
             ("Special", "Name"), ("NL", "Number"), ("NL", "Name"), ("ws", "Name")]
    for a, b in pairs:
        if a in regs and b in regs:
            decide(rep, f"{prop}.pseudo.firstchar.{a}.{b}", f"no character starts both a {a} and a {b} lexeme (their relative order cannot matter)",
                   lambda a=a, b=b: rx.first_chars_disjoint(regs[a], regs[b]), prop)
    if "SearchPath" in regs:
        if prop != "C09":
            decide(rep, f"{prop}.rx.SearchPath.spec", "L(SearchPath) == documented form: optional [rgpf]+ or @name prefix, backtick, body without unescaped backtick/newline, backtick",
                   lambda: rx.equal(rx.tr(o["SearchPath"]), rx.tr(SEARCH_PATH_SPEC)), prop,
                   replay=lambda w: {"reproduced": None, "input": w})
        decide(rep, f"{prop}.rx.SearchPath.backtick", "every SEARCH_PATH lexeme contains a backtick (never steals Python text)",
               lambda: rx.subset(regs["SearchPath"], rx.z3.Concat(rx.z3.Full(rx.R), rx.z3.Re("`"), rx.z3.Full(rx.R))), prop)
    if d.get("tabsize") == 8:
        rep.ok(f"{prop}.tabsize", "structural", "tab stops are 8 columns (language reference 2.1.8)", "syntactic", function="peg_parser/tokenize.py")
    else:
        rep.fail(f"{prop}.tabsize", "structural", "tab stops are 8 columns (language reference 2.1.8)", "syntactic", f"tabsize = {d.get('tabsize')}",
                 witness=d.get("tabsize"), replay=token_replay("if a:\n\tb\n        c"))


NUMS = ["0", "1", "007j", "0_0", "1_000", "0x_Ff", "0b1_0", "0o17", "1.", ".5", "1e5", "1E-3", "1_0.0_1e+1_0j", "0J", "1.5J", "09.5", "0e0", "1__0", "0777", "1.real"]
STRS = [p + q + "a" + q for p in ["", "r", "b", "Rb", "u", "bR", "BR"] for q in ["'", '"', "'''", '"""']] + ["'\\''", '"\\\\"', "'''a\nb'''", "'a\\\nb'"]
OPRUNS = ["+", "**=", "->", ":=", "...", "<<=", "!=", "//", "@", "~", "==", "<>", "=<", ">>>", "**-", "..", "....", "-->"]
NAMES = ["a", "_", "if", "match", "é", "a1", "None", "print"]
LAYOUTS = ["{0}\n", "{0}", "  {0}\n" if False else "if x:\n  {0}\n", "if x:\n\t{0}\n  \ty\n" if False else "if x:\n\t{0}\n", "({0}\n)\n", "{0} # c\n", "{0}\r\n",
           "x = \\\n  {0}\n", "\f{0}\n", "if x:\n    {0}\n  # c\n\n    y\nz\n", "x\n \f{0}\n", "if x:\n    y\n    \f    {0}\n",
           "if x:\n\ty\n \t{0}\n", "if x:\n        y\n\t{0}\n"]


def in_domain(ref_tokens) -> bool:
    import ast
    # oracle defect (CPython 3.12.1 `tokenize`): for a token that spans lines, the END column on its last line is reduced by the number
    # of extra UTF-8 bytes of non-ASCII text on its FIRST line ("\u00e9 \'\'\'a\\nb\'\'\'" ends at (2, 3), with "e" at (2, 4)).  Such inputs
    # cannot be judged against it.
    if any(t[2][0] != t[3][0] for t in ref_tokens) and any(not str(t[1]).isascii() for t in ref_tokens):
        return False
    for t in ref_tokens:
        if t[0] == "NUMBER":
            try:
                ast.literal_eval(t[1])
            except Exception:
                return False
        if t[0] == "OP" and t[1] == "<>":
            return False
        if t[0] == "ERRORTOKEN":
            return False
    return True


def standin(rep: Report, prop="C09"):
    t0 = time.time()
    atoms = NUMS + STRS + OPRUNS + NAMES
    k = 2
    lines = [a for a in atoms]
    lines += [f"{a} {b}" for a, b in itertools.product(atoms, repeat=2)] if rep.tier == "thorough" else \
             [f"{a} {b}" for a, b in itertools.product(NUMS[:10] + OPRUNS[:8] + NAMES[:4] + STRS[:6], repeat=2)]
    lines += [f"{a}{b}" for a, b in itertools.product(NUMS + NAMES[:3], OPRUNS[:10] + NAMES[:3] + NUMS[:6])]
    srcs = []
    for i, ln in enumerate(lines):
        lay = LAYOUTS if (rep.tier == "thorough" or i % 7 == 0) else LAYOUTS[:2]
        if "\n" in ln:
            lay = LAYOUTS[:2]
        for L in lay:
            srcs.append(L.format(ln))
    srcs += [s for s in pool.PY_STMTS if "f'" not in s and 'f"' not in s]
    srcs += ["if a:\n  b\n c\n", "if a:\n\tb\n        c\n", "if a:\n        b\n\tc\n", "  x\n", "x\n  y\n", "if a:\n  b\n   c\n  d\n", "a\n\n\n", "", "\n", "# c", "x = 1 \\\n", "'''a", "(\n"]
    # strings continued with a backslash at the end of the physical line, under both newline conventions, at several nesting depths;
    # inputs that end without a newline after a comment / inside indentation / after a multi-line string
    for nl in ("\n", "\r\n"):
        for q in ("'", '"'):
            for pre in ("", "b", "r"):
                srcs.append(f"x = {pre}{q}some line \\{nl}more{q}{nl}")
                srcs.append(f"def f():{nl}    y = {pre}{q}a\\{nl}b\\{nl}c{q}{nl}    return y{nl}z = 1{nl}")
                srcs.append(f"v = [{pre}{q}one\\{nl}two{q}, 2]{nl}")
        srcs.append(f"if x:{nl}    y = (1 + \\{nl}2){nl}z{nl}")
    srcs += ["x = '''\n#'''", "x = '''\n#'''\n", "x = 1\n# c", "x = 1\n    # c", "if a:\n  b\n# c", "x = [1,\n#c\n2]", "x = 1 # c", "if a:\n  b # c", "x\n  ", "if a:\n  b\n  ", "x\n\t"]
    # operators INSIDE brackets inside a replacement field are ordinary operators (only at the field's top level do `:` `!` `=` end the expression);
    # f-string forms with recorded C10 findings (doubled braces, `=` debug, escapes) are left to C10
    try:
        ref_ops = sorted(rxload.patterns()["ref_ops"])
    except RuntimeError:
        ref_ops = [":=", "->", "**=", "//=", ">>=", "<<=", "!=", "==", "<=", ">=", ":", "=", "!", "@", "|"]
    for op in ref_ops:
        if any(c in op for c in "()[]{}'\"") or op in ("\\", "#"):
            continue
        for o, c in (("(", ")"), ("[", "]")):
            srcs.append(f'f"{{{o}a {op} b{c}}}"\n')
            srcs.append(f"x = f'v={{f({o}a{op}b{c}, c)!r:>10}} end'\n")
    srcs += ['f"{(y:=1)}"\n', 'f"{[n:=5, n**2]}"\n', 'print(f"{(n := len(items))} items, twice is {2 * n}")\n', "f'{d[a:b]}'\n", "f'{d[a:b]:>{w}}'\n",
             "f'{(lambda x: x)(1)}'\n", "f'{a if (b:=c) else d!s}'\n", 'def g(xs):\n    return f"{ {k: (v:=k * 2) for k in xs} }"\nz = 1\n']
    srcs = list(dict.fromkeys(srcs))
    a = oracle.run("tokens", [{"src": s} for s in srcs])
    b = oracle.run("pytokens", [{"src": s} for s in srcs])
    si = StandIn("token-stream-vs-tokenize", f"{len(srcs)} sources: products of <= {k} lexeme atoms ({len(atoms)} atoms: numbers, prefix x quote strings, operator runs, names) x "
                 f"{len(LAYOUTS)} layouts (indent by spaces/tabs, brackets, comment, CRLF, continuation, form feed), compared with tokenize.generate_tokens")
    for s, x, y in zip(srcs, a, b):
        si.evaluations += 1
        if not y.get("ok"):
            continue            # outside the domain: CPython's tokenizer rejects
        if not in_domain(y["tokens"]):
            continue            # CPython's tokenize module is lenient here but the text is not Python (leading-zero integers, `<>`)
        si.distinct_nontrivial += 1
        if not x.get("ok"):
            si.failures.append({"input": s, "site": "tokens-raise", "what": f"CPython tokenizes, ours raises {x['exc']['cls']}: {x['exc']['msg'][:80]}", "observed": x["exc"]})
            continue
        X = [(t[0], t[1], tuple(t[2]), tuple(t[3])) for t in x["tokens"] if t[0] not in ("NL", "COMMENT", "WS")]
        Y = [(t[0], t[1], tuple(t[2]), tuple(t[3])) for t in y["tokens"] if t[0] not in ("NL", "COMMENT", "ENCODING")]
        if X != Y:
            i = next((i for i, (p, q) in enumerate(zip(X, Y)) if p != q), min(len(X), len(Y)))
            si.failures.append({"input": s, "site": "tokens-differ", "what": f"token #{i}: ours {X[i] if i < len(X) else None} vs CPython {Y[i] if i < len(Y) else None}",
                                "observed": {"ours": X[max(0, i - 1):i + 2], "cpython": Y[max(0, i - 1):i + 2]}})
    si.samples = srcs[:3]
    si.seconds = time.time() - t0
    rep.standins.append(si)


def run(rep: Report):
    rep.trust("re._parser (the re module's own pattern parser)", "z3 regular-expression solver", "engine/rx.py translator (~250 lines)",
              "stdlib tokenize of the running CPython as lexeme reference")
    rep.assume("alphabet quotient: \\w = ASCII word characters + U+00C0..U+024F as representative non-ASCII word range",
               "assumed contract of re.Pattern.match: match text is in the language of the pattern; leftmost-alternative / greedy priorities are NOT "
               "axiomatised: where a pattern is not textually the reference, only its language is compared",
               "A7: the stdlib reference patterns describe what the C tokenizer does on accepted input",
               "that no two adjacent Python operator tokens spell a xonsh operator in valid Python (except the documented '@(') is argued, not proved")
    rx_obligations(rep)
    from checks import e1common
    e1common.file_into(rep, "C09", rep.tier)
    standin(rep)
