"""C12 -- file and string entry points agree.

Proved: (frames) parse_file and parse_string build the same pipeline -- generate_tokens(readline) -> Tokenizer -> parser ->
parse(start rule) -- and differ only in where the lines come from and in `path` / `filename` (structural comparison of the
two real function bodies); every open() on the parse path passes an explicit encoding (ambient-read obligation), so decoded
lines do not depend on the locale; Tokenizer.get_lines (E1, both modes) never raises, returns the cached text or '' in string
mode; Tokenizer.peek (E1) caches lines before blank filtering.
Assumed: open()'s universal-newline translation vs StringIO (CR-only line ends differ), that equal line sequences give equal
token streams (the tokenizer reads nothing but readline: C13 frames).
Bounded: child interpreters under {UTF-8, C/ASCII (UTF-8 mode off), UTF-8 mode on} x contents {LF, CRLF, no final newline} x
{ASCII, non-ASCII} x {valid, invalid}.
"""
from __future__ import annotations

import ast
import json
import os
import subprocess
import time

from checks import e1common, pool
from checks.common import REPO, VENV_PY, VERIF, Report, StandIn


def entry_point_obligations(rep: Report):
    rel = "peg_parser/subheader.py"
    tree = ast.parse(open(os.path.join(REPO, rel), encoding="utf-8").read())
    fns = {}
    for c in ast.walk(tree):
        if isinstance(c, ast.ClassDef) and c.name == "Parser":
            for m in c.body:
                if isinstance(m, ast.FunctionDef) and m.name in ("parse_file", "parse_string"):
                    fns[m.name] = m
    if set(fns) != {"parse_file", "parse_string"}:
        rep.undecided("C12.entry.shape", "frame", "locate parse_file / parse_string", "frames", f"found {sorted(fns)}")
        return

    def pipeline(fn):
        """calls in source order, with keyword names; the line source and path/filename are abstracted"""
        out = []
        for n in ast.walk(fn):
            if isinstance(n, ast.Call):
                f = n.func
                name = f.id if isinstance(f, ast.Name) else (f.attr if isinstance(f, ast.Attribute) else "?")
                if name in ("generate_tokens", "Tokenizer", "cls", "parse"):
                    kws = sorted(k.arg for k in n.keywords if k.arg not in ("path", "filename"))
                    kwv = {k.arg: ast.unparse(k.value) for k in n.keywords if k.arg not in ("path", "filename")}
                    out.append((n.lineno, name, len(n.args), tuple(kws), tuple(sorted(kwv.items()))))
        return [x[1:] for x in sorted(out)]
    pf, ps = pipeline(fns["parse_file"]), pipeline(fns["parse_string"])
    same = [(a[0], a[1], a[2], a[3]) for a in pf] == [(a[0], a[1], a[2], a[3]) for a in ps]
    desc = ("parse_file and parse_string run the same pipeline generate_tokens -> Tokenizer -> cls(...) -> parse with the same options "
            "(verbose, py_version) and differ only in the line source and in path/filename")
    if same:
        rep.ok("C12.entry.pipeline", "frame", desc, "frames", function=f"{rel}:Parser.parse_file")
    else:
        rep.fail("C12.entry.pipeline", "frame", desc, "frames", f"parse_file: {pf}; parse_string: {ps}", witness={"parse_file": pf, "parse_string": ps},
                 function=f"{rel}:Parser.parse_file")
    # the rule parsed: "file" in parse_file; in parse_string `mode if mode == "eval" else "file"`
    pfr = [ast.unparse(n.args[0]) for n in ast.walk(fns["parse_file"]) if isinstance(n, ast.Call) and isinstance(n.func, ast.Attribute) and n.func.attr == "parse"]
    psr = [ast.unparse(n.args[0]) for n in ast.walk(fns["parse_string"]) if isinstance(n, ast.Call) and isinstance(n.func, ast.Attribute) and n.func.attr == "parse"]
    ok = pfr == ["'file'"] and psr in (["mode if mode == 'eval' else 'file'"],)
    if ok:
        rep.ok("C12.entry.rule", "frame", "both entry points parse the start rule `file` for module input (parse_string: unless mode == 'eval')", "frames", function=f"{rel}:Parser.parse_string")
    else:
        rep.fail("C12.entry.rule", "frame", "both entry points parse the start rule `file` for module input", "frames", f"parse_file: {pfr}; parse_string: {psr}",
                 witness={"parse_file": pfr, "parse_string": psr})
    # the line source of parse_file: a text-mode open of `path` with encoding='utf-8' and default newline handling -- the builtin open(), io.open()
    # or Path.open() -- read through readline.  tokenize.open / codecs.open / a newline= or errors= option / reading bytes make the decoded lines
    # depend on the file's own content (BOM, coding cookie) or on options parse_string has no counterpart for.
    def utf8_text_open(ce):
        if not isinstance(ce, ast.Call):
            return False
        f = ce.func
        if isinstance(f, ast.Name):
            callee_ok, npos = f.id == "open", (1, 2)
        elif isinstance(f, ast.Attribute) and f.attr == "open":
            base = ast.unparse(f.value)
            callee_ok, npos = base.split(".")[0] not in ("tokenize", "py_tokenize", "codecs", "gzip", "bz2", "lzma", "os"), ((1, 2) if base == "io" else (0, 1))
        else:
            return False
        kws = {k.arg: k.value for k in ce.keywords}
        mode = kws.get("mode") or (ce.args[npos[1] - 1] if len(ce.args) == npos[1] else None)
        return (callee_ok and npos[0] <= len(ce.args) <= npos[1] and set(kws) <= {"encoding", "mode"} and isinstance(kws.get("encoding"), ast.Constant)
                and str(kws["encoding"].value).lower().replace("-", "").replace("_", "") == "utf8"
                and (mode is None or (isinstance(mode, ast.Constant) and mode.value in ("r", "rt"))))
    withs = [n for n in ast.walk(fns["parse_file"]) if isinstance(n, ast.With)]
    src_ok, why = False, "no `with <open(...)> as f` in parse_file"
    if len(withs) == 1 and len(withs[0].items) == 1:
        ce, var = withs[0].items[0].context_expr, withs[0].items[0].optional_vars
        src_ok = utf8_text_open(ce) and isinstance(var, ast.Name) and "path" in ast.unparse(ce)
        why = f"`{ast.unparse(ce)}`"
        if src_ok:
            gts = [n for n in ast.walk(withs[0]) if isinstance(n, ast.Call) and (getattr(n.func, "id", None) or getattr(n.func, "attr", None)) == "generate_tokens"]
            src_ok = len(gts) == 1 and len(gts[0].args) == 1 and ast.unparse(gts[0].args[0]) == f"{var.id}.readline"
            why = f"generate_tokens is fed `{ast.unparse(gts[0].args[0]) if gts and gts[0].args else '?'}`, expected `{var.id}.readline`"
    dsc = ("parse_file reads its lines through readline from a text-mode open of the path with encoding='utf-8' and default newline handling: the decoded text "
           "depends neither on the locale nor on a BOM / coding cookie in the file")
    if src_ok:
        rep.ok("C12.entry.linesource", "frame", dsc, "frames", function=f"{rel}:Parser.parse_file")
    else:
        rep.fail("C12.entry.linesource", "frame", dsc, "frames", why, witness={"found": why}, function=f"{rel}:Parser.parse_file")
    # no other file access on the parse path (whole-file reads, byte reads, encoding detection, opens that are not UTF-8 text opens)
    for r2 in ("peg_parser/subheader.py", "peg_parser/tokenizer.py", "peg_parser/tokenize.py"):
        t = ast.parse(open(os.path.join(REPO, r2), encoding="utf-8").read())
        bad = [f"{ast.unparse(n)[:80]} (line {n.lineno})" for n in ast.walk(t) if isinstance(n, ast.Call) and isinstance(n.func, ast.Attribute)
               and (n.func.attr in ("read_bytes", "fdopen", "detect_encoding") or (n.func.attr == "open" and not utf8_text_open(n))
                    or (n.func.attr == "read_text" and not any(k.arg == "encoding" and isinstance(k.value, ast.Constant)
                                                                and str(k.value.value).lower().replace("-", "") == "utf8" for k in n.keywords)))]
        oid = f"C12.ambient.{os.path.basename(r2)}.other_file_access"
        dsc = f"{r2}: files are read only as UTF-8 text (no byte reads, no encoding detection, no attribute-style open without encoding='utf-8')"
        if bad:
            rep.fail(oid, "ambient", dsc, "frames", "; ".join(bad[:3]), witness=bad[:5], function=f"{r2}:<module>")
        else:
            rep.ok(oid, "ambient", dsc, "frames", function=f"{r2}:<module>")
    # ambient reads: every open() passes an explicit encoding
    for r2 in ("peg_parser/subheader.py", "peg_parser/tokenizer.py", "peg_parser/tokenize.py"):
        t = ast.parse(open(os.path.join(REPO, r2), encoding="utf-8").read())
        k = 0
        for fn in ast.walk(t):
            if not isinstance(fn, ast.FunctionDef):
                continue
            for n in ast.walk(fn):
                if isinstance(n, ast.Call) and isinstance(n.func, ast.Name) and n.func.id == "open":
                    k += 1
                    enc = [kw for kw in n.keywords if kw.arg == "encoding"]
                    oid = f"C12.ambient.{os.path.basename(r2)}.{fn.name}.{k}"
                    desc = f"{r2}:{fn.name}: open() passes an explicit UTF-8 encoding (the decoded text must not depend on the locale)"
                    if enc and isinstance(enc[0].value, ast.Constant) and str(enc[0].value.value).lower().replace("-", "") in ("utf8",):
                        rep.ok(oid, "ambient", desc, "frames", function=f"{r2}:{fn.name}")
                    else:
                        rep.fail(oid, "ambient", desc, "frames", f"`{ast.unparse(n)}` at line {n.lineno}", witness={"file": r2, "line": n.lineno, "call": ast.unparse(n)},
                                 function=f"{r2}:{fn.name}")


ENVS = [
    ("utf8-locale", {"LC_ALL": "C.UTF-8", "PYTHONUTF8": "0"}),
    ("c-ascii", {"LC_ALL": "C", "PYTHONUTF8": "0", "PYTHONCOERCECLOCALE": "0"}),
    ("utf8-mode", {"LC_ALL": "C", "PYTHONUTF8": "1"}),
]


def standin(rep: Report):
    t0 = time.time()
    base = pool.PY_STMTS[:40] + pool.XSH_STMTS[:15] + ["x = 'é'\n", "é = 1\n", "# ü comment\nx = 1\n", "x = 'ü' +\n", "def f(:\n  'é'\n", "x y z\n", "@a\n", "(a\n\nb c)\n",
                                                       "x = (1,\n# c\n 2 3)\n", "if a:\n  b\n c\n", "f!(a,,b)\n", "x = $(ls é)\n", "s = '''a\nb''' c\n", "x = 1 # a\x0cb\ny = (a 1)\n",
                                                       "s = 'a\u2028b'\ny = (a 1)\n", "\x0c\nx = 1\ny = (a 1)\n",
                                                       # raw-capture constructs (they read the line source on their own) followed by an error on another line
                                                       "echo!(hello world)\ny = = 1\n", "def g():\n    log!(a b)\n    return (1 2)\n", "f!(a,\n b\n ,c) = 1\n",
                                                       "with! ctx:\n    body here\ny = (1 2)\n", "with! ctx: one line\nz = = 2\n", "$(echo! a  b)\nq = (3 4)\n",
                                                       "x = f'{a}' \\\n  'b'\ny = (5 6)\n",
                                                       # contents that carry their own encoding declaration: both entry points read them as the UTF-8 text they are
                                                       "\ufeffx = 1\n", "\ufeffx = (1 2)\n", "# -*- coding: latin-1 -*-\ns = 'é'\nprint(s)\n", "# vim: set fileencoding=cp1252 :\nn = 'Zoë'; m = n\n",
                                                       "#!/usr/bin/env xonsh\n# coding: ascii\nx = 'ü'\n", "# coding: nonsense\nx = 1\n", "# coding: latin-1\n'é' = 1\n",
                                                       "# -*- coding: utf-8 -*-\nx = 'é'\n"]
    contents = []
    for s in base:
        contents.append(s)
        contents.append(s.replace("\n", "\r\n"))
        contents.append(s.rstrip("\n"))
    contents = list(dict.fromkeys(contents))
    si = StandIn("file-vs-string", f"{len(contents)} file contents (ASCII / non-ASCII, LF / CRLF / no final newline, valid / invalid) x {len(ENVS)} process environments "
                 f"({', '.join(n for n, _ in ENVS)}); outcome of parse_file == outcome of parse_string(decoded content)")
    ref = None
    for name, env in ENVS:
        e = dict(os.environ)
        e.update(env)
        e["PYTHONPATH"] = REPO
        p = subprocess.run([VENV_PY, os.path.join(VERIF, "harness", "file_vs_string.py")], input=json.dumps(contents), capture_output=True, text=True, env=e, timeout=1800, cwd="/")
        if p.returncode != 0:
            rep.undecided(f"C12.standin.{name}", "bounded", f"run under {name}", "cpython-exec", p.stderr[-600:])
            continue
        d = json.loads([ln for ln in p.stdout.splitlines() if ln.startswith("{")][-1])
        for c, r in zip(contents, d["results"]):
            si.evaluations += 1
            si.distinct_nontrivial += 1
            a, b = r["file"], r["string"]
            if "\r" in c:
                # open() translates CRLF to LF, StringIO does not: documented assumption -> compare after translation of the string side is not
                # possible here; only the outcome class is compared for CR-bearing contents
                if bool(a.get("ok")) != bool(b.get("ok")):
                    si.failures.append({"input": c, "site": f"crlf:{name}", "what": f"[{name}, encoding {d['encoding']}] acceptance differs for CRLF content", "observed": {"file": a, "string": b}})
                continue
            if a != b:
                diff = [k for k in set(a) | set(b) if a.get(k) != b.get(k)]
                si.failures.append({"input": c, "site": f"differs:{name}", "what": f"[{name}, preferred encoding {d['encoding']}, utf8_mode {d['utf8_mode']}] parse_file and parse_string differ in {diff}: "
                                    f"file={ {k: a.get(k) for k in diff} } string={ {k: b.get(k) for k in diff} }"[:400], "observed": {"file": a, "string": b}})
        if name == ENVS[0][0]:
            # the same path re-written and parsed again in one process (an edited script): no outcome may depend on what the path held before
            inv = [c for c in contents if "\r" not in c][::2]
            p2 = subprocess.run([VENV_PY, os.path.join(VERIF, "harness", "file_vs_string.py")], input=json.dumps({"contents": inv, "same_path": True}), capture_output=True,
                                text=True, env=e, timeout=1800, cwd="/")
            if p2.returncode != 0:
                rep.undecided("C12.standin.same-path", "bounded", "re-parse one path with changing contents", "cpython-exec", p2.stderr[-600:])
            else:
                d3 = json.loads([ln for ln in p2.stdout.splitlines() if ln.startswith("{")][-1])
                for c, r in zip(inv, d3["results"]):
                    si.evaluations += 1
                    if r["file"] != r["string"]:
                        diff = [k for k in set(r["file"]) | set(r["string"]) if r["file"].get(k) != r["string"].get(k)]
                        si.failures.append({"input": c, "site": "differs:same-path", "what": f"after other contents were parsed from the same path, parse_file and parse_string differ in {diff}: "
                                            f"file={ {k: r['file'].get(k) for k in diff} } string={ {k: r['string'].get(k) for k in diff} }"[:400], "observed": r})
        if ref is None:
            ref = d["results"]
        elif [r["file"] for r in d["results"]] != [r["file"] for r in ref]:
            i = next(i for i, (x, y) in enumerate(zip(d["results"], ref)) if x["file"] != y["file"])
            si.failures.append({"input": contents[i], "site": f"env:{name}", "what": f"parse_file outcome under {name} differs from the outcome under {ENVS[0][0]}",
                                "observed": {"this": d["results"][i]["file"], "ref": ref[i]["file"]}})
    si.samples = contents[:3]
    si.seconds = time.time() - t0
    rep.standins.append(si)


def run(rep: Report):
    rep.trust("CPython ast", "z3 / cvc5", "engine/pyvc")
    rep.assume("open() universal-newline translation vs io.StringIO: CRLF stays in string mode and is translated in file mode (positions agree, `text` may differ in the "
               "line terminator); CR-only line ends differ",
               "equal line sequences give equal token streams: the tokenizer reads nothing but readline (C13 frame obligations)",
               "PEP 263 coding cookies and a BOM are outside the property (UTF-8 source)")
    e1common.file_into(rep, "C12", rep.tier)
    entry_point_obligations(rep)
    # the text of a file-mode error comes from Tokenizer.get_lines: it agrees with string mode only if the file is read as it is NOW (same obligation as C11's)
    from checks.c11 import lines_obligation
    lines_obligation(rep, "C12")
    standin(rep)
