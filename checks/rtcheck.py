"""Run-time cross-check of E1 contracts (bounded): the clause texts that the VC generator discharges are evaluated natively on the real
functions for random concrete arguments (harness/contract_runtime.py).  It validates the ENCODING (value model, identity, list abstractions,
spec functions): a clause that is proved but false at run time means an unsound engine or a mis-modelled construct."""
from __future__ import annotations

import json
import time

from checks.common import Report, StandIn, json_from, run_py


def crosscheck(rep: Report, names: list, n: int = None):
    from engine.contract import REGISTRY
    from engine.run_e1 import load_contracts
    load_contracts()
    t0 = time.time()
    cs = {}
    for full, c in REGISTRY.items():
        short = full.split(":")[1]
        if short in names and c.verify and "#" not in short:
            cs[short] = {"params": dict(c.params), "requires": list(c.requires), "requires_assumed": list(c.requires_assumed), "ensures": list(c.ensures),
                         "generator": bool(c.generator)}
    n = n or (150 if rep.tier == "quick" else 1500)
    rc, out, err = run_py("harness/contract_runtime.py", [], timeout=1800, stdin=json.dumps({"seed": rep.seed, "n": n, "contracts": cs}))
    si = StandIn("contract-runtime-crosscheck", f"the postconditions E1 discharges, evaluated natively on the real {len(cs)} functions for {n} random argument tuples each")
    if rc != 0:
        rep.undecided(f"{rep.prop}.standin.rtcheck", "bounded", "run the contract cross-check", "cpython-exec", err[-800:])
        return
    d = json_from(out)
    skipped = {}
    for fn, r in d["functions"].items():
        si.evaluations += r["clauses_checked"]
        si.distinct_nontrivial += r["calls"]
        if r["clauses_skipped"]:
            skipped[fn] = r["clauses_skipped"][:6]
        for f in r["failures"]:
            si.failures.append({"input": json.dumps(f["args"], default=str)[:400], "site": f"contract-runtime:{fn}",
                                "what": f"{fn}: `{f['clause'][:140]}` is FALSE at run time for the real function", "observed": f["observed"]})
    si.samples = [{k: {x: v[x] for x in ("calls", "clauses_checked", "raised", "rejected_by_requires")} for k, v in list(d["functions"].items())[:6]}]
    si.seconds = time.time() - t0
    rep.standins.append(si)
    rep.extra.setdefault("rtcheck", {})["clauses_not_evaluable_natively"] = skipped
