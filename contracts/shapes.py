"""Class shapes (type invariants of the objects that cross contracts, assumption A4) and spec functions."""
from __future__ import annotations

import z3

from engine.pyvals import NONE, PyObj, PyTuple, same_obj, Tok, TokSeq, Val, is_tok, truthy as z3_truthy
from engine.pyvc import Tr, lift

CLASSES = {
    "Tokenizer": {
        "_tokengen": "gen[Tok]", "_tokens": "seq[Tok]", "_index": "int", "_verbose": "bool", "_lines": "map", "_path": "str",
        "_stack": "seq[Tok]", "_call_macro": "bool", "_with_macro": "bool", "_proc_macro": "bool",
        "_end_parens": "initdict",      # constant dict literal, read from the real __init__
        "_not_body": "initset",         # constant set of Token members, read from the real __init__
        "_abs": "pabs",      # ghost: everything else a rule method may depend on (never read by the verified code)
        "__methods__": (),
    },
    "Parser": {
        "_tokenizer": "obj:Tokenizer", "_verbose": "bool", "_level": "int", "_cache": "cache", "in_recursive_rule": "int",
        "call_invalid_rules": "bool", "filename": "str", "py_version": "version",
        "__alias__": {"_mark": ["_tokenizer", "mark"], "_reset": ["_tokenizer", "reset"]},
        "__consts__": {"KEYWORDS": "KEYWORDS", "SOFT_KEYWORDS": "SOFT_KEYWORDS"},
    },
    # abstraction of the `end_progs` list: its length and its top frame (what `_tokenize`, `handle_end_progs` and the mode
    # predicates read); frames below the top are not modelled
    # mode_kind: 0 None / 1 ModeMiddle / 2 ModeInBraces / 3 ModeInColon;  (pat, patq): the frame's end pattern as (kind, quote), see engine/pymatch.py
    "EndProg": {"mode_kind": "int", "parenlevel": "int", "text": "str", "contline": "str", "start": "pos", "quote": "str", "pat": "int", "patq": "str",
                # frame invariant: the end pattern fits the mode and the quote.  Established at the add_prog call sites (precondition of
                # add_prog, proved there); frames are built only by add_prog and mode / pattern / quote are never written afterwards
                # (obligations C10.frames.only_add_prog, C10.frames.immutable)
                "__invariant__": ["0 <= self.mode_kind <= 3",
                                  "implies(self.mode_kind == 1, self.pat == 2 and self.patq == self.quote and len(self.quote) >= 1)",
                                  "implies(self.mode_kind == 3, self.pat == 3)",
                                  "implies(self.mode_kind == 0, self.pat == 1 and self.patq == self.quote and len(self.quote) >= 1)"]},
    "EPStack": {"n": "nat", "top": "obj:EndProg"},
    # an ast node as far as the error helpers look at it: the four position attributes (end_* may be None in general; the
    # grammar only passes nodes built with LOCATIONS, see C04)
    "PosNode": {"lineno": "int", "col_offset": "int", "end_lineno": "int", "end_col_offset": "int"},
    # the ast nodes the subprocess-argument builders distinguish (positions + what they read); `elts` is not modelled
    "ast.Constant": {"value": "str", "lineno": "int", "col_offset": "int", "end_lineno": "int", "end_col_offset": "int"},
    "ast.Starred": {"lineno": "int", "col_offset": "int", "end_lineno": "int", "end_col_offset": "int"},
    "ast.withitem": {"context_expr": "obj:PosNode"},
    # a call `a.b(x)` as the help builder makes and re-reads it (function = dotted name of two parts, one positional argument)
    "ast.Name": {"id": "str", "ctx": "const:Load", "lineno": "int", "col_offset": "int", "end_lineno": "int", "end_col_offset": "int"},
    "ast.Attribute#dotted": {"value": "obj:ast.Name", "attr": "str", "ctx": "const:Load", "lineno": "int", "col_offset": "int", "end_lineno": "int", "end_col_offset": "int"},
    "ast.Attribute#of": {"value": "obj:AnyNode", "attr": "str", "ctx": "const:Load", "lineno": "int", "col_offset": "int", "end_lineno": "int", "end_col_offset": "int"},
    "ast.Call#help": {"func": "obj:ast.Attribute#dotted", "args": "list1[union[obj:AnyNode|obj:ast.Attribute#of]]", "keywords": "list0", "starargs": "none", "kwargs": "none",
                      "lineno": "int", "col_offset": "int", "end_lineno": "int", "end_col_offset": "int"},
    "AnyNode": {},
    # an expression tree as the invalid-target search reads it: containers with their children (known by position only), a comparison with its first operator
    "ast.List#t": {"elts": "objseq[obj:PosNode]", "lineno": "int", "col_offset": "int", "end_lineno": "int", "end_col_offset": "int"},
    "ast.Tuple#t": {"elts": "objseq[obj:PosNode]", "lineno": "int", "col_offset": "int", "end_lineno": "int", "end_col_offset": "int"},
    "ast.Starred#t": {"value": "obj:PosNode", "lineno": "int", "col_offset": "int", "end_lineno": "int", "end_col_offset": "int"},
    "ast.Compare#t": {"ops": "list1[obj:CmpOp]", "left": "obj:PosNode", "lineno": "int", "col_offset": "int", "end_lineno": "int", "end_col_offset": "int"},
    "ast.Subscript#t": {"lineno": "int", "col_offset": "int", "end_lineno": "int", "end_col_offset": "int"},
    "ast.Attribute#t": {"lineno": "int", "col_offset": "int", "end_lineno": "int", "end_col_offset": "int"},
    "CmpOp": {"is:ast.In?": "bool"},
    # parts of an f-string as the escape decoder reads them: text Constants, fields whose format spec is again an f-string (its parts: a list handed on whole)
    "ast.Constant#sv": {"value": "str", "lineno": "int", "col_offset": "int", "end_lineno": "int", "end_col_offset": "int"},
    "ast.FormattedValue#fs": {"format_spec": "opt[obj:ast.JoinedStr#fs]", "lineno": "int", "col_offset": "int", "end_lineno": "int", "end_col_offset": "int"},
    "ast.JoinedStr#fs": {"values": "obj:OpaqueList"},
    "OpaqueList": {"id": "int"},
    "ast.arg": {"arg": "str", "lineno": "int", "col_offset": "int", "end_lineno": "int", "end_col_offset": "int"},
    # string builders: the two fields that carry a pending `p` prefix from handle_fstring to concatenate_strings
    "ast.JoinedStr": {"values": "abslist[obj:StrPart]", "lineno": "int", "col_offset": "int", "end_lineno": "int", "end_col_offset": "int"},
    "ast.Constant#lit": {"value": "lit", "kind?": "str", "lineno": "int", "col_offset": "int", "end_lineno": "int", "end_col_offset": "int"},
    "ast.Tuple": {"elts": "const:opaque-list", "lineno": "int", "col_offset": "int", "end_lineno": "int", "end_col_offset": "int"},
    "SyntaxError": {"msg": "str", "filename": "str", "lineno": "int", "offset": "int", "text": "str", "end_lineno": "int", "end_offset": "int",
                    "bare": "bool", "nargs": "int"},
    "TokenizerState": {
        "lnum": "int", "parenlev": "int", "continued": "bool", "indents": "seq[int]", "last_line": "str", "line": "str",
        "pos": "int", "max": "int", "end_progs": "obj:EPStack", "comment_lnum": "int",
        "__init__": {
            "lnum": lambda ex, st: z3.IntVal(0), "parenlev": lambda ex, st: z3.IntVal(0), "continued": lambda ex, st: z3.BoolVal(False),
            "indents": lambda ex, st: z3.Unit(z3.IntVal(0)), "last_line": lambda ex, st: z3.StringVal(""),
            "line": lambda ex, st: z3.StringVal(""), "pos": lambda ex, st: z3.IntVal(0), "max": lambda ex, st: z3.IntVal(0), "comment_lnum": lambda ex, st: z3.IntVal(0),
            "end_progs": lambda ex, st: PyObj("EPStack", {"n": z3.IntVal(0), "top": ex.mk("obj:EndProg", "top0", st)[0]}),
        },
    },
}


def _layout_types(ex):
    return [ex.token_enum[n] for n in ("ENDMARKER", "NEWLINE", "DEDENT", "INDENT")]


def sf_layout(ex, st, t):
    return z3.Or([Tok.type(t) == k for k in _layout_types(ex)])


def sf_cache_wf(ex, st, tk):
    f = tk.fields
    return z3.And(f["_index"] >= 0, f["_index"] <= z3.Length(f["_tokens"]))


def sf_truthy(ex, st, v):
    return Tr(v)


def sf_is_none(ex, st, v):
    from engine.pyvc import eq
    return eq(v, NONE)


def sf_pos_le(ex, st, a, b):
    from engine.pyvals import PyOpt
    from engine.pyvc import lex_lt
    a = a.some if isinstance(a, PyOpt) else a      # callers guard the None case (`implies(x is not None, ...)`)
    b = b.some if isinstance(b, PyOpt) else b
    return lex_lt(a, b, False)


def sf_endmarker_last(ex, st, tk):
    """ghost fact about the token generator (contract of _tokenize): the stream is non-empty, its last item is the only
    ENDMARKER"""
    g = tk.fields["_tokengen"]
    n = z3.Length(g.items)
    j = z3.Int("em!q")
    em = ex.token_enum["ENDMARKER"]
    return z3.And(n > 0, Tok.type(g.items[n - 1]) == em,
                  z3.ForAll([j], z3.Implies(z3.And(j >= 0, j < n - 1), Tok.type(g.items[j]) != em)))


def sf_gen_pos_of(ex, st, g):
    return g.pos


def sf_stream_ends_with_endmarker(ex, st, g):
    """contract of _tokenize, stated of a token generator value: non-empty, its last item is the only ENDMARKER"""
    n = z3.Length(g.items)
    j = z3.Int("em!q")
    em = ex.token_enum["ENDMARKER"]
    return z3.And(n > 0, Tok.type(g.items[n - 1]) == em, z3.ForAll([j], z3.Implies(z3.And(j >= 0, j < n - 1), Tok.type(g.items[j]) != em)))


def sf_endmarker_pulled(ex, st, tk):
    g = tk.fields["_tokengen"]
    return g.pos >= z3.Length(g.items)


def sf_gen_pos(ex, st, tk):
    return tk.fields["_tokengen"].pos


def sf_gen_len(ex, st, tk):
    return z3.Length(tk.fields["_tokengen"].items)


def sf_gen_item(ex, st, tk, j):
    return tk.fields["_tokengen"].items[lift(j)]


GCAT = z3.Function("gen_cat", TokSeq, z3.IntSort(), z3.IntSort(), z3.StringSort())


def sf_gen_cat(ex, st, tk, a, b):
    """concatenation of the `string` fields of the raw tokens number a .. b-1 of the stream, in order.  Uninterpreted function
    whose defining equations (empty range; last element split off) are instantiated at the term that occurs (one unfolding)."""
    g = tk.fields["_tokengen"].items
    a, b = lift(a), lift(b)
    c = GCAT(g, a, b)
    st.assume(z3.Implies(b <= a, c == z3.StringVal("")))
    st.assume(z3.Implies(b > a, c == z3.Concat(GCAT(g, a, b - 1), Tok.string(g[b - 1]))))
    st.assume(z3.Implies(b - 1 <= a, GCAT(g, a, b - 1) == z3.StringVal("")))
    return c


def sf_mode_kind_of(ex, st, m):
    """0 for None, 1 ModeMiddle, 2 ModeInBraces, 3 ModeInColon (a mode value or a mode class)"""
    from engine.pymatch import MODE_KINDS
    from engine.pyvals import PyConst
    if m is NONE:
        return z3.IntVal(0)
    if isinstance(m, PyConst) and m.name in MODE_KINDS:
        return z3.IntVal(MODE_KINDS[m.name])
    if isinstance(m, PyObj) and m.cls == "ModeView":
        return m.fields["kind"]
    raise ValueError("mode_kind_of")


def sf_mode_level_of(ex, st, m, default):
    if isinstance(m, PyObj) and m.cls == "ModeView":
        return m.fields["parenlevel"]
    return lift(default)


def sf_same_frame(ex, st, a, b):
    """two frames (EndProg abstractions) agree on every field"""
    from engine.pyvc import eq
    return z3.And([eq(a.fields[k], b.fields[k]) for k in sorted(a.fields)])


def sf_pat_kind(ex, st, p):
    from engine.pymatch import PyPattern
    return p.kind if isinstance(p, PyPattern) else z3.IntVal(0)


def sf_pat_q(ex, st, p):
    from engine.pymatch import PyPattern
    return p.q if isinstance(p, PyPattern) else z3.StringVal("")


GCNT = z3.Function("gen_count", TokSeq, z3.IntSort(), z3.IntSort(), z3.IntSort(), z3.IntSort())


def sf_gen_count(ex, st, tk, ty, a, b):
    """number of raw tokens of type `ty` among number a .. b-1 of the stream.  Uninterpreted, defining equations instantiated at the
    term that occurs (empty range; last element split off), like gen_cat."""
    g = tk.fields["_tokengen"].items
    ty, a, b = lift(ty), lift(a), lift(b)
    c = GCNT(g, ty, a, b)
    st.assume(z3.Implies(b <= a, c == 0))
    st.assume(z3.Implies(b > a, c == GCNT(g, ty, a, b - 1) + z3.If(Tok.type(g[b - 1]) == ty, 1, 0)))
    st.assume(z3.Implies(b - 1 <= a, GCNT(g, ty, a, b - 1) == 0))
    st.assume(c >= 0)
    return c


LFOLD = z3.Function("literal_fold", TokSeq, z3.IntSort(), Val)


def sf_le_isbytes(ex, st, text):
    from engine.pyvals import LE_BYTES
    return LE_BYTES(lift(text))


def sf_le_val(ex, st, text):
    """the value ast.literal_eval gives the literal text (uninterpreted)"""
    from engine.pyvals import LE_VAL
    return LE_VAL(lift(text))


def sf_le_numkind(ex, st, text):
    """0: the literal text denotes a str / bytes value, 1: an int / float, 2: a complex (uninterpreted per text)"""
    from engine.pyvals import LE_NUMKIND
    return LE_NUMKIND(lift(text))


def sf_lit_numkind(ex, st, v):
    return v.numkind


def sf_lit_isbytes(ex, st, v):
    return v.isbytes


def sf_lit_val(ex, st, v):
    return v.val


def sf_lit_fold(ex, st, parts, n):
    """value of literal_eval(parts[0]) + ... + literal_eval(parts[n-1]), left to right (defining equations instantiated at use)"""
    from engine.pyvals import LCAT, LE_VAL
    n = lift(n)
    c = LFOLD(parts, n)
    st.assume(z3.Implies(n == 1, c == LE_VAL(Tok.string(parts[0]))))
    st.assume(z3.Implies(n > 1, c == LCAT(LFOLD(parts, n - 1), LE_VAL(Tok.string(parts[n - 1])))))
    st.assume(z3.Implies(n - 1 == 1, LFOLD(parts, n - 1) == LE_VAL(Tok.string(parts[0]))))
    return c


def sf_has_field(ex, st, o, name):
    nm = z3.simplify(lift(name)).as_string()
    if isinstance(o, PyObj) and ("?" + nm) in o.fields:
        return o.fields["?" + nm]          # an object known by its shape only: whether it has the attribute is a ghost of the shape
    return z3.BoolVal(isinstance(o, PyObj) and nm in o.fields)


def _tree_match(node, val, holes):
    """z3 Bool: the Python-side tree `val` (PyObj nodes built by the code) is the ast `node` (CPython's parse of the documented
    translation); names H<k> stand for the k-th hole object (identity), S<k> for a string Constant whose value is the k-th hole"""
    import ast as _ast
    from engine.pyvals import PyConst, PyList
    from engine.pyvc import eq
    if isinstance(node, _ast.Name) and len(node.id) >= 2 and node.id[0] in "HS" and node.id[1:].isdigit():
        h = holes[int(node.id[1:])]
        if node.id[0] == "H":
            return eq(val, h)
        return z3.And(z3.BoolVal(isinstance(val, PyObj) and val.cls == "ast.Constant"), eq(val.fields.get("value"), h)) \
            if isinstance(val, PyObj) and "value" in val.fields else z3.BoolVal(False)
    if not (isinstance(val, PyObj) and val.cls == "ast." + type(node).__name__):
        return z3.BoolVal(False)
    conj = []
    for f in node._fields:
        want = getattr(node, f, None)
        got = val.fields.get(f, NONE)
        if isinstance(want, _ast.expr_context):
            conj.append(z3.BoolVal(isinstance(got, PyConst) and got.name == type(want).__name__))
        elif isinstance(want, _ast.AST):
            conj.append(_tree_match(want, got, holes))
        elif isinstance(want, list) and len(want) == 1 and isinstance(want[0], _ast.Starred) and isinstance(want[0].value, _ast.Name) and want[0].value.id == "_":
            pass          # `*_`: a list the contract describes element-wise in a separate clause
        elif (isinstance(want, list) and len(want) == 1 and isinstance(want[0], _ast.Starred) and isinstance(want[0].value, _ast.Name)
              and want[0].value.id[0] == "A" and want[0].value.id[1:].isdigit()):
            # `*A<k>`: the whole list IS the k-th hole (a sequence of unknown length)
            h = holes[int(want[0].value.id[1:])]
            conj.append(eq(got, h) if (z3.is_expr(got) and z3.is_expr(h)) or (isinstance(got, PyObj) and isinstance(h, PyObj)) else z3.BoolVal(got is h))
        elif isinstance(want, list):
            items = got.items if isinstance(got, (PyList, PyTuple)) else ([] if got is NONE else None)
            if items is None or len(items) != len(want):
                return z3.BoolVal(False)
            conj.extend(_tree_match(w, g, holes) if isinstance(w, _ast.AST) else eq(g, z3.StringVal(w) if isinstance(w, str) else w) for w, g in zip(want, items))
        elif want is None:
            conj.append(z3.BoolVal(got is NONE))
        elif isinstance(want, str):
            conj.append(eq(got, z3.StringVal(want)) if got is not NONE else z3.BoolVal(False))
        elif isinstance(want, (int, bool)):
            conj.append(eq(got, z3.IntVal(int(want))) if got is not NONE else z3.BoolVal(False))
        else:
            return z3.BoolVal(False)
    return z3.And(conj) if conj else z3.BoolVal(True)


def sf_is_translation(ex, st, result, text, *holes):
    """the tree built by the code IS CPython's parse of the documented translation `text` (an expression; H<k>/S<k> are holes)"""
    import ast as _ast
    src = z3.simplify(lift(text)).as_string()
    return _tree_match(_ast.parse(src, mode="eval").body, result, holes)


def sf_all_located(ex, st, result, lineno, col, end_lineno, end_col, *holes):
    """every node built for the construct (not the hole objects handed in) carries exactly these four position attributes"""
    from engine.pyvals import PyList
    from engine.pyvc import eq
    conj = []
    seen = set()

    def walk(v, guard):
        """guard: z3 Bool -- no node on the way down to v is one of the hole objects"""
        if isinstance(v, PyObj):
            if id(v) in seen:
                return
            seen.add(id(v))
            same = [same_obj(v, h) for h in holes if isinstance(h, PyObj)]
            if any(x is True for x in same):
                return
            undecided = [eq(v, h) for h, x in zip([h for h in holes if isinstance(h, PyObj)], same) if x is None]
            if undecided:
                guard = z3.And(guard, z3.Not(z3.Or(undecided)))
            if v.cls.startswith("ast.") and v.cls not in ("ast.Add", "ast.Load", "ast.Store", "ast.Del", "ast.withitem", "ast.arguments", "ast.comprehension"):
                for f, w in (("lineno", lineno), ("col_offset", col), ("end_lineno", end_lineno), ("end_col_offset", end_col)):
                    conj.append(z3.Implies(guard, eq(v.fields[f], w) if f in v.fields else z3.BoolVal(False)))
            for x in v.fields.values():
                walk(x, guard)
        elif isinstance(v, (PyList, PyTuple)):
            for x in v.items:
                walk(x, guard)
    walk(result, z3.BoolVal(True))
    return z3.And(conj) if conj else z3.BoolVal(True)


def sf_prefix_of(ex, st, a, b):
    """a is a prefix of b.  When ASSUMED, the element-wise consequence is instantiated for the solver (DESIGN 3.2: spec
    functions are unfolded by the VC generator); when it is a GOAL only the primitive is used."""
    if getattr(ex, "assuming", False):
        j = z3.Int("pf!q")
        from engine.pyvals import fresh
        suf = fresh("suffix", a.sort())      # skolem witness: b = a ++ suffix
        return z3.And(z3.PrefixOf(a, b), z3.Length(a) <= z3.Length(b), b == z3.Concat(a, suf),
                      z3.ForAll([j], z3.Implies(z3.And(j >= 0, j < z3.Length(a)), b[j] == a[j])))
    return z3.PrefixOf(a, b)


def sf_tok_type(ex, st, name):
    return z3.IntVal(ex.token_enum[z3.simplify(lift(name)).as_string()])


def _tok_wf(t):
    return z3.And(Tok.sl(t) >= 1, Tok.sc(t) >= 0, Tok.ec(t) >= 0, Tok.el(t) >= Tok.sl(t), z3.Or(Tok.el(t) > Tok.sl(t), Tok.ec(t) >= Tok.sc(t)))


def sf_tok_wf(ex, st, t):
    """positions of a token: line >= 1, column >= 0, start <= end (C08)"""
    return _tok_wf(t)


def sf_toks_wf(ex, st, tk):
    """every raw token of the stream, every cached token and every pushed-back token has well-formed positions
    (contract of _tokenize for the stream; preserved by peek)"""
    j = z3.Int("tw!q")
    f = tk.fields
    g = f["_tokengen"].items
    return z3.And(z3.ForAll([j], z3.Implies(z3.And(j >= 0, j < z3.Length(g)), _tok_wf(g[j]))),
                  z3.ForAll([j], z3.Implies(z3.And(j >= 0, j < z3.Length(f["_tokens"])), _tok_wf(f["_tokens"][j]))),
                  z3.ForAll([j], z3.Implies(z3.And(j >= 0, j < z3.Length(f["_stack"])), _tok_wf(f["_stack"][j]))))


def sf_lines_ok(ex, st, tk):
    """string mode: every cached line text is the `line` attribute of a raw token that starts on that line (so `text` of an
    error is the source line the tokenizer saw, C11/C12)"""
    f = tk.fields
    g = f["_tokengen"]
    n, k = z3.Int("lo!n"), z3.Int("lo!k")
    m = f["_lines"]
    return z3.ForAll([n], z3.Implies(z3.Select(m.present, n),
                                     z3.Exists([k], z3.And(k >= 0, k < g.pos, Tok.sl(g.items[k]) == n, Tok.line(g.items[k]) == z3.Select(m.value, n)))))


def sf_em_cached(ex, st, tk):
    t = tk.fields["_tokens"]
    n = z3.Length(t)
    return z3.And(n > 0, Tok.type(t[n - 1]) == ex.token_enum["ENDMARKER"])


def sf_tk_ok(ex, st, tk):
    """class invariant of Tokenizer (A.2 of DESIGN): index within the cache; generator position within its stream; the
    stream ends with its only ENDMARKER; pushed-back tokens are never blank; with-macro mode implies a cached token;
    every cached or pushed-back token cost at least one raw token; once the stream is exhausted the ENDMARKER is the last cached token or is
    among the pushed-back tokens"""
    f = tk.fields
    j = z3.Int("sk!q")
    op, em = ex.token_enum["OP"], ex.token_enum["ENDMARKER"]
    stk = f["_stack"]
    g = f["_tokengen"]
    return z3.And(sf_cache_wf(ex, st, tk), sf_endmarker_last(ex, st, tk), g.pos >= 0, g.pos <= z3.Length(g.items),
                  z3.ForAll([j], z3.Implies(z3.And(j >= 0, j < z3.Length(stk)), z3.Or(Tok.type(stk[j]) == op, Tok.type(stk[j]) == em))),
                  z3.Or(z3.Not(f["_with_macro"]), z3.Length(f["_tokens"]) > 0),
                  z3.Length(f["_tokens"]) + z3.Length(stk) <= g.pos,
                  z3.Implies(g.pos >= z3.Length(g.items),
                             z3.Or(sf_em_cached(ex, st, tk),
                                   z3.Exists([j], z3.And(j >= 0, j < z3.Length(stk), Tok.type(stk[j]) == em)))))


def sf_can_peek(ex, st, tk):
    """the cursor is not past the ENDMARKER (E2: never_past_end for the generated methods)"""
    f = tk.fields
    return z3.Or(f["_index"] < z3.Length(f["_tokens"]), z3.Not(sf_em_cached(ex, st, tk)))


def sf_cache_has(ex, st, c, m):
    return z3.Select(c.present, lift(m))


def sf_cache_end(ex, st, c, m):
    return z3.Select(c.end, lift(m))


def sf_cache_tree(ex, st, c, m):
    return z3.Select(c.tree, lift(m))


def sf_cache_ok(ex, st, c, tk):
    """memo-cache invariant: every recorded end mark is a position inside the token cache that is not past ENDMARKER"""
    m = z3.Int("co!q")
    t = tk.fields["_tokens"]
    return z3.ForAll([m], z3.Implies(z3.Select(c.present, m),
                                     z3.And(z3.Select(c.end, m) >= 0, z3.Select(c.end, m) <= z3.Length(t),
                                            z3.Or(z3.Select(c.end, m) < z3.Length(t), z3.Not(sf_em_cached(ex, st, tk))))))


def sf_lr_cache_ok(ex, st, c):
    """entries written by memoize_left_rec_wrapper: the end is never left of the start, and a recorded failure ends
    where it starts (so replaying it is a no-op for the cursor)"""
    m = z3.Int("lr!q")
    return z3.ForAll([m], z3.Implies(z3.Select(c.present, m),
                                     z3.And(z3.Select(c.end, m) >= m,
                                            z3.Implies(z3.Not(z3_truthy(z3.Select(c.tree, m))), z3.Select(c.end, m) == m))))


ICOL = z3.Function("indent_col", z3.StringSort(), z3.IntSort(), z3.IntSort())


def sf_indent_col(ex, st, line, p):
    """column reached after the first p characters of `line` when they are all blanks, as the language reference (2.1.8)
    defines it: a space advances by one, a tab to the next multiple of 8, a form feed resets to 0.  Uninterpreted function
    whose defining equation is instantiated at the term that occurs (one unfolding, DESIGN 3.2)."""
    p = lift(p)
    c = ICOL(line, p)
    prev = ICOL(line, p - 1)
    ch = z3.SubString(line, p - 1, 1)
    st.assume(z3.Implies(p <= 0, c == 0))
    st.assume(z3.Implies(p > 0, c == z3.If(ch == z3.StringVal(" "), prev + 1,
                                           z3.If(ch == z3.StringVal("\t"), (prev / 8 + 1) * 8,
                                                 z3.If(ch == z3.StringVal("\f"), 0, prev)))))
    st.assume(z3.Implies(p >= 0, c >= 0))
    return c


def sf_indents_wf(ex, st, ind):
    """the indentation stack is non-empty, starts with 0 and is strictly increasing"""
    i, j = z3.Int("iw!i"), z3.Int("iw!j")
    # pairwise form (no induction needed to compare arbitrary entries)
    return z3.And(z3.Length(ind) >= 1, ind[0] == 0,
                  z3.ForAll([i, j], z3.Implies(z3.And(i >= 0, i < j, j < z3.Length(ind)), ind[i] < ind[j])))


def sf_is_blank_char(ex, st, ch):
    return z3.Or(ch == z3.StringVal(" "), ch == z3.StringVal("\t"), ch == z3.StringVal("\f"))


def sf_last(ex, st, sq):
    return sq[z3.Length(sq) - 1]


def sf_lines_left(ex, st, rl):
    g = rl.bound
    st.assume(z3.And(g.pos >= 0, g.pos <= z3.Length(g.items)))      # type invariant of the line source (A3)
    return z3.Length(g.items) - g.pos


def sf_node_wf(ex, st, n):
    from engine.pyvals import PyUnion
    if isinstance(n, PyUnion):
        return z3.And([z3.Implies(n.kind == k, sf_node_wf(ex, st, a)) for k, a in enumerate(n.alts)])
    if is_tok(n):
        return _tok_wf(n)
    f = n.fields
    return z3.And(f["lineno"] >= 1, f["col_offset"] >= 0, f["end_col_offset"] >= 0, f["end_lineno"] >= f["lineno"],
                  z3.Or(f["end_lineno"] > f["lineno"], f["end_col_offset"] >= f["col_offset"]))


def sf_wf_error(ex, st, e, parser):
    """C11: a message, the parser's file name, line >= 1, 1-based column, end not before start, six-element args"""
    f = e.fields
    if any(k not in f for k in ("nargs", "filename", "lineno", "offset", "end_lineno", "end_offset")):
        return z3.BoolVal(False)          # a bare SyntaxError(msg): no file name, no position
    return z3.And(z3.Not(f["bare"]), f["nargs"] == 6, f["filename"] == parser.fields["filename"], f["lineno"] >= 1, f["offset"] >= 1,
                  z3.Or(f["end_lineno"] > f["lineno"], z3.And(f["end_lineno"] == f["lineno"], f["end_offset"] >= f["offset"])))


def _quote_index(s):
    a, b = z3.IndexOf(s, z3.StringVal("'"), 0), z3.IndexOf(s, z3.StringVal('"'), 0)
    return z3.If(a < 0, b, z3.If(b < 0, a, z3.If(a <= b, a, b)))


def sf_has_p_prefix(ex, st, s):
    """the literal's prefix (what precedes its opening quote, the first quote character of either kind) contains a p, in any case"""
    from engine.pyvc import str_lower
    s = lift(s)
    q = _quote_index(s)
    return z3.And(q > 0, z3.Contains(str_lower(z3.SubString(s, 0, q)), z3.StringVal("p")))


def sf_strip_p(ex, st, s):
    """the same literal without that p: prefix case-folded, its first p removed, the rest (from the opening quote on) untouched"""
    from engine.pyvc import str_lower
    s = lift(s)
    q = _quote_index(s)
    return z3.Concat(z3.Replace(str_lower(z3.SubString(s, 0, q)), z3.StringVal("p"), z3.StringVal("")), z3.SubString(s, q, z3.Length(s) - q))


def _piece_pos(v, which):
    """(line, col) z3 pair of a token / node / union of them"""
    from engine.pyvals import PyUnion
    if isinstance(v, PyUnion):
        alts = [_piece_pos(a, which) for a in v.alts]
        out = alts[-1]
        for k in range(len(alts) - 2, -1, -1):
            out = (z3.If(v.kind == k, alts[k][0], out[0]), z3.If(v.kind == k, alts[k][1], out[1]))
        return out
    if is_tok(v):
        return (Tok.sl(v), Tok.sc(v)) if which == "start" else (Tok.el(v), Tok.ec(v))
    return (_pos_field(v, "lineno"), _pos_field(v, "col_offset")) if which == "start" else (_pos_field(v, "end_lineno"), _pos_field(v, "end_col_offset"))


def _brk(seq, j):
    """piece j does not start where piece j-1 ends (j >= 1)"""
    e = _piece_pos(seq.at(j - 1), "end")
    b = _piece_pos(seq.at(j), "start")
    return z3.Not(z3.And(e[0] == b[0], e[1] == b[1]))


def _run_funcs(ex, st, seq, i):
    """R(i): number of maximal runs of adjacent pieces among the first i pieces; B(i): index where the run containing piece i-1 begins.
    Defined by recursion over i (definitional axioms, stated for all i and instantiated at i and i-1 for the solver):
      R(0) = 0, R(1) = 1, R(i+1) = R(i) + (1 if brk(i) else 0);   B(1) = 0, B(i+1) = (i if brk(i) else B(i))"""
    key = seq.j.decl().name()
    R = z3.Function(f"runs@{key}", z3.IntSort(), z3.IntSort())
    B = z3.Function(f"run_begin@{key}", z3.IntSort(), z3.IntSort())
    q = z3.Int("rf!q")

    def step(x):
        return z3.And(R(x + 1) == R(x) + z3.If(_brk(seq, x), 1, 0), B(x + 1) == z3.If(_brk(seq, x), x, B(x)))
    # the recursion equations are handed to the solver as ground instances at the indices the clause mentions (i and i-1): the universally
    # quantified form makes the queries unstable (arithmetic patterns), and no obligation needs an unfolding elsewhere
    ax = [R(0) == 0, R(1) == 1, B(1) == 0]
    i = lift(i)
    for x in (i, i - 1):
        ax.append(z3.Implies(x >= 1, step(x)))
    for a in ax:
        ex.add_axiom(a)
    return R, B


def sf_runs(ex, st, seq, i):
    return _run_funcs(ex, st, seq, i)[0](lift(i))


def sf_run_begin(ex, st, seq, i):
    return _run_funcs(ex, st, seq, i)[1](lift(i))


def sf_brk(ex, st, seq, j):
    return _brk(seq, lift(j))


def sf_yield_at(ex, st, y):
    from engine.pyvals import NodeAbs
    return NodeAbs.at(y)


def sf_node_id(ex, st, n):
    from engine.pyvals import NodeAbs, ident_of
    return NodeAbs.ident(n) if z3.is_expr(n) else ident_of(n)


def _pos_field(n, f):
    from engine.pyvc import Unsupported
    if not (isinstance(n, PyObj) and f in n.fields):
        raise Unsupported(f"{n!r} has no position attribute `{f}`")
    return n.fields[f]


def sf_node_start(ex, st, n):
    from engine.pyvals import NodeAbs, PyUnion
    if z3.is_expr(n) and n.sort() == NodeAbs:
        return PyTuple([NodeAbs.sl(n), NodeAbs.sc(n)])
    if isinstance(n, PyUnion):
        return PyTuple(list(_piece_pos(n, "start")))
    if is_tok(n):
        return PyTuple([Tok.sl(n), Tok.sc(n)])
    return PyTuple([_pos_field(n, "lineno"), _pos_field(n, "col_offset")])


def sf_node_end(ex, st, n):
    from engine.pyvals import NodeAbs, PyUnion
    if z3.is_expr(n) and n.sort() == NodeAbs:
        return PyTuple([NodeAbs.el(n), NodeAbs.ec(n)])
    if isinstance(n, PyUnion):
        return PyTuple(list(_piece_pos(n, "end")))
    if is_tok(n):
        return PyTuple([Tok.el(n), Tok.ec(n)])
    return PyTuple([_pos_field(n, "end_lineno"), _pos_field(n, "end_col_offset")])


CLASSES["Parser#strings"] = {**CLASSES["Parser"], "_path_token": "optv[Tok]", "_path_owner": "optv[obj:ast.JoinedStr]"}
# an element of `values` known by shape only: a Constant (merged plain literals, text of an f-string) or some other node (a replacement field)
CLASSES["StrPart"] = {"is:ast.Constant?": "bool", "value": "lit", "lineno": "int", "col_offset": "int", "end_lineno": "int", "end_col_offset": "int"}


TREE_WF = z3.Function("tree_wf", z3.IntSort(), z3.BoolSort())


def sf_tree_wf(ex, st, n):
    """every node of the tree carries well-formed positions.  Unfolded one level (the node itself and its direct children); deeper levels
    stay behind the uninterpreted predicate, which is exactly what a recursive call needs of a child"""
    from engine.pyvals import PyComp, ident_of
    if n is NONE:
        return z3.BoolVal(True)
    conj = [TREE_WF(ident_of(n)), sf_node_wf(ex, st, n)]
    for f in ("elts", "value", "left"):
        ch = n.fields.get(f) if isinstance(n, PyObj) else None
        if isinstance(ch, PyObj):
            conj += [TREE_WF(ident_of(ch)), sf_node_wf(ex, st, ch)]
        elif isinstance(ch, PyComp):
            j = z3.Int("tw!j")
            e = ch.at(j)
            conj.append(z3.ForAll([j], z3.Implies(z3.And(j >= 0, j < ch.length), z3.And(TREE_WF(ident_of(e)), sf_node_wf(ex, st, e)))))
    return z3.And(conj)


PARTS_WF = z3.Function("parts_wf", z3.IntSort(), z3.BoolSort())


def sf_parts_wf(ex, st, parts):
    """every part of the f-string (and, through nested format specs, of the f-strings inside) carries well-formed positions.  Unfolded one level;
    the parts of a nested spec stay behind the uninterpreted predicate on that list, which is what the recursive call requires"""
    from engine.pyvals import PyComp, PyUnion
    if isinstance(parts, PyObj) and parts.cls == "OpaqueList":
        return PARTS_WF(parts.fields["id"])
    if not isinstance(parts, PyComp):
        from engine.pyvc import Unsupported
        raise Unsupported("parts_wf of " + type(parts).__name__)
    j = z3.Int("pw!j")
    e = parts.at(j)
    alts = e.alts if isinstance(e, PyUnion) else [e]
    conj = []
    for k, a in enumerate(alts):
        c = [sf_node_wf(ex, st, a)]
        fs = a.fields.get("format_spec") if isinstance(a, PyObj) else None
        if isinstance(fs, PyObj) and "values" in fs.fields:
            c.append(sf_parts_wf(ex, st, fs.fields["values"]))
        conj.append(z3.Implies(e.kind == k, z3.And(c)) if isinstance(e, PyUnion) else z3.And(c))
    return z3.ForAll([j], z3.Implies(z3.And(j >= 0, j < parts.length), z3.And(conj)))


def sf_keys_are(ex, st, d, *names):
    """the dict literal has exactly these keys"""
    want = {z3.simplify(lift(n)).as_string() for n in names}
    return z3.BoolVal(type(d).__name__ == "PyDictLit" and set(d.d) == want)


def sf_tok_of(ex, st, x):
    """the token a (token | node) value is, when it is one (unspecified otherwise: use under isinstance(x, TokenInfo))"""
    from engine.pyvals import PyUnion
    if isinstance(x, PyUnion):
        return next(a for a in x.alts if is_tok(a))
    return x


SPEC_FUNCS = {"gen_pos_of": sf_gen_pos_of, "stream_ends_with_endmarker": sf_stream_ends_with_endmarker, "tree_wf": sf_tree_wf, "parts_wf": sf_parts_wf, "tok_of": sf_tok_of, "keys_are": sf_keys_are, "le_val": sf_le_val, "le_numkind": sf_le_numkind, "lit_numkind": sf_lit_numkind, "has_p_prefix": sf_has_p_prefix, "strip_p": sf_strip_p, "runs": sf_runs, "run_begin": sf_run_begin, "brk": sf_brk, "yield_at": sf_yield_at, "node_id": sf_node_id, "lines_ok": sf_lines_ok, "node_start": sf_node_start, "node_end": sf_node_end, "node_wf": sf_node_wf, "wf_error": sf_wf_error, "tok_wf": sf_tok_wf, "toks_wf": sf_toks_wf, "lines_left": sf_lines_left, "indent_col": sf_indent_col, "indents_wf": sf_indents_wf, "is_blank_char": sf_is_blank_char, "last": sf_last, "lr_cache_ok": sf_lr_cache_ok, "cache_ok": sf_cache_ok, "cache_has": sf_cache_has, "cache_end": sf_cache_end, "cache_tree": sf_cache_tree, "em_cached": sf_em_cached, "tk_ok": sf_tk_ok, "can_peek": sf_can_peek, "layout": sf_layout, "cache_wf": sf_cache_wf, "truthy": sf_truthy, "is_none": sf_is_none, "pos_le": sf_pos_le,
              "endmarker_last": sf_endmarker_last, "endmarker_pulled": sf_endmarker_pulled, "gen_pos": sf_gen_pos,
              "gen_len": sf_gen_len, "gen_cat": sf_gen_cat, "gen_count": sf_gen_count, "le_isbytes": sf_le_isbytes, "lit_isbytes": sf_lit_isbytes, "lit_val": sf_lit_val,
              "lit_fold": sf_lit_fold, "has_field": sf_has_field, "is_translation": sf_is_translation, "all_located": sf_all_located, "mode_kind_of": sf_mode_kind_of, "mode_level_of": sf_mode_level_of, "pat_kind": sf_pat_kind, "same_frame": sf_same_frame, "pat_q": sf_pat_q, "gen_item": sf_gen_item, "prefix_of": sf_prefix_of, "tok_type": sf_tok_type}
