"""Contracts for peg_parser/tokenizer.py (class Tokenizer).  Top-level postconditions come from the property
statements (C01 span meaning, C03 totality, C11/C12 line lookup); invariants and frames from the code."""
from engine.contract import C

F = "peg_parser/tokenizer.py"
STACK_OK = "all(self._stack[j].type == Token.OP or self._stack[j].type == Token.ENDMARKER for j in range(len(self._stack)))"
T = {"self": "obj:Tokenizer"}

C(f"{F}:Tokenizer.mark", params=T, returns="int", ensures=["result == self._index"], pure=True, properties=["C03", "C17"])

C(f"{F}:Tokenizer.report", params={**T, "cached": "bool", "back": "bool"},
  requires=["0 <= self._index <= len(self._tokens)"], raises=[], properties=["C03", "C15"])

C(f"{F}:Tokenizer.reset", params={**T, "index": "int"},
  requires=["0 <= index <= len(self._tokens)", "0 <= self._index <= len(self._tokens)"],
  ensures=["self._index == index"], modifies=["self._index"], raises=[], properties=["C03", "C15", "C17"])

C(f"{F}:Tokenizer.get_last_non_whitespace_token", params=T, returns="Tok",
  requires=["cache_wf(self)", "len(self._tokens) > 0"],
  ensures=[
      # meaning of EXTRA's end (C01): the last token before the cursor that is not NEWLINE/INDENT/DEDENT/ENDMARKER ...
      "any(result == self._tokens[k] and not layout(self._tokens[k]) "
      "    and all(layout(self._tokens[j]) for j in range(k + 1, self._index)) for k in range(0, self._index))"
      " or (all(layout(self._tokens[j]) for j in range(0, self._index)) and result == self._tokens[len(self._tokens) - 1])",
  ],
  witness={"any(result == self._tokens[k] and not layout(self._tokens[k]) "
           "    and all(layout(self._tokens[j]) for j in range(k + 1, self._index)) for k in range(0, self._index))"
           " or (all(layout(self._tokens[j]) for j in range(0, self._index)) and result == self._tokens[len(self._tokens) - 1])": {"k": "idx"}},
  loops={0: {"inv": ["-1 <= idx < self._index or (idx == -1 and self._index == 0)",
                     "all(layout(self._tokens[j]) for j in range(idx + 1, self._index))"],
             "dec": "idx + 1"}},
  raises=[], pure=True, properties=["C01", "C03", "C04", "C18"])

C(f"{F}:Tokenizer.is_blank", params={**T, "tok": "Tok"}, returns="bool", raises=[], pure=True,
  ensures=[
      # C01 (F): exactly NL / COMMENT / WS / whitespace ERRORTOKEN / a NEWLINE directly after a cached NEWLINE are dropped
      "result == ((tok.type == Token.WS and not self._proc_macro) or tok.type == Token.NL or tok.type == Token.COMMENT"
      " or (tok.type == Token.ERRORTOKEN and tok.string.isspace())"
      " or (tok.type == Token.NEWLINE and len(self._tokens) > 0 and self._tokens[len(self._tokens) - 1].type == Token.NEWLINE))",
  ], properties=["C01", "C06", "C07"])

C(f"{F}:Tokenizer.diagnose", params=T, returns="Tok",
  requires=["tk_ok(self)", "len(self._tokens) > 0 or self._index == 0"],
  ensures=["len(self._tokens) > 0", "result == self._tokens[len(self._tokens) - 1]", "tk_ok(self)", "implies(old(toks_wf(self)), toks_wf(self) and tok_wf(result))",
           "implies(old(len(self._tokens)) > 0, self._tokens == old(self._tokens) and self._index == old(self._index))",
           "prefix_of(old(self._tokens), self._tokens)", "self._index >= old(self._index)", "self._index <= len(self._tokens)"],
  modifies=["self._index", "self._tokens", "self._tokengen", "self._lines", "self._stack", "self._call_macro", "self._with_macro"],
  raises=["SyntaxError"], properties=["C03", "C11"])

STACK_OK = "all(self._stack[j].type == Token.OP or self._stack[j].type == Token.ENDMARKER for j in range(len(self._stack)))"

P0 = "old(gen_pos(self))"
C(f"{F}:Tokenizer.consume_macro_params", params=T, returns="Tok",
  requires=["self._call_macro", "tk_ok(self)"],
  requires_assumed={"not endmarker_pulled(self)": "flag protocol (C07/C14 obligations + stand-in): the raw stream is not exhausted while _call_macro is set",
                    "all(gen_item(self, j).type != Token.OP or len(gen_item(self, j).string) > 0 for j in range(0, gen_len(self)))":
                    "contract of _tokenize: operator lexemes are non-empty (regex epsilon-freeness lemma C08.rx; f-string braces are literals)",
                    "len(self._stack) == 0":
                    "flag protocol: a pushed-back token is popped by the next peek() before a macro start rule can set _call_macro again",
                    "all(pos_le(node_end(gen_item(self, j)), node_start(gen_item(self, j + 1))) for j in range(0, gen_len(self) - 1))":
                    "C08: raw tokens appear in non-decreasing, non-overlapping position order"},
  modifies=["self._tokengen", "self._stack", "self._call_macro", "self._lines"],
  loops={0: {"inv": [f"gen_pos(self) >= {P0}", "gen_pos(self) <= gen_len(self)", "self._call_macro", "self._stack == old(self._stack)",
                     "implies(len(self._path) > 0 and not old(truthy(self._lines)), not truthy(self._lines))",
                     # C07: `string` is the verbatim concatenation of every raw token pulled so far, none skipped, reordered or altered
                     f"string == gen_cat(self, {P0}, gen_pos(self))",
                     f"(start is None) == (gen_pos(self) == {P0})", "(end is None) == (start is None)",
                     f"implies(start is not None, start == node_start(gen_item(self, {P0})) and line == gen_item(self, {P0}).line)",
                     "implies(end is not None, end == node_end(gen_item(self, gen_pos(self) - 1)))",
                     f"all(gen_item(self, j).type != Token.ENDMARKER for j in range({P0}, gen_pos(self)))",
                     "implies(start is not None and old(toks_wf(self)), pos_le(start, end))",
                     "implies(old(toks_wf(self)), toks_wf(self))"],
             "types": {"start": "optv[pos]", "end": "optv[pos]", "paren_level": "seq[str]", "string": "str", "line": "str", "tok": "Tok"},
             "nodec_ok": True}},
  ensures=["tk_ok(self)", "not endmarker_pulled(self) or len(self._stack) > 0",
           "gen_pos(self) - old(gen_pos(self)) >= 1 + len(self._stack) - old(len(self._stack))",
           "implies(old(toks_wf(self)), toks_wf(self) and tok_wf(result))",
           # C07: the delimiter is the last raw token pulled and is a real `,` / `)` operator token ...
           "gen_item(self, gen_pos(self) - 1).type == Token.OP",
           "gen_item(self, gen_pos(self) - 1).string == ',' or gen_item(self, gen_pos(self) - 1).string == ')'",
           # ... a closing parenthesis is handed back to the parser and ends raw capture, a comma continues it
           "implies(gen_item(self, gen_pos(self) - 1).string == ')', not self._call_macro)",
           "implies(gen_item(self, gen_pos(self) - 1).string == ',', self._call_macro and self._stack == old(self._stack))",
           # ... and a MACRO_PARAM / WS result carries exactly the text of the raw tokens before the delimiter, spanning first.start .. last.end
           f"implies(result.type == Token.MACRO_PARAM or result.type == Token.WS, result.string == gen_cat(self, {P0}, gen_pos(self) - 1)"
           f" and result.start == node_start(gen_item(self, {P0})) and result.end == node_end(gen_item(self, gen_pos(self) - 2)))",
           # C12: the line cache is filled for string input only (get_lines re-reads the file otherwise)
           "implies(len(self._path) > 0 and not old(truthy(self._lines)), not truthy(self._lines))",
           f"result.type == Token.MACRO_PARAM or result.type == Token.WS or (result == gen_item(self, gen_pos(self) - 1) and result.string == ')'"
           f" and gen_cat(self, {P0}, gen_pos(self) - 1) == '' and len(self._stack) == 0)"],
  raises=["SyntaxError"], properties=["C03", "C07", "C12"])

LASTP = "gen_item(self, gen_pos(self) - 1)"
C(f"{F}:Tokenizer.consume_with_macro_params", params=T, returns="Tok",
  requires=["self._with_macro", "len(self._tokens) > 0", "tk_ok(self)"],
  requires_assumed={"not endmarker_pulled(self)": "flag protocol: the raw stream is not exhausted while _with_macro is set (C07/C14 flag obligations + stand-in)",
                    "len(self._stack) == 0": "flag protocol: a pushed-back token is popped by the next peek() before a macro start rule can set a flag again",
                    "gen_item(self, gen_pos(self)).type != Token.ENDMARKER": "C08: the logical line of the `with! ...:` header ends in a NEWLINE token before ENDMARKER"},
  # how the pieces of captured text are put together (lines dict, re.findall, dedent) is not modelled; WHAT is captured per token is:
  # in the block form the token's whole source line(s) (so that dedent sees the block's own margin, also for comment lines before the first
  # statement), in the one-line form the line from the token's start on
  opaque=["lines", "lineno", "line"],
  local_asserts={"text": "(is_indented and text == tok.line) or (not is_indented and text == tok.line[tok.start[1]:])"},
  loops={0: {"inv": [f"gen_pos(self) == {P0} + _i", "gen_pos(self) <= gen_len(self)", "indent >= 0", "self._with_macro", "self._stack == old(self._stack)",
                     "implies(opened, is_indented)", "implies(_i == 0, not is_indented and not opened and indent == 0)", "implies(is_indented and not opened, indent == 0)",
                     # block form before its INDENT: only comment / blank-line tokens have been passed since the NEWLINE after the colon
                     f"implies(is_indented and not opened, all(gen_item(self, j).type == Token.COMMENT or gen_item(self, j).type == Token.NL"
                     f" or gen_item(self, j).type == Token.WS for j in range({P0} + 1, gen_pos(self))))",
                     f"implies(is_indented, _i >= 1 and gen_item(self, {P0}).type == Token.NEWLINE)",
                     f"all(gen_item(self, j).type != Token.ENDMARKER for j in range({P0}, gen_pos(self)))",
                     # one-line form (and the fallback when no block follows): no NEWLINE has been passed yet
                     f"implies(not is_indented, all(gen_item(self, j).type != Token.NEWLINE for j in range({P0} + 1, gen_pos(self))))",
                     f"implies(_i >= 1 and gen_item(self, {P0}).type != Token.NEWLINE, not is_indented)",
                     "self._tokens == old(self._tokens)", "self._index == old(self._index)"],
             "types": {"is_indented": "bool", "opened": "bool", "indent": "int", "idx": "int", "tok": "Tok"}}},
  ensures=["result.type == Token.MACRO_PARAM", "tk_ok(self)", "gen_pos(self) > old(gen_pos(self)) + len(self._stack) - old(len(self._stack))",
           "result.start == last(old(self._tokens)).end and result.end == result.start",
           # C07/C14: capture stops at a DEDENT that closes the block, at the end of input, or (one-line form) at the NEWLINE ending the line
           f"{LASTP}.type == Token.DEDENT or {LASTP}.type == Token.ENDMARKER or {LASTP}.type == Token.NEWLINE or endmarker_pulled(self)",
           f"implies({LASTP}.type == Token.DEDENT, not self._with_macro and self._stack == old(self._stack))",
           f"implies({LASTP}.type == Token.ENDMARKER, not self._with_macro and len(self._stack) == 1 and self._stack[0] == {LASTP})",
           f"implies({LASTP}.type == Token.NEWLINE, self._with_macro and self._stack == old(self._stack))",
           # C14: in the one-line form (text follows the colon on the same line) the capture ends at the FIRST NEWLINE, or at the end of input
           f"implies(gen_item(self, {P0}).type != Token.NEWLINE and {LASTP}.type == Token.NEWLINE, all(gen_item(self, j).type != Token.NEWLINE for j in range({P0}, gen_pos(self) - 1)))",
           ],
  modifies=["self._tokengen", "self._with_macro", "self._stack"], raises=[], properties=["C03", "C07", "C12", "C14"])

STACK_OK = "all(self._stack[j].type == Token.OP or self._stack[j].type == Token.ENDMARKER for j in range(len(self._stack)))"
PEEK_REQ = ["tk_ok(self)", "can_peek(self)"]

C(f"{F}:Tokenizer.peek", params=T, returns="Tok", requires=PEEK_REQ,
  ensures=["self._index == old(self._index)", "self._index < len(self._tokens)", "result == self._tokens[self._index]",
           "prefix_of(old(self._tokens), self._tokens)", "tk_ok(self)", "implies(old(toks_wf(self)), toks_wf(self))"],
  modifies=["self._tokens", "self._tokengen", "self._lines", "self._stack", "self._call_macro", "self._with_macro"],
  loops={0: {"inv": ["cache_wf(self)", "prefix_of(old(self._tokens), self._tokens)", "self._index == old(self._index)",
                     "tk_ok(self)", "can_peek(self)", "implies(old(toks_wf(self)), toks_wf(self))"],
             "nodec_ok": True,
             "havoc": ["self._tokens", "self._tokengen", "self._lines", "self._stack", "self._call_macro", "self._with_macro"]}},
  raises=["SyntaxError"], properties=["C01", "C03", "C07", "C11", "C12"])

C(f"{F}:Tokenizer.getnext", params=T, returns="Tok", requires=PEEK_REQ,
  ensures=["self._index == old(self._index) + 1", "self._index <= len(self._tokens)", "result == self._tokens[old(self._index)]",
           "prefix_of(old(self._tokens), self._tokens)", "tk_ok(self)", "implies(old(toks_wf(self)), toks_wf(self))"],
  modifies=["self._index", "self._tokens", "self._tokengen", "self._lines", "self._stack", "self._call_macro", "self._with_macro"],
  raises=["SyntaxError"], properties=["C03", "C17"])

C(f"{F}:Tokenizer.get_lines", params={**T, "line_numbers": "seq[int]"}, returns="seq[str]",
  ensures=["len(result) == len(line_numbers)",
           # string mode: the cached text of each requested line, '' for a line without a token of its own (never KeyError)
           "implies(truthy(self._lines), all(result[j] == self._lines.get(line_numbers[j], '') for j in range(len(line_numbers))))"],
  loops={0: {"inv": ["count == _i", "seen >= 0"], "types": {}}},
  raises=[], properties=["C03", "C11", "C12"])

# the constructor ESTABLISHES the class invariant every other contract assumes: nothing cached, nothing pushed back, no macro mode, cursor at 0,
# over a token stream that has not been read yet (contract of _tokenize: it ends with its only ENDMARKER)
C(f"{F}:Tokenizer.__init__", params={**T, "tokengen": "gen[Tok]", "path": "str", "verbose": "bool"},
  requires=["gen_pos_of(tokengen) == 0", "stream_ends_with_endmarker(tokengen)"],
  ensures=["tk_ok(self)", "self._index == 0 and len(self._tokens) == 0 and len(self._stack) == 0",
           "not self._call_macro and not self._with_macro and not self._proc_macro", "self._path == path and self._verbose == verbose"],
  modifies=["self._tokengen", "self._tokens", "self._index", "self._verbose", "self._lines", "self._path", "self._stack", "self._call_macro", "self._with_macro",
            "self._proc_macro", "self._end_parens", "self._not_body"],
  raises=[], properties=["C03", "C13"])
