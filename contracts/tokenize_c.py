"""Contracts for peg_parser/tokenize.py.  Stage 1: the state record, line feeding, indentation (C09: language reference
2.1.8), end-of-input tokens and the loop structure of _tokenize (C03: termination, EOF handling)."""
from engine.contract import C

F = "peg_parser/tokenize.py"
ST = {"state": "obj:TokenizerState"}

C(f"{F}:TokenizerState.move_next_line", params={"self": "obj:TokenizerState", "readline": "linesrc"},
  ensures=["self.last_line == old(self.line)", "self.lnum == old(self.lnum) + 1", "self.pos == 0", "self.max == len(self.line)",
           # A3: a line is consumed iff one is left; '' signals the end of input
           "implies(old(lines_left(readline)) > 0, lines_left(readline) == old(lines_left(readline)) - 1 and len(self.line) > 0)",
           "implies(old(lines_left(readline)) <= 0, lines_left(readline) == old(lines_left(readline)) and self.line == '')"],
  modifies=["self.last_line", "self.line", "self.lnum", "self.pos", "self.max", "readline"], raises=[], properties=["C03", "C08"])

NS_REQ = ["state.pos == 0", "state.max == len(state.line)", "indents_wf(state.indents)", "state.lnum >= 1"]

C(f"{F}:next_statement", params=ST, generator=True, returns=None, requires=NS_REQ,
  ensures=[
      # blank prefix is measured; the cursor stops at the first non-blank character
      "0 <= state.pos <= state.max", "all(is_blank_char(state.line[j]) for j in range(state.pos)) or not is_none(result)",
      "indents_wf(state.indents)",
      # (C03) an exhausted input or a blank-only last line ends the scan: False is returned and nothing is yielded
      "implies(state.line == '', not is_none(result) and result == False and len(yielded) == 0)",
      # (C09) statement lines: INDENT iff the column exceeds the top of the stack, then it is pushed ...
      "implies(is_none(result) and indent_col(state.line, state.pos) > last(old(state.indents)),"
      "        len(yielded) == 1 and yielded[0].type == Token.INDENT and yielded[0].start == (state.lnum, 0) and yielded[0].end == (state.lnum, state.pos)"
      "        and len(state.indents) == len(old(state.indents)) + 1 and last(state.indents) == indent_col(state.line, state.pos))",
      # ... otherwise one zero-width DEDENT per popped level, and the new top equals the column
      "implies(is_none(result) and indent_col(state.line, state.pos) <= last(old(state.indents)),"
      "        len(yielded) == len(old(state.indents)) - len(state.indents) and last(state.indents) == indent_col(state.line, state.pos)"
      "        and all(yielded[j].type == Token.DEDENT and yielded[j].start == (state.lnum, state.pos) and yielded[j].end == (state.lnum, state.pos) for j in range(len(yielded))))",
      # (C02) ... and what remains is an initial part of the old stack: the column of an accepted dedent WAS an enclosing level
      "implies(is_none(result) and indent_col(state.line, state.pos) <= last(old(state.indents)),"
      "        len(state.indents) <= len(old(state.indents)) and all(state.indents[j] == old(state.indents)[j] for j in range(len(state.indents))))",
      # comment / blank lines produce only COMMENT? NL and ask the caller to continue
      "implies(not is_none(result) and result == True, 1 <= len(yielded) <= 2 and yielded[len(yielded) - 1].type == Token.NL)",
  ],
  loops={0: {"inv": ["0 <= state.pos <= state.max", "state.max == len(state.line)", "column == indent_col(state.line, state.pos)", "column >= 0",
                     "all(is_blank_char(state.line[j]) for j in range(state.pos))"],
             "dec": "state.max - state.pos"},
         1: {"inv": ["indents_wf(state.indents)", "0 <= state.pos < state.max", "column == indent_col(state.line, state.pos)",
                     # pushed case: the loop body never runs (top == column)
                     "implies(column > last(old(state.indents)), len(state.indents) == len(old(state.indents)) + 1 and last(state.indents) == column"
                     " and len(yielded) == 1 and yielded[0].type == Token.INDENT and yielded[0].start == (state.lnum, 0) and yielded[0].end == (state.lnum, state.pos))",
                     "implies(column <= last(old(state.indents)), column <= last(state.indents))",
                     "implies(column <= last(old(state.indents)), len(state.indents) <= len(old(state.indents)) and all(state.indents[j] == old(state.indents)[j] for j in range(len(state.indents))))",
                     # dedent case: a prefix of the old stack remains, one zero-width DEDENT per popped level
                     "implies(column <= last(old(state.indents)), len(state.indents) <= len(old(state.indents))"
                     " and len(yielded) == len(old(state.indents)) - len(state.indents)"
                     " and all(yielded[j].type == Token.DEDENT and yielded[j].start == (state.lnum, state.pos) and yielded[j].end == (state.lnum, state.pos) for j in range(len(yielded))))"],
             "dec": "len(state.indents)"}},
  modifies=["state.pos", "state.indents"], raises=["IndentationError"],
  # (C11) the error names this line, its text, and a 1-based column inside it (character index, not the tab-expanded width)
  raises_ensures=["exc.lineno == state.lnum", "exc.text == state.line", "1 <= exc.offset <= len(state.line) + 1", "exc.end_lineno == state.lnum",
                  "exc.end_offset >= exc.offset", "exc.end_offset <= len(state.line) + 1"],
  properties=["C03", "C08", "C09", "C01", "C02", "C11"])

NL_COND = "(len(state.last_line) > 0 and state.last_line[len(state.last_line) - 1] not in '\\r\\n' and not state.last_line.strip().startswith('#'))"

C(f"{F}:next_end_tokens", params=ST, generator=True, requires=["indents_wf(state.indents)"],
  ensures=[
      # C08: implicit NEWLINE iff the last line lacks a terminator (and is not a comment line); one DEDENT per open level; one ENDMARKER, last
      f"len(yielded) == (1 if {NL_COND} else 0) + (len(state.indents) - 1) + 1",
      "yielded[len(yielded) - 1].type == Token.ENDMARKER",
      f"implies({NL_COND}, yielded[0].type == Token.NEWLINE and yielded[0].string == '' and yielded[0].start == (state.lnum - 1, len(state.last_line)))",
      f"all(yielded[j].type == Token.DEDENT for j in range((1 if {NL_COND} else 0), len(yielded) - 1))",
      "all(yielded[j].type != Token.ENDMARKER for j in range(0, len(yielded) - 1))",
  ],
  loops={0: {"inv": [f"len(yielded) == (1 if {NL_COND} else 0) + _i",
                     f"implies({NL_COND}, yielded[0].type == Token.NEWLINE and yielded[0].string == '' and yielded[0].start == (state.lnum - 1, len(state.last_line)))",
                     f"all(yielded[j].type == Token.DEDENT for j in range((1 if {NL_COND} else 0), len(yielded)))"]}},
  raises=[], properties=["C08", "C03"])


SCAN_REQ = ["0 <= state.pos <= state.max", "state.max == len(state.line)", "state.end_progs.n >= 0"]
SCAN_MOD = ["state.pos", "state.parenlev", "state.continued", "state.end_progs.n"]

C(f"{F}:handle_end_progs", params=ST, generator=True, verify=False,
  why_assumed="string / f-string continuation: regex matching and a list of mutable frames (stage 2 of the tokenize contracts)",
  requires=SCAN_REQ, ensures=["state.pos >= old(state.pos)", "state.pos <= state.max", "state.end_progs.n >= 0"],
  raises_when={"TokenError": "state.end_progs.n > 0 and state.pos == 0 and state.line == ''"},
  modifies=SCAN_MOD, raises=["TokenError"], properties=["C03", "C08"])

C(f"{F}:next_psuedo_matches", params=ST, returns="opt[Tok]", verify=False,
  why_assumed="master-regex dispatch (re.Match objects): bounded stand-in + E3 lemmas (epsilon-freeness gives the progress clause)",
  requires=SCAN_REQ, ensures=["state.pos >= old(state.pos)", "state.pos <= state.max", "state.end_progs.n >= 0",
                              "implies(not is_none(result), state.pos > old(state.pos))"],
  modifies=SCAN_MOD, may_raise=["TokenError"], raises=["TokenError"], properties=["C03", "C08"])

C(f"{F}:_tokenize", params={"readline": "linesrc"}, generator=True,
  ensures=["len(yielded) > 0", "yielded[len(yielded) - 1].type == Token.ENDMARKER"],       # C08: the stream ends with an ENDMARKER
  loops={
      # outer loop over lines: every iteration consumes a line; at end of input the body breaks or raises (C03)
      0: {"inv": ["indents_wf(state.indents)", "state.lnum >= 0", "state.end_progs.n >= 0", "lines_left(readline) >= 0"],
          "dec": "2 * lines_left(readline) + (1 if len(state.line) > 0 else 0)",
          "havoc": ["state.pos", "state.max", "state.line", "state.last_line", "state.lnum", "state.parenlev", "state.continued",
                    "state.end_progs.n", "state.indents", "readline"]},
      # inner scan loop: the cursor strictly advances (this is the obligation the `pos` bug violated)
      1: {"inv": ["0 <= state.pos <= state.max", "state.max == len(state.line)", "indents_wf(state.indents)", "state.end_progs.n >= 0",
                  "state.lnum >= 1", "lines_left(readline) >= 0", "len(state.line) > 0"],
          "dec": "state.max - state.pos"}},
  raises=["TokenError", "IndentationError"], properties=["C03", "C08"])


TS = {"self": "obj:TokenizerState"}
for nm, kind in (("in_braces", 2), ("in_fstring", 1), ("in_colon", 3)):
    C(f"{F}:TokenizerState.{nm}", params=TS, returns="bool", pure=True, verify=False,
      why_assumed="one-line wrapper of in_mode(); mode classes are abstracted to kinds 1=ModeMiddle 2=ModeInBraces 3=ModeInColon",
      ensures=[f"result == (self.end_progs.n > 0 and self.end_progs.top.mode_kind == {kind})"], properties=["C03", "C10"])

# C03: end of input inside a string / f-string / replacement field must end the scan with TokenError (the outer loop of
# _tokenize relies on exactly this clause of handle_end_progs' contract)
C(f"{F}:handle_end_progs#eof", params=ST, generator=True,
  requires=["state.end_progs.n > 0", "state.pos == 0", "state.line == ''", "state.max == 0"],
  always_raises=True, raises=["TokenError"], properties=["C03"])
