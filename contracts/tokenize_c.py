"""Contracts for peg_parser/tokenize.py.  Stage 1: the state record, line feeding, indentation (C09: language reference
2.1.8), end-of-input tokens and the loop structure of _tokenize (C03: termination, EOF handling)."""
from engine.contract import C

F = "peg_parser/tokenize.py"
ST = {"state": "obj:TokenizerState"}

C(f"{F}:TokenizerState.move_next_line", params={"self": "obj:TokenizerState", "readline": "linesrc"},
  ensures=["self.last_line == old(self.line)", "self.lnum == old(self.lnum) + 1", "self.pos == 0", "self.max == len(self.line)"],
  modifies=["self.last_line", "self.line", "self.lnum", "self.pos", "self.max"], raises=[], properties=["C03", "C08"])

NS_REQ = ["state.pos == 0", "state.max == len(state.line)", "indents_wf(state.indents)", "state.lnum >= 1"]

C(f"{F}:next_statement", params=ST, generator=True, returns=None, requires=NS_REQ,
  ensures=[
      # blank prefix is measured; the cursor stops at the first non-blank character
      "0 <= state.pos <= state.max", "all(is_blank_char(state.line[j]) for j in range(state.pos)) or not is_none(result)",
      "indents_wf(state.indents)",
      # (C03) an exhausted input or a blank-only last line ends the scan: False is returned and nothing is yielded
      "implies(state.line == '', not is_none(result) and result == False and len(yielded) == 0)",
      # (C09) statement lines: INDENT iff the column exceeds the top of the stack, then it is pushed ...
      "implies(is_none(result) and indent_col(state.line, state.pos) > last(old(state.indents)),"
      "        len(yielded) == 1 and yielded[0].type == Token.INDENT and yielded[0].start == (state.lnum, 0) and yielded[0].end == (state.lnum, state.pos)"
      "        and len(state.indents) == len(old(state.indents)) + 1 and last(state.indents) == indent_col(state.line, state.pos))",
      # ... otherwise one zero-width DEDENT per popped level, and the new top equals the column
      "implies(is_none(result) and indent_col(state.line, state.pos) <= last(old(state.indents)),"
      "        len(yielded) == len(old(state.indents)) - len(state.indents) and last(state.indents) == indent_col(state.line, state.pos)"
      "        and all(yielded[j].type == Token.DEDENT and yielded[j].start == (state.lnum, state.pos) and yielded[j].end == (state.lnum, state.pos) for j in range(len(yielded))))",
      # comment / blank lines produce only COMMENT? NL and ask the caller to continue
      "implies(not is_none(result) and result == True, 1 <= len(yielded) <= 2 and yielded[len(yielded) - 1].type == Token.NL)",
  ],
  loops={0: {"inv": ["0 <= state.pos <= state.max", "state.max == len(state.line)", "column == indent_col(state.line, state.pos)", "column >= 0",
                     "all(is_blank_char(state.line[j]) for j in range(state.pos))"],
             "dec": "state.max - state.pos"},
         1: {"inv": ["indents_wf(state.indents)", "0 <= state.pos < state.max", "column == indent_col(state.line, state.pos)",
                     # pushed case: the loop body never runs (top == column)
                     "implies(column > last(old(state.indents)), len(state.indents) == len(old(state.indents)) + 1 and last(state.indents) == column"
                     " and len(yielded) == 1 and yielded[0].type == Token.INDENT and yielded[0].start == (state.lnum, 0) and yielded[0].end == (state.lnum, state.pos))",
                     "implies(column <= last(old(state.indents)), column <= last(state.indents))",
                     # dedent case: a prefix of the old stack remains, one zero-width DEDENT per popped level
                     "implies(column <= last(old(state.indents)), len(state.indents) <= len(old(state.indents))"
                     " and len(yielded) == len(old(state.indents)) - len(state.indents)"
                     " and all(yielded[j].type == Token.DEDENT and yielded[j].start == (state.lnum, state.pos) and yielded[j].end == (state.lnum, state.pos) for j in range(len(yielded))))"],
             "dec": "len(state.indents)"}},
  modifies=["state.pos", "state.indents"], raises=["IndentationError"], properties=["C03", "C08", "C09", "C01"])
