"""Contracts for peg_parser/tokenize.py.  Stage 1: the state record, line feeding, indentation (C09: language reference
2.1.8), end-of-input tokens and the loop structure of _tokenize (C03: termination, EOF handling)."""
from engine.contract import C

F = "peg_parser/tokenize.py"
ST = {"state": "obj:TokenizerState"}

C(f"{F}:TokenizerState.move_next_line", params={"self": "obj:TokenizerState", "readline": "linesrc"},
  ensures=["self.last_line == old(self.line)", "self.lnum == old(self.lnum) + 1", "self.pos == 0", "self.max == len(self.line)",
           # A3: a line is consumed iff one is left; '' signals the end of input
           "implies(old(lines_left(readline)) > 0, lines_left(readline) == old(lines_left(readline)) - 1 and len(self.line) > 0)",
           "implies(old(lines_left(readline)) <= 0, lines_left(readline) == old(lines_left(readline)) and self.line == '')"],
  modifies=["self.last_line", "self.line", "self.lnum", "self.pos", "self.max", "readline"], raises=[], properties=["C03", "C08"])

NS_REQ = ["state.pos == 0", "state.max == len(state.line)", "indents_wf(state.indents)", "state.lnum >= 1"]

C(f"{F}:next_statement", params=ST, generator=True, returns=None, requires=NS_REQ,
  ensures=[
      # blank prefix is measured; the cursor stops at the first non-blank character
      "0 <= state.pos <= state.max", "all(is_blank_char(state.line[j]) for j in range(state.pos)) or not is_none(result)",
      "indents_wf(state.indents)",
      # (C03) an exhausted input or a blank-only last line ends the scan: False is returned and nothing is yielded
      "implies(state.line == '', not is_none(result) and result == False and len(yielded) == 0)",
      # (C09) statement lines: INDENT iff the column exceeds the top of the stack, then it is pushed ...
      "implies(is_none(result) and indent_col(state.line, state.pos) > last(old(state.indents)),"
      "        len(yielded) == 1 and yielded[0].type == Token.INDENT and yielded[0].start == (state.lnum, 0) and yielded[0].end == (state.lnum, state.pos)"
      "        and len(state.indents) == len(old(state.indents)) + 1 and last(state.indents) == indent_col(state.line, state.pos))",
      # ... otherwise one zero-width DEDENT per popped level, and the new top equals the column
      "implies(is_none(result) and indent_col(state.line, state.pos) <= last(old(state.indents)),"
      "        len(yielded) == len(old(state.indents)) - len(state.indents) and last(state.indents) == indent_col(state.line, state.pos)"
      "        and all(yielded[j].type == Token.DEDENT and yielded[j].start == (state.lnum, state.pos) and yielded[j].end == (state.lnum, state.pos) for j in range(len(yielded))))",
      # (C02) ... and what remains is an initial part of the old stack: the column of an accepted dedent WAS an enclosing level
      "implies(is_none(result) and indent_col(state.line, state.pos) <= last(old(state.indents)),"
      "        len(state.indents) <= len(old(state.indents)) and all(state.indents[j] == old(state.indents)[j] for j in range(len(state.indents))))",
      # a comment-only line is remembered by its number (next_end_tokens: no implicit NEWLINE after it), no other line touches the mark
      "state.comment_lnum == state.lnum or state.comment_lnum == old(state.comment_lnum)",
      "implies(state.comment_lnum != old(state.comment_lnum), not is_none(result) and result == True and len(yielded) == 2 and yielded[0].type == Token.COMMENT)",
      # comment / blank lines produce only COMMENT? NL and ask the caller to continue
      "implies(not is_none(result) and result == True, 1 <= len(yielded) <= 2 and yielded[len(yielded) - 1].type == Token.NL)",
  ],
  loops={0: {"inv": ["0 <= state.pos <= state.max", "state.max == len(state.line)", "column == indent_col(state.line, state.pos)", "column >= 0",
                     "all(is_blank_char(state.line[j]) for j in range(state.pos))"],
             "dec": "state.max - state.pos"},
         1: {"inv": ["indents_wf(state.indents)", "0 <= state.pos < state.max", "column == indent_col(state.line, state.pos)",
                     # pushed case: the loop body never runs (top == column)
                     "implies(column > last(old(state.indents)), len(state.indents) == len(old(state.indents)) + 1 and last(state.indents) == column"
                     " and len(yielded) == 1 and yielded[0].type == Token.INDENT and yielded[0].start == (state.lnum, 0) and yielded[0].end == (state.lnum, state.pos))",
                     "implies(column <= last(old(state.indents)), column <= last(state.indents))",
                     "implies(column <= last(old(state.indents)), len(state.indents) <= len(old(state.indents)) and all(state.indents[j] == old(state.indents)[j] for j in range(len(state.indents))))",
                     # dedent case: a prefix of the old stack remains, one zero-width DEDENT per popped level
                     "implies(column <= last(old(state.indents)), len(state.indents) <= len(old(state.indents))"
                     " and len(yielded) == len(old(state.indents)) - len(state.indents)"
                     " and all(yielded[j].type == Token.DEDENT and yielded[j].start == (state.lnum, state.pos) and yielded[j].end == (state.lnum, state.pos) for j in range(len(yielded))))"],
             "dec": "len(state.indents)"}},
  modifies=["state.pos", "state.indents", "state.comment_lnum"], raises=["IndentationError"],
  # (C11) the error names this line, its text, and a 1-based column inside it (character index, not the tab-expanded width)
  raises_ensures=["exc.lineno == state.lnum", "exc.text == state.line", "1 <= exc.offset <= len(state.line) + 1", "exc.end_lineno == state.lnum",
                  "exc.end_offset >= exc.offset", "exc.end_offset <= len(state.line) + 1"],
  properties=["C03", "C08", "C09", "C01", "C02", "C11"])

NL_COND = "(len(state.last_line) > 0 and state.last_line[len(state.last_line) - 1] not in '\\r\\n' and state.comment_lnum != state.lnum - 1)"

C(f"{F}:next_end_tokens", params=ST, generator=True, requires=["indents_wf(state.indents)"],
  ensures=[
      # C08: implicit NEWLINE iff the last line lacks a terminator (and is not a comment line); one DEDENT per open level; one ENDMARKER, last
      f"len(yielded) == (1 if {NL_COND} else 0) + (len(state.indents) - 1) + 1",
      "yielded[len(yielded) - 1].type == Token.ENDMARKER",
      f"implies({NL_COND}, yielded[0].type == Token.NEWLINE and yielded[0].string == '' and yielded[0].start == (state.lnum - 1, len(state.last_line)))",
      f"all(yielded[j].type == Token.DEDENT for j in range((1 if {NL_COND} else 0), len(yielded) - 1))",
      "all(yielded[j].type != Token.ENDMARKER for j in range(0, len(yielded) - 1))",
  ],
  loops={0: {"inv": [f"len(yielded) == (1 if {NL_COND} else 0) + _i",
                     f"implies({NL_COND}, yielded[0].type == Token.NEWLINE and yielded[0].string == '' and yielded[0].start == (state.lnum - 1, len(state.last_line)))",
                     f"all(yielded[j].type == Token.DEDENT for j in range((1 if {NL_COND} else 0), len(yielded)))"]}},
  raises=[], properties=["C08", "C03"])


SCAN_REQ = ["0 <= state.pos <= state.max", "state.max == len(state.line)", "state.end_progs.n >= 0"]
SCAN_MOD = ["state.pos", "state.parenlev", "state.continued", "state.end_progs.n"]

C(f"{F}:_tokenize", params={"readline": "linesrc"}, generator=True,
  ensures=["len(yielded) > 0", "yielded[len(yielded) - 1].type == Token.ENDMARKER"],       # C08: the stream ends with an ENDMARKER
  loops={
      # outer loop over lines: every iteration consumes a line; at end of input the body breaks or raises (C03)
      0: {"inv": ["indents_wf(state.indents)", "state.lnum >= 0", "state.end_progs.n >= 0", "lines_left(readline) >= 0"],
          "dec": "2 * lines_left(readline) + (1 if len(state.line) > 0 else 0)",
          "havoc": ["state.pos", "state.max", "state.line", "state.last_line", "state.lnum", "state.parenlev", "state.continued",
                    "state.end_progs.n", "state.indents", "state.comment_lnum", "readline"]},
      # inner scan loop: the cursor strictly advances (this is the obligation the `pos` bug violated)
      1: {"inv": ["0 <= state.pos <= state.max", "state.max == len(state.line)", "indents_wf(state.indents)", "state.end_progs.n >= 0",
                  "state.lnum >= 1", "lines_left(readline) >= 0", "len(state.line) > 0"],
          "dec": "state.max - state.pos"}},
  raises=["TokenError", "IndentationError"], properties=["C03", "C08"])


TS = {"self": "obj:TokenizerState"}
C(f"{F}:TokenizerState.in_mode", params={**TS, "mode": "union[const:ModeMiddle|const:ModeInBraces|const:ModeInColon]"}, returns="bool", pure=True,
  requires=["self.end_progs.n >= 0"],
  ensures=["result == (self.end_progs.n > 0 and self.end_progs.top.mode_kind == mode_kind_of(mode))"], raises=[], properties=["C03", "C10"])
for nm, kind in (("in_braces", 2), ("in_fstring", 1), ("in_colon", 3)):
    C(f"{F}:TokenizerState.{nm}", params=TS, returns="bool", pure=True, requires=["self.end_progs.n >= 0"],
      ensures=[f"result == (self.end_progs.n > 0 and self.end_progs.top.mode_kind == {kind})"], raises=[], properties=["C03", "C10"])

# C03: end of input inside a string / f-string / replacement field must end the scan with TokenError (the outer loop of
# _tokenize relies on exactly this clause of handle_end_progs' contract)
C(f"{F}:handle_end_progs#eof", params=ST, generator=True,
  requires=["state.end_progs.n > 0", "state.pos == 0", "state.line == ''", "state.max == 0"],
  always_raises=True, raises=["TokenError"], properties=["C03"])


# ---------------------------------------------------------------------------------------------- stage 2: frames, patterns, f-string mode machine
# (C08 tiling of string / f-string tokens, C10 mode machine, C03 safety).  What `re` does is the ASSUMED contract in engine/pymatch.py.
EP = {"self": "obj:EndProg", "state": "obj:TokenizerState"}
LINE_OK = ["0 <= state.pos <= state.max", "state.max == len(state.line)"]
SLINE_OK = ["0 <= self.pos <= self.max", "self.max == len(self.line)"]

C(f"{F}:EndProg.join", params={**EP, "end": "int"}, requires=LINE_OK + ["state.pos <= end <= state.max"],
  ensures=["self.text == old(self.text) + state.line[state.pos:end]"], modifies=["self.text"], raises=[], properties=["C08", "C10"])

C(f"{F}:EndProg.join_line", params=EP, requires=LINE_OK,
  ensures=["self.text == old(self.text) + state.line[state.pos:]", "self.contline == old(self.contline) + state.line"],
  modifies=["self.text", "self.contline"], raises=[], properties=["C08", "C10"])

C(f"{F}:EndProg.reset", params={"self": "obj:EndProg", "start": "pos"},
  ensures=["self.start == start", "self.text == ''", "self.contline == ''"], modifies=["self.start", "self.text", "self.contline"], raises=[],
  properties=["C08", "C10"])

C(f"{F}:TokenizerState.prog_token", params={**TS, "end": "int", "tok": "int"}, returns="Tok",
  requires=SLINE_OK + ["self.pos <= end <= self.max", "self.end_progs.n > 0"],
  ensures=[
      # C08: the token carries the text buffered from earlier lines plus this line's text up to `end`, from where the frame started
      "result.type == tok", "result.string == old(self.end_progs.top.text) + self.line[old(self.pos):end]",
      "result.start == old(self.end_progs.top.start)", "result.end == (self.lnum, end)", "self.pos == end",
      "self.end_progs.top.text == result.string", "self.end_progs.n == old(self.end_progs.n)"],
  modifies=["self.pos", "self.end_progs.top.text"], raises=[], properties=["C08", "C10", "C03"])

C(f"{F}:TokenizerState.in_multi_line_string", params=TS, returns="bool", pure=True, requires=["self.end_progs.n >= 0"],
  ensures=["result == (self.end_progs.n > 0 and len(self.end_progs.top.quote) == 3)"], raises=[], properties=["C03", "C10"])

C(f"{F}:TokenizerState.at_parenlev", params=TS, returns="bool", pure=True, requires=["self.end_progs.n > 0"],
  ensures=["result == (self.end_progs.top.mode_kind != 0 and self.end_progs.top.parenlevel == self.parenlev)"], raises=[], properties=["C03", "C10"])

C(f"{F}:TokenizerState.pop_mode", params={**TS, "end": "opt[pos]=None"}, requires=["self.end_progs.n > 0"],
  ensures=["self.end_progs.n == old(self.end_progs.n) - 1", "result is old(self.end_progs.top)" if False else "self.end_progs.n >= 0",
           # the frame uncovered by the pop restarts its text buffer at `end` (C08: nothing of the closed field leaks into the next literal part)
           "implies(not is_none(end) and self.end_progs.n > 0, self.end_progs.top.start == end and self.end_progs.top.text == '' and self.end_progs.top.contline == '')"],
  modifies=["self.end_progs.n", "self.end_progs.top"], raises=[], properties=["C03", "C08", "C10"])

C(f"{F}:TokenizerState.add_prog", params={**TS, "start": "int", "end": "int", "mode": "opt[mode]=None", "pattern": "pattern=''", "quote": "str=''"},
  requires=SLINE_OK + ["0 <= start <= end <= self.max", "self.end_progs.n >= 0",
                       # frame invariant at construction: the end pattern fits the mode and the quote
                       "implies(mode_kind_of(mode) == 1, pat_kind(pattern) == 2 and pat_q(pattern) == quote and len(quote) >= 1)",
                       "implies(mode_kind_of(mode) == 3, pat_kind(pattern) == 3)",
                       "implies(mode_kind_of(mode) == 0, pat_kind(pattern) == 1 and pat_q(pattern) == quote and len(quote) >= 1)"],
  ensures=["self.end_progs.n == old(self.end_progs.n) + 1", "self.end_progs.top.text == self.line[start:end]", "self.end_progs.top.start == (self.lnum, start)",
           "self.end_progs.top.contline == ''", "self.end_progs.top.quote == quote",
           "self.end_progs.top.mode_kind == mode_kind_of(mode)", "self.end_progs.top.parenlevel == mode_level_of(mode, 0)",
           "self.end_progs.top.pat == pat_kind(pattern)", "self.end_progs.top.patq == pat_q(pattern)"],
  modifies=["self.end_progs.n", "self.end_progs.top"], raises=[], properties=["C03", "C08", "C10"])

# frame / pattern consistency of the top frame (established by the add_prog call sites, see next_psuedo_matches and handle_fstring_progs)
TOP = "state.end_progs.top"
FRAME_OK = [f"implies({TOP}.mode_kind == 1, {TOP}.pat == 2 and {TOP}.patq == {TOP}.quote and len({TOP}.quote) >= 1)",
            f"implies({TOP}.mode_kind == 3, {TOP}.pat == 3)"]
YL = "yielded[len(yielded) - 1]"

C(f"{F}:handle_fstring_progs", params={"state": "obj:TokenizerState", "endprog": "obj:EndProg"}, alias={"endprog": "state.end_progs.top"}, generator=True,
  requires=LINE_OK + ["state.end_progs.n > 0", f"{TOP}.mode_kind == 1 or {TOP}.mode_kind == 3", "state.lnum >= 1"],
  requires_assumed={f"implies({TOP}.mode_kind == 3, state.end_progs.n >= 2)":
                    "a format-spec frame always sits on the replacement-field frame that opened it (frames below the top are not modelled); "
                    "the only place that pushes one is guarded by in_braces() (obligation C10.frames.colon_on_braces)"},
  ensures=[
      "state.pos >= old(state.pos)", "state.pos <= state.max", "state.end_progs.n >= 0",
      # nothing matched: nothing happens
      "implies(state.pos == old(state.pos), len(yielded) == 0 and state.end_progs.n == old(state.end_progs.n) and same_frame(state.end_progs.top, old(state.end_progs.top)))",
      "implies(state.pos > old(state.pos), 1 <= len(yielded) <= 2)", "len(yielded) <= 2",
      # C08: the last token is the delimiter, its text is the source slice it spans, and it ends at the new cursor
      f"implies(len(yielded) >= 1, {YL}.end == (state.lnum, state.pos) and {YL}.start[0] == state.lnum and old(state.pos) <= {YL}.start[1] <= state.pos"
      f" and {YL}.string == state.line[{YL}.start[1]:state.pos])",
      f"implies(len(yielded) >= 1, ({YL}.type == Token.FSTRING_END and {YL}.string == old({TOP}.quote)) or ({YL}.type == Token.OP and ({YL}.string == '{{' or {YL}.string == '}}')))",
      # C08: the literal text before it -- buffered from earlier lines plus this line's -- is one FSTRING_MIDDLE, adjacent to the delimiter; nothing is dropped
      f"implies(len(yielded) == 2, yielded[0].type == Token.FSTRING_MIDDLE and yielded[0].string == old({TOP}.text) + state.line[old(state.pos):yielded[1].start[1]]"
      f" and yielded[0].start == old({TOP}.start) and yielded[0].end == yielded[1].start)",
      f"implies(len(yielded) == 1, old({TOP}.text) == '' and yielded[0].start == (state.lnum, old(state.pos)))",
      # C10 mode machine: quote closes the f-string, '{{' opens a replacement field frame at the new bracket depth, '}}' closes spec + field
      f"implies(len(yielded) >= 1 and {YL}.type == Token.FSTRING_END, state.end_progs.n == old(state.end_progs.n) - 1 and state.parenlev == old(state.parenlev))",
      f"implies(len(yielded) >= 1 and {YL}.type == Token.OP and {YL}.string == '{{', state.end_progs.n == old(state.end_progs.n) + 1 and state.parenlev == old(state.parenlev) + 1"
      f" and {TOP}.mode_kind == 2 and {TOP}.parenlevel == state.parenlev and {TOP}.text == '' and {TOP}.start == (state.lnum, state.pos))",
      f"implies(len(yielded) >= 1 and {YL}.type == Token.OP and {YL}.string == '}}', state.end_progs.n == old(state.end_progs.n) - 2 and state.parenlev == old(state.parenlev) - 1)",
  ],
  modifies=["state.pos", "state.parenlev", "state.end_progs.n", "state.end_progs.top", "endprog.text"], raises=[], properties=["C03", "C08", "C10"])

# C09: a single-quoted string goes on to the next line exactly when the physical line ends in backslash + LF or backslash + CRLF
C(f"{F}:TokenizerState.in_continued_string", params=TS, returns="bool", pure=True, requires=["self.end_progs.n >= 0"],
  ensures=[r"result == (self.end_progs.n > 0 and (self.line[-2:] == '\\\n' or self.line[-3:] == '\\\r\n'))"], raises=[], properties=["C03", "C09", "C10"])

FRAME_OK3 = FRAME_OK + [f"implies({TOP}.mode_kind == 0, {TOP}.pat == 1 and {TOP}.patq == {TOP}.quote and len({TOP}.quote) >= 1)"]
COLON_ON_BRACES = {f"implies({TOP}.mode_kind == 3, state.end_progs.n >= 2)":
                   "a format-spec frame always sits on the replacement-field frame that opened it (frames below the top are not modelled); "
                   "the only place that pushes one is guarded by in_braces() (obligation C10.frames.colon_on_braces)"}

C(f"{F}:handle_end_progs", params=ST, generator=True,
  requires=SCAN_REQ + ["state.lnum >= 1"],
  requires_assumed={f"implies(state.end_progs.n > 0, {k})": v for k, v in COLON_ON_BRACES.items()},
  ensures=["state.pos >= old(state.pos)", "state.pos <= state.max", "state.end_progs.n >= 0", "len(yielded) <= 2",
           # nothing pending, or inside a replacement field: this routine does nothing (the ordinary token patterns scan the expression)
           "implies(old(state.end_progs.n) == 0 or old(state.end_progs.top.mode_kind) == 2, len(yielded) == 0 and state.pos == old(state.pos) and state.end_progs.n == old(state.end_progs.n))",
           # C08, plain (non-f) string frame: either the closing quote is on this line and ONE STRING token carries everything buffered plus this line's
           # text up to and including the quote, from where the string started ...
           f"implies(old(state.end_progs.n) > 0 and old({TOP}.mode_kind) == 0 and len(yielded) > 0, len(yielded) == 1 and yielded[0].type == Token.STRING"
           f" and yielded[0].string == old({TOP}.text) + state.line[old(state.pos):state.pos] and yielded[0].start == old({TOP}.start)"
           " and yielded[0].end == (state.lnum, state.pos) and state.end_progs.n == old(state.end_progs.n) - 1)",
           # C08, f-string frames: when tokens were produced the cursor stands right after the last of them (nothing behind it was swallowed);
           # the rest of the line is looked at again by the caller
           f"implies(len(yielded) > 0, {YL}.end == (state.lnum, state.pos))",
           # ... or nothing is yielded and, if the cursor moved, the rest of the line went into the frame's buffer (no character is lost)
           f"implies(len(yielded) == 0 and state.pos > old(state.pos), state.pos == state.max and state.end_progs.n == old(state.end_progs.n)"
           f" and {TOP}.text == old({TOP}.text) + state.line[old(state.pos):])",
           ],
  raises_when={"TokenError": "state.end_progs.n > 0 and state.pos == 0 and state.line == ''"},
  modifies=SCAN_MOD + ["state.end_progs.top"], raises=["TokenError"], properties=["C03", "C08", "C10"])

C(f"{F}:next_psuedo_matches", params=ST, returns="opt[Tok]",
  requires=SCAN_REQ + ["state.lnum >= 1"], requires_assumed=dict(COLON_ON_BRACES) if False else {},
  ensures=["state.pos >= old(state.pos)", "state.pos <= state.max", "state.end_progs.n >= 0",
           "implies(not is_none(result), state.pos > old(state.pos))",
           # C08: a token returned here is the source slice from the old cursor to the new one, on this line
           "implies(not is_none(result), result.string == state.line[old(state.pos):state.pos] and result.start == (state.lnum, old(state.pos))"
           " and result.end == (state.lnum, state.pos))",
           # C08: the opening of a plain string yields nothing, but its text is carried by the new frame from where it starts
           f"implies(is_none(result) and state.end_progs.n == old(state.end_progs.n) + 1, {TOP}.mode_kind == 0 and {TOP}.text == state.line[old(state.pos):state.pos]"
           f" and {TOP}.start == (state.lnum, old(state.pos)))",
           # C10: an f-string start pushes a literal-text frame at the current bracket depth; ':' at the top level of a field pushes a spec frame
           # ... a format-spec frame starts empty, right after the ':' (nothing of the source is put into its buffer twice)
           f"implies(not is_none(result) and state.end_progs.n == old(state.end_progs.n) + 1 and {TOP}.mode_kind == 3, result.string == ':' and {TOP}.text == ''"
           f" and {TOP}.start == (state.lnum, state.pos) and {TOP}.parenlevel == state.parenlev)",
           f"implies(not is_none(result) and result.type == Token.FSTRING_START, state.end_progs.n == old(state.end_progs.n) + 1 and {TOP}.mode_kind == 1"
           f" and {TOP}.parenlevel == state.parenlev and {TOP}.text == '' and {TOP}.start == (state.lnum, state.pos))",
           ],
  modifies=SCAN_MOD + ["state.end_progs.top"], raises=["TokenError"], properties=["C03", "C08", "C10"])


# ---------------------------------------------------------------------------------------------- TokenInfo helpers
# The executor has these five methods built in (pyexec.tok_method) wherever OTHER functions call them; here their real bodies are verified to
# say exactly what the built-in model says, so the model is not an assumption.
TI = {"self": "Tok"}
C(f"{F}:TokenInfo.is_exact_type", params={**TI, "typ": "str"}, returns="bool", ensures=["result == (self.type == Token.OP and self.string == typ)"],
  raises=[], pure=True, properties=["C04", "C06", "C07"])
C(f"{F}:TokenInfo.loc_start", params=TI, ensures=["keys_are(result, 'lineno', 'col_offset')", "result['lineno'] == self.start[0] and result['col_offset'] == self.start[1]"],
  raises=[], pure=True, properties=["C04"])
C(f"{F}:TokenInfo.loc_end", params=TI, ensures=["keys_are(result, 'end_lineno', 'end_col_offset')", "result['end_lineno'] == self.end[0] and result['end_col_offset'] == self.end[1]"],
  raises=[], pure=True, properties=["C04"])
C(f"{F}:TokenInfo.loc", params=TI, ensures=["keys_are(result, 'lineno', 'col_offset', 'end_lineno', 'end_col_offset')",
                                            "result['lineno'] == self.start[0] and result['col_offset'] == self.start[1]",
                                            "result['end_lineno'] == self.end[0] and result['end_col_offset'] == self.end[1]"],
  raises=[], pure=True, properties=["C04"])
C(f"{F}:TokenInfo.is_next_to", params={**TI, "prev": "Tok"}, returns="bool", ensures=["result == (prev.end == self.start)"], raises=[], pure=True, properties=["C06"])

# the constructor: exactly the initial state the executor's built-in model of `TokenizerState()` (contracts/shapes.py) gives other functions
C(f"{F}:TokenizerState.__init__", params={"self": "obj:TokenizerState"},
  ensures=["self.lnum == 0 and self.parenlev == 0 and not self.continued and self.pos == 0 and self.max == 0 and self.comment_lnum == 0",
           "len(self.indents) == 1 and self.indents[0] == 0", "self.last_line == '' and self.line == ''", "len(self.end_progs) == 0"],
  modifies=["self.lnum", "self.parenlev", "self.continued", "self.indents", "self.last_line", "self.comment_lnum", "self.line", "self.pos", "self.max", "self.end_progs"],
  raises=[], properties=["C08", "C13"])
