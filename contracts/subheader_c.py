"""Contracts for peg_parser/subheader.py: leaves, combinators (= PEG operators, C17), wrappers (C15), parse (C02/C03),
error construction (C11), small builders.  `tk` below abbreviates self._tokenizer."""
from engine.contract import C

F = "peg_parser/subheader.py"
P = {"self": "obj:Parser"}
POK = ["tk_ok(self._tokenizer)", "can_peek(self._tokenizer)"]
TKMOD = ["self._tokenizer._index", "self._tokenizer._tokens", "self._tokenizer._tokengen", "self._tokenizer._lines",
         "self._tokenizer._stack", "self._tokenizer._call_macro", "self._tokenizer._with_macro"]
RULEMOD = TKMOD + ["self._tokenizer._abs", "self._tokenizer._proc_macro", "self._cache"]
KEEP = ["tk_ok(self._tokenizer)", "prefix_of(old(self._tokenizer._tokens), self._tokenizer._tokens)"]


def leaf(name, test, extra_params=None):
    """a leaf consumes exactly one token iff `test` holds of the token at the cursor; returns it, else None with the
    cursor unchanged (DESIGN A.3)"""
    T = "self._tokenizer._tokens[old(self._tokenizer._index)]"
    t = test.replace("TOK", T)
    C(f"{F}:Parser.{name}", params={**P, **(extra_params or {})}, returns="opt[Tok]", requires=POK,
      ensures=KEEP + [
          f"implies(not is_none(result), self._tokenizer._index == old(self._tokenizer._index) + 1 and result == {T} and ({t}))",
          f"implies(is_none(result), self._tokenizer._index == old(self._tokenizer._index) and not ({t}))",
          "old(self._tokenizer._index) < len(self._tokenizer._tokens)",
          "implies(is_none(result), can_peek(self._tokenizer))",
      ],
      modifies=TKMOD, raises=["SyntaxError"], properties=["C02", "C03", "C17"])


leaf("name", "TOK.type == Token.NAME and TOK.string not in self.KEYWORDS")
leaf("keyword", "TOK.type == Token.NAME and TOK.string in self.KEYWORDS")
leaf("soft_keyword", "TOK.type == Token.NAME and TOK.string in self.SOFT_KEYWORDS")
leaf("token", "TOK.type == Token[typ]", {"typ": "str"})
leaf("expect", "TOK.string == typ", {"typ": "str"})

C(f"{F}:Parser.any_token", params=P, returns="Tok", requires=POK,
  ensures=KEEP + ["self._tokenizer._index == old(self._tokenizer._index) + 1",
                  "result == self._tokenizer._tokens[old(self._tokenizer._index)]"],
  modifies=TKMOD, raises=["SyntaxError"], properties=["C17"])

C(f"{F}:Parser.showpeek", params=P, returns="str", requires=POK,
  ensures=KEEP + ["self._tokenizer._index == old(self._tokenizer._index)", "can_peek(self._tokenizer)"],
  modifies=[m for m in TKMOD if not m.endswith("_index")], raises=["SyntaxError"], properties=["C15"])

# ---------------------------------------------------------------------------------------------- combinators (C17)
IDX = "self._tokenizer._index"
OIDX = "old(self._tokenizer._index)"

C(f"{F}:Parser.repeated", params={**P, "func": "rulefn+"}, vararg="any", returns="seq[val]", requires=POK,
  ensures=KEEP + ["can_peek(self._tokenizer)",
                  "all(truthy(result[j]) for j in range(len(result)))",
                  f"implies(len(result) == 0, {IDX} == {OIDX})",          # e* on failure of e: nothing consumed
                  f"implies(len(result) > 0, {IDX} > {OIDX})",            # every kept iteration consumed >= 1 token
                  f"{IDX} <= len(self._tokenizer._tokens)"],
  loops={0: {"types": {"children": "seq[val]"},
             "inv": ["tk_ok(self._tokenizer)", "can_peek(self._tokenizer)", "mark == self._tokenizer._index",
                     "prefix_of(old(self._tokenizer._tokens), self._tokenizer._tokens)",
                     "all(truthy(children[j]) for j in range(len(children)))",
                     f"implies(len(children) == 0, mark == {OIDX})", f"implies(len(children) > 0, mark > {OIDX})"],
             # variant: raw tokens not yet behind the cursor (index <= cached <= pulled <= length of the finite stream, A3)
             "dec": "gen_len(self._tokenizer) - mark"}},
  modifies=RULEMOD, raises=["SyntaxError"], properties=["C03", "C17", "C18"])

for look, val in (("positive_lookahead", "truthy(result) == truthy(old_call_result)"), ("negative_lookahead", None)):
    C(f"{F}:Parser.{look}", params={**P, "func": "rulefn"}, vararg="any", returns=("val" if look.startswith("pos") else "bool"),
      requires=POK, ensures=KEEP + [f"{IDX} == {OIDX}"],      # a lookahead never consumes
      modifies=RULEMOD, raises=["SyntaxError"], properties=["C17"])

C(f"{F}:Parser.expect_forced", params={**P, "res": "opt[Tok]", "expectation": "str"}, returns="opt[Tok]",
  requires=["tk_ok(self._tokenizer)", "len(self._tokenizer._tokens) > 0 or self._tokenizer._index == 0"],
  ensures=["not is_none(result)", "not is_none(res)", "result == res"],
  raises=["SyntaxError"], modifies=TKMOD, properties=["C17", "C11"])

C(f"{F}:Parser.span", params={**P, "lnum": "int", "col": "int"}, requires=["cache_wf(self._tokenizer)", "len(self._tokenizer._tokens) > 0"],
  raises=[], pure=True, properties=["C01", "C04"])

C(f"{F}:Parser.check_version", params={**P, "min_version": "version", "error_msg": "str", "node": "val"}, returns="val",
  ensures=["result == node", "self.py_version >= min_version"], raises=["SyntaxError"],
  raises_when={"SyntaxError": "not (self.py_version >= min_version)"}, properties=["C15"])

C(f"{F}:Parser.raise_raw_syntax_error", params={**P, "message": "str", "start": "opt[pos]", "end": "opt[pos]"}, verify=False,
  why_assumed="one-line wrapper `raise self._build_syntax_error(...)`; its callee is under contract", always_raises=True,
  raises=["SyntaxError"], properties=["C02", "C03"])
