"""Contracts for peg_parser/subheader.py: leaves, combinators (= PEG operators, C17), wrappers (C15), parse (C02/C03),
error construction (C11), small builders.  `tk` below abbreviates self._tokenizer."""
from engine.contract import C

F = "peg_parser/subheader.py"
P = {"self": "obj:Parser"}
POK = ["tk_ok(self._tokenizer)", "can_peek(self._tokenizer)"]
TKMOD = ["self._tokenizer._index", "self._tokenizer._tokens", "self._tokenizer._tokengen", "self._tokenizer._lines",
         "self._tokenizer._stack", "self._tokenizer._call_macro", "self._tokenizer._with_macro"]
RULEMOD = TKMOD + ["self._tokenizer._abs", "self._tokenizer._proc_macro", "self._cache"]
KEEP = ["tk_ok(self._tokenizer)", "prefix_of(old(self._tokenizer._tokens), self._tokenizer._tokens)"]


def leaf(name, test, extra_params=None):
    """a leaf consumes exactly one token iff `test` holds of the token at the cursor; returns it, else None with the
    cursor unchanged (DESIGN A.3)"""
    T = "self._tokenizer._tokens[old(self._tokenizer._index)]"
    t = test.replace("TOK", T)
    C(f"{F}:Parser.{name}", params={**P, **(extra_params or {})}, returns="opt[Tok]", requires=POK,
      ensures=KEEP + [
          f"implies(not is_none(result), self._tokenizer._index == old(self._tokenizer._index) + 1 and result == {T} and ({t}))",
          f"implies(is_none(result), self._tokenizer._index == old(self._tokenizer._index) and not ({t}))",
          "old(self._tokenizer._index) < len(self._tokenizer._tokens)",
          "implies(is_none(result), can_peek(self._tokenizer))",
      ],
      modifies=TKMOD, raises=["SyntaxError"], properties=["C02", "C03", "C17"])


leaf("name", "TOK.type == Token.NAME and TOK.string not in self.KEYWORDS")
leaf("keyword", "TOK.type == Token.NAME and TOK.string in self.KEYWORDS")
leaf("soft_keyword", "TOK.type == Token.NAME and TOK.string in self.SOFT_KEYWORDS")
leaf("token", "TOK.type == Token[typ]", {"typ": "str"})
leaf("expect", "TOK.string == typ", {"typ": "str"})

C(f"{F}:Parser.any_token", params=P, returns="Tok", requires=POK,
  ensures=KEEP + ["self._tokenizer._index == old(self._tokenizer._index) + 1",
                  "result == self._tokenizer._tokens[old(self._tokenizer._index)]"],
  modifies=TKMOD, raises=["SyntaxError"], properties=["C17"])

C(f"{F}:Parser.showpeek", params=P, returns="str", requires=POK,
  ensures=KEEP + ["self._tokenizer._index == old(self._tokenizer._index)", "can_peek(self._tokenizer)"],
  modifies=[m for m in TKMOD if not m.endswith("_index")], raises=["SyntaxError"], properties=["C15"])

# ---------------------------------------------------------------------------------------------- combinators (C17)
IDX = "self._tokenizer._index"
OIDX = "old(self._tokenizer._index)"

C(f"{F}:Parser.repeated", params={**P, "func": "rulefn+"}, vararg="any", returns="seq[val]", requires=POK,
  ensures=KEEP + ["can_peek(self._tokenizer)",
                  "all(truthy(result[j]) for j in range(len(result)))",
                  f"implies(len(result) == 0, {IDX} == {OIDX})",          # e* on failure of e: nothing consumed
                  f"implies(len(result) > 0, {IDX} > {OIDX})",            # every kept iteration consumed >= 1 token
                  f"{IDX} <= len(self._tokenizer._tokens)"],
  loops={0: {"types": {"children": "seq[val]"},
             "inv": ["tk_ok(self._tokenizer)", "can_peek(self._tokenizer)", "mark == self._tokenizer._index",
                     "prefix_of(old(self._tokenizer._tokens), self._tokenizer._tokens)",
                     "all(truthy(children[j]) for j in range(len(children)))",
                     f"implies(len(children) == 0, mark == {OIDX})", f"implies(len(children) > 0, mark > {OIDX})"],
             # variant: raw tokens not yet behind the cursor (index <= cached <= pulled <= length of the finite stream, A3)
             "dec": "gen_len(self._tokenizer) - mark"}},
  modifies=RULEMOD, raises=["SyntaxError"], properties=["C03", "C17", "C18"])

for look, val in (("positive_lookahead", "truthy(result) == truthy(old_call_result)"), ("negative_lookahead", None)):
    C(f"{F}:Parser.{look}", params={**P, "func": "rulefn"}, vararg="any", returns=("val" if look.startswith("pos") else "bool"),
      requires=POK, ensures=KEEP + [f"{IDX} == {OIDX}"],      # a lookahead never consumes
      modifies=RULEMOD, raises=["SyntaxError"], properties=["C17"])

C(f"{F}:Parser.expect_forced", params={**P, "res": "opt[Tok]", "expectation": "str"}, returns="opt[Tok]",
  requires=["tk_ok(self._tokenizer)", "toks_wf(self._tokenizer)", "len(self._tokenizer._tokens) > 0 or self._tokenizer._index == 0"],
  ensures=["not is_none(result)", "not is_none(res)", "result == res"],
  raises=["SyntaxError"], modifies=TKMOD, properties=["C17", "C11"])

C(f"{F}:Parser.span", params={**P, "lnum": "int", "col": "int"}, requires=["cache_wf(self._tokenizer)", "len(self._tokenizer._tokens) > 0"],
  raises=[], pure=True, properties=["C01", "C04"])

C(f"{F}:Parser.check_version", params={**P, "min_version": "version", "error_msg": "str", "node": "val"}, returns="val",
  requires=["tk_ok(self._tokenizer)", "toks_wf(self._tokenizer)", "len(self._tokenizer._tokens) > 0 or self._tokenizer._index == 0"],
  ensures=["result == node", "self.py_version >= min_version"], raises=["SyntaxError"], modifies=TKMOD,
  raises_when={"SyntaxError": "not (self.py_version >= min_version)"}, properties=["C15"])

C(f"{F}:Parser.raise_raw_syntax_error", params={**P, "message": "str", "start": "opt[pos]=None", "end": "opt[pos]=None"}, verify=False,
  why_assumed="same function as raise_raw_syntax_error#body (verified there); this entry is the caller-side view", always_raises=True,
  requires=["tk_ok(self._tokenizer)", "toks_wf(self._tokenizer)", "len(self._tokenizer._tokens) > 0 or self._tokenizer._index == 0",
            "implies(not is_none(start), start[0] >= 1 and start[1] >= 0)", "implies(not is_none(end), end[0] >= 1 and end[1] >= 0)",
            "implies(not is_none(start) and not is_none(end), pos_le(start, end))", "is_none(start) == is_none(end)"],
  raises=["SyntaxError"], raises_ensures=["wf_error(exc, self)"], modifies=TKMOD, properties=["C02", "C03"])

C(f"{F}:Parser.seq_alts", params=P, vararg="seq[rulefn]", returns="val", requires=POK,
  ensures=KEEP + ["can_peek(self._tokenizer)", f"implies(not truthy(result), {IDX} == {OIDX})",   # every failed alternative is undone
                  f"implies(truthy(result), {IDX} >= {OIDX})"],
  loops={0: {"inv": ["tk_ok(self._tokenizer)", "can_peek(self._tokenizer)", f"mark == {OIDX}", f"{IDX} == mark",
                     "prefix_of(old(self._tokenizer._tokens), self._tokenizer._tokens)"]}},
  modifies=RULEMOD, raises=["SyntaxError"], properties=["C17"])

C(f"{F}:Parser.sep_repeated", params={**P, "func": "rulefn", "sep_func": "rulefn+"}, vararg="any", returns="val", requires=POK,
  ensures=KEEP + ["can_peek(self._tokenizer)", f"implies(truthy(result), {IDX} > {OIDX})"], strict_progress=True,
  modifies=RULEMOD, raises=["SyntaxError"], properties=["C17"])

C(f"{F}:Parser.gathered", params={**P, "func": "rulefn", "sep": "rulefn+"}, vararg="any", returns="opt[seq[val]]", requires=POK,
  ensures=KEEP + ["can_peek(self._tokenizer)", f"implies(is_none(result), {IDX} == {OIDX})",
                  f"implies(not is_none(result), {IDX} >= {OIDX} and len(result) >= 1)"],
  modifies=RULEMOD, raises=["SyntaxError"], properties=["C17"])

C(f"{F}:Parser.parse", params={**P, "rule": "str", "call_invalid_rules": "bool=False"}, returns="val",
  requires=POK + ["self._tokenizer._index == 0", "toks_wf(self._tokenizer)"],
  ensures=["not is_none(result)",                                   # C03: never None
           "self.call_invalid_rules == call_invalid_rules"],         # C02: a tree is only ever returned from the pass that was asked for
  modifies=RULEMOD + ["self.call_invalid_rules"], raises=["SyntaxError"], properties=["C02", "C03"])

C(f"{F}:Parser.extract_import_level", params={**P, "tokens": "seq[Tok]"}, returns="int",
  ensures=["result >= len(tokens)", "result <= 3 * len(tokens)",
           "implies(all(tokens[j].string == '.' for j in range(len(tokens))), result == len(tokens))",      # '.' counts one
           "implies(all(tokens[j].string != '.' for j in range(len(tokens))), result == 3 * len(tokens))"],  # '...' counts three
  loops={0: {"inv": ["level >= _i", "level <= 3 * _i",
                     "implies(all(tokens[j].string == '.' for j in range(_i)), level == _i)",
                     "implies(all(tokens[j].string != '.' for j in range(_i)), level == 3 * _i)"]}},
  raises=[], pure=True, properties=["C01"])

# C06: adjacency is purely positional, for tokens and for pieces built by grammar actions alike: where the previous piece ENDS
# (line and column) is where the current one STARTS
C(f"{F}:Parser.is_adjacent", params={"prev": "union[Tok|obj:PosNode]", "curr": "union[Tok|obj:PosNode]"}, returns="bool",
  ensures=["result == (node_end(prev) == node_start(curr))"], raises=[], pure=True, properties=["C04", "C05", "C06"])

# ---------------------------------------------------------------------------------------------- wrappers (C15, C17, C18)
WCL = {"method": "rulefn", "method_name": "str"}
OBS = ["self._tokenizer._index", "self._cache", "self._level", "self.in_recursive_rule", "self.call_invalid_rules",
       "self._tokenizer._abs"]
KEYP = "old(self._tokenizer._index)"

CACHE_OK = "cache_ok(self._cache, self._tokenizer)"

C(f"{F}:memoize.memoize_wrapper", params=P, vararg="any", closure=WCL, returns="val", requires=POK + [CACHE_OK],
  ensures=KEEP + ["can_peek(self._tokenizer)", CACHE_OK, "self._level == old(self._level)",
                  f"cache_has(self._cache, {KEYP})",                                   # packrat: the entry exists afterwards ...
                  f"cache_end(self._cache, {KEYP}) == {IDX}",                          # ... and records where the rule stopped
                  f"result == cache_tree(self._cache, {KEYP})",
                  # a hit replays the stored outcome without running the method (observational transparency, C17/C18)
                  f"implies(old(cache_has(self._cache, self._tokenizer._index)), result == old(cache_tree(self._cache, self._tokenizer._index))"
                  f" and {IDX} == old(cache_end(self._cache, self._tokenizer._index)) and self._tokenizer._abs == old(self._tokenizer._abs))"],
  modifies=RULEMOD + ["self._level"], raises=["SyntaxError"], properties=["C15", "C17", "C18"])

C(f"{F}:memoize.memoize_wrapper#product", params=P, vararg="any", closure=WCL, returns="val",
  requires=POK + [CACHE_OK],
  product={"on": "self._verbose", "observe": OBS}, properties=["C15"])

C(f"{F}:logger.logger_wrapper", params=P, vararg="any", closure=WCL, returns="val", requires=POK,
  ensures=KEEP + ["self._level == old(self._level)"], modifies=RULEMOD + ["self._level"], raises=["SyntaxError"], properties=["C15"])

C(f"{F}:logger.logger_wrapper#product", params=P, vararg="any", closure=WCL, returns="val", requires=POK,
  product={"on": "self._verbose", "observe": OBS}, properties=["C15"])

LR_OK = "lr_cache_ok(self._cache)"
LR_INV = ["tk_ok(self._tokenizer)", "can_peek(self._tokenizer)", CACHE_OK, LR_OK,
          "prefix_of(old(self._tokenizer._tokens), self._tokenizer._tokens)",
          f"mark == {KEYP}", "0 <= mark <= lastmark", "lastmark <= len(self._tokenizer._tokens)",
          "lastmark < len(self._tokenizer._tokens) or not em_cached(self._tokenizer)",
          "cache_has(self._cache, mark)", "cache_end(self._cache, mark) == lastmark", "cache_tree(self._cache, mark) == lastresult",
          "implies(truthy(lastresult), lastmark > mark) or lastmark == mark",
          "implies(lastmark == mark, not truthy(lastresult))",
          "self.in_recursive_rule == old(self.in_recursive_rule)",
          "self._level == old(self._level) + (1 if self._verbose else 0)", "verbose == self._verbose"]

C(f"{F}:memoize_left_rec.memoize_left_rec_wrapper", params=P, closure=WCL, returns="val", requires=POK + [CACHE_OK, LR_OK],
  rulefn_preserves=[LR_OK],
  ensures=KEEP + ["can_peek(self._tokenizer)", CACHE_OK, LR_OK, "self._level == old(self._level)",
                  "self.in_recursive_rule == old(self.in_recursive_rule)",
                  f"cache_has(self._cache, {KEYP})", f"result == cache_tree(self._cache, {KEYP})",
                  f"implies(truthy(result), {IDX} == cache_end(self._cache, {KEYP}))",
                  f"implies(not truthy(result), {IDX} == {OIDX})",          # a failed left-recursive rule restores the cursor
                  f"{IDX} >= {OIDX}"],
  loops={0: {"types": {"lastresult": "val"}, "inv": LR_INV,
             # seed growing: every kept iteration ends strictly further right, and ends are bounded by the finite stream
             "dec": "gen_len(self._tokenizer) - lastmark"}},
  modifies=RULEMOD + ["self._level", "self.in_recursive_rule"], raises=["SyntaxError"], properties=["C01", "C03", "C15", "C17", "C18"])

C(f"{F}:memoize_left_rec.memoize_left_rec_wrapper#product", params=P, closure=WCL, returns="val",
  # entries of a left-recursive rule that record a failure end where they start (established by the wrapper's own writes)
  requires=POK + [CACHE_OK, LR_OK], rulefn_preserves=[LR_OK],
  loops={0: {"types": {"lastresult": "val"}, "inv": LR_INV, "dec": "gen_len(self._tokenizer) - lastmark"}},
  product={"on": "self._verbose", "observe": OBS,
           "related": ["self._tokenizer._index", "self._tokenizer._abs", "self._cache", "self.in_recursive_rule", "lastresult", "lastmark"]},
  properties=["C15"])

# ---------------------------------------------------------------------------------------------- error construction (C11)
TKW = ["tk_ok(self._tokenizer)", "toks_wf(self._tokenizer)", "len(self._tokenizer._tokens) > 0 or self._tokenizer._index == 0"]
POSOK = lambda v: f"implies(not is_none({v}), {v}[0] >= 1 and {v}[1] >= 0)"     # noqa: E731
WF = "wf_error(exc, self)"

C(f"{F}:Parser._build_syntax_error", params={**P, "message": "str", "start": "opt[pos]=None", "end": "opt[pos]=None"}, returns="obj:SyntaxError",
  requires=TKW + [POSOK("start"), POSOK("end"), "implies(not is_none(start) and not is_none(end), pos_le(start, end))",
                  # one-sided calls take the missing side from the last token read: the given side must be ordered w.r.t. it (call sites pass both or none)
                  "is_none(start) == is_none(end)"],
  ensures=["wf_error(result, self)", "result.msg == message",
           "implies(not is_none(start), result.lineno == start[0] and result.offset == start[1] + 1)",
           "implies(not is_none(end), result.end_lineno == end[0] and result.end_offset == end[1] + 1)"],
  modifies=TKMOD, raises=["SyntaxError"], properties=["C11"])

NODE = "union[Tok|obj:PosNode]"
ERRMOD = TKMOD

C(f"{F}:Parser.raise_raw_syntax_error#body", params={**P, "message": "str", "start": "opt[pos]=None", "end": "opt[pos]=None"},
  requires=TKW + [POSOK("start"), POSOK("end"), "implies(not is_none(start) and not is_none(end), pos_le(start, end))", "is_none(start) == is_none(end)"],
  always_raises=True, raises=["SyntaxError"], raises_ensures=[WF], modifies=ERRMOD, properties=["C11", "C03"])

C(f"{F}:Parser.make_syntax_error", params={**P, "message": "str"}, returns="obj:SyntaxError", requires=TKW,
  ensures=["wf_error(result, self)"], modifies=ERRMOD, raises=["SyntaxError"], properties=["C11"])

C(f"{F}:Parser.raise_syntax_error", params={**P, "message": "str"}, requires=TKW, always_raises=True, raises=["SyntaxError"],
  raises_ensures=[WF], modifies=ERRMOD, properties=["C11"])

# C11 "points into the offending source": the error carries the message given and starts where the node / token starts (1-based column)
ERR_AT = lambda n: f"exc.lineno == node_start({n})[0] and exc.offset == node_start({n})[1] + 1"
C(f"{F}:Parser.raise_syntax_error_known_location", params={**P, "message": "str", "node": NODE}, requires=TKW + ["node_wf(node)"],
  always_raises=True, raises=["SyntaxError"], raises_ensures=[WF, "exc.msg == message", ERR_AT("node")], modifies=ERRMOD, properties=["C11"])

C(f"{F}:Parser.raise_syntax_error_known_range", params={**P, "message": "str", "start_node": NODE, "end_node": NODE},
  requires=TKW + ["node_wf(start_node)", "node_wf(end_node)",
                  # the range is ordered: the first node starts no later than the second one ends (obligation of every call site)
                  "pos_le(node_start(start_node), node_end(end_node))"],
  always_raises=True, raises=["SyntaxError"], raises_ensures=[WF, "exc.msg == message", ERR_AT("start_node"),
                                                              "exc.end_lineno == node_end(end_node)[0] and exc.end_offset == node_end(end_node)[1] + 1"],
  modifies=ERRMOD, properties=["C11"])

C(f"{F}:Parser.raise_syntax_error_starting_from", params={**P, "message": "str", "start_node": NODE},
  requires=TKW + ["node_wf(start_node)", "len(self._tokenizer._tokens) > 0",
                  "pos_le(node_start(start_node), last(self._tokenizer._tokens).start)"],
  always_raises=True, raises=["SyntaxError"], raises_ensures=[WF], modifies=ERRMOD, properties=["C11"])

C(f"{F}:Parser.raise_syntax_error_on_next_token", params={**P, "message": "str"}, requires=POK + ["toks_wf(self._tokenizer)"],
  always_raises=True, raises=["SyntaxError"], raises_ensures=[WF], modifies=ERRMOD, properties=["C11"])

C(f"{F}:Parser.raise_indentation_error", params={**P, "msg": "str"}, requires=TKW, always_raises=True, raises=["IndentationError"],
  raises_ensures=[WF], modifies=ERRMOD, properties=["C11"])

C(f"{F}:Parser.expect_forced#wf", params={**P, "res": "opt[Tok]", "expectation": "str"}, returns="opt[Tok]", requires=TKW,
  raises=["SyntaxError"], raises_ensures=[WF], modifies=ERRMOD, properties=["C11"])

C(f"{F}:Parser.check_version#wf", params={**P, "min_version": "version", "error_msg": "str", "node": "val"}, returns="val", requires=TKW,
  raises=["SyntaxError"], raises_ensures=[WF], modifies=ERRMOD, properties=["C11"])

# ---------------------------------------------------------------------------------------------- subprocess argument pieces (C04, C06)
PIECE = "union[Tok|obj:ast.Starred|obj:PosNode]"
TREE = "union[obj:ast.Constant|obj:ast.Starred|obj:ast.Tuple|obj:PosNode]"
C(f"{F}:Parser._append_node_or_token", params={"self": "obj:Parser", "tree": f"opt[{TREE}]", "cmd": PIECE},
  returns="union[obj:ast.Constant|obj:ast.Tuple|obj:PosNode]", returns_same={"is_none(tree) and not isinstance(cmd, TokenInfo)": "cmd"},
  ensures=[
      # C04/C06: the merged piece spans from where the pieces so far START to where the new piece ENDS (line and column), whatever kinds they are
      "node_end(result) == node_end(cmd)",
      "implies(not is_none(tree), node_start(result) == node_start(tree))", "implies(is_none(tree), node_start(result) == node_start(cmd))",
      # C06: adjacent plain words are one string argument: the text of the second is appended to the first
      "implies(not is_none(tree) and isinstance(tree, ast.Constant) and isinstance(cmd, TokenInfo), isinstance(result, ast.Constant) and result.value == tree.value + cmd.string)",
      "implies(is_none(tree) and isinstance(cmd, TokenInfo), isinstance(result, ast.Constant) and result.value == cmd.string)",
      "implies(is_none(tree) and not isinstance(cmd, TokenInfo), result is cmd)",
  ], raises=[], pure=True, properties=["C04", "C06"])

# ---------------------------------------------------------------------------------------------- literal values (C01, C11)
# the value is what ast.literal_eval gives the token's text; an error OF THE LITERAL (bad escape, non-ASCII bytes, ...) is re-raised as a
# located error of this parser at the token (C11) -- literal_eval's own exception, whose coordinates are relative to the text, never escapes
C(f"{F}:Parser.literal_eval", params={"self": "obj:Parser", "token": "Tok"}, returns="lit",
  requires=TKW + ["tok_wf(token)"],
  ensures=["lit_val(result) == le_val(token.string)", "lit_isbytes(result) == le_isbytes(token.string)", "lit_numkind(result) == le_numkind(token.string)", *TKW],
  raises=["SyntaxError"], may_raise=["SyntaxError"], raises_ensures=[WF, ERR_AT("token")], modifies=ERRMOD, properties=["C01", "C11", "C03"])

# the two halves of a complex literal in a match pattern (`case 1+2j`): the real part must be an int / float literal, the imaginary one a complex
for _nm, _kind, _what in (("ensure_real", 1, "real"), ("ensure_imaginary", 2, "imaginary")):
    C(f"{F}:Parser.{_nm}", params={"self": "obj:Parser", "number": "Tok"}, returns="lit", requires=TKW + ["tok_wf(number)"],
      ensures=[f"le_numkind(number.string) == {_kind}", "lit_val(result) == le_val(number.string)"],
      raises=["SyntaxError"], raises_ensures=[WF, ERR_AT("number")], modifies=ERRMOD, properties=["C02", "C11"])

# ---------------------------------------------------------------------------------------------- implicit concatenation of plain literals (C01, C02)
MIX = "any(le_isbytes(parts[j].string) != le_isbytes(parts[0].string) for j in range(1, len(parts)))"
C(f"{F}:Parser._concat_strings_in_constant", params={"self": "obj:Parser", "parts": "seq[Tok]"}, returns="obj:ast.Constant#lit",
  requires=TKW + ["len(parts) >= 1", "all(tok_wf(parts[j]) for j in range(len(parts)))"],
  requires_assumed={"pos_le(parts[0].start, parts[len(parts) - 1].end)": "C08: tokens appear in non-decreasing position order",
                    "all(le_numkind(parts[j].string) == 0 for j in range(len(parts)))": "C09: the text of a STRING token is a str / bytes literal (not a number)"},
  witness={MIX: {"j": "1 + _i"}}, modifies=ERRMOD,
  loops={0: {"inv": TKW + ["lit_isbytes(s) == le_isbytes(parts[0].string)", "all(le_isbytes(parts[j].string) == le_isbytes(parts[0].string) for j in range(1, 1 + _i))",
                     "lit_val(s) == lit_fold(parts, 1 + _i)", "implies(1 + _i < len(parts), tok_wf(parts[1 + _i]))", "lit_numkind(s) == 0",
                     "implies(1 + _i < len(parts), le_numkind(parts[1 + _i].string) == 0)"],
             "types": {"s": "lit", "part": "lit", "ss": "Tok"}}},
  ensures=[
      # C01: one Constant spanning from the first literal's start to the last literal's end ...
      "isinstance(result, ast.Constant)", "node_start(result) == parts[0].start", "node_end(result) == parts[len(parts) - 1].end",
      # ... whose value is the left-to-right concatenation of the evaluated pieces (every piece, in order, exactly once) ...
      "lit_val(result.value) == lit_fold(parts, len(parts))", "lit_isbytes(result.value) == le_isbytes(parts[0].string)",
      # (the tokenizer is only touched on the raising path)
      *TKW,
      # ... and whose `kind` is 'u' exactly when the FIRST literal carries the u prefix (CPython's rule)
      "has_field(result, 'kind') == parts[0].string.startswith('u')", "implies(parts[0].string.startswith('u'), result.kind == 'u')",
      # C02: str and bytes pieces are never mixed in an accepted literal
      f"not ({MIX})",
  ],
  raises=["SyntaxError"], raises_ensures=[WF], properties=["C01", "C02", "C10", "C11"])

# ---------------------------------------------------------------------------------------------- xonsh expression builders (C05): the tree IS the documented translation
LOCS = {"lineno": "int", "col_offset": "int", "end_lineno": "int", "end_col_offset": "int"}
LOCARGS = "lineno, col_offset, end_lineno, end_col_offset"
INL = ["xonsh_call", "load_attribute_chain"]

# an expression handed to a builder: of any class (the classes some builder tells apart, and "any other node")
EXPR = "union[obj:ast.Constant|obj:ast.Starred|obj:ast.Tuple|obj:ast.Name|obj:PosNode]"

C(f"{F}:Parser.expand_env_name", params={"self": "obj:Parser", "name": "Tok", "ctx": "opt[union[const:Load|const:Store]]=None", **LOCS}, inline=INL,
  ensures=["implies(is_none(old(ctx)), is_translation(result, '__xonsh__.env[S0]', name.string))",
           # as a binding target (ctx given): the same subscript with that context
           "isinstance(result, ast.Subscript) and is_translation(result.value, '__xonsh__.env') and is_translation(result.slice, 'S0', name.string)",
           "implies(not is_none(old(ctx)), result.ctx is old(ctx))",
           f"all_located(result, {LOCARGS})"],
  raises=[], pure=True, properties=["C05"])

C(f"{F}:Parser.expand_env_expr", params={"self": "obj:Parser", "slices": EXPR, "ctx": "opt[union[const:Load|const:Store]]=None", **LOCS}, inline=INL,
  ensures=["implies(is_none(old(ctx)), is_translation(result, '__xonsh__.env[str(H0)]', slices))",
           "isinstance(result, ast.Subscript) and is_translation(result.value, '__xonsh__.env') and is_translation(result.slice, 'str(H0)', slices)",
           "implies(not is_none(old(ctx)), result.ctx is old(ctx))", f"all_located(result, {LOCARGS}, slices)"],
  raises=[], pure=True, properties=["C05"])

C(f"{F}:Parser.expand_search_path", params={"self": "obj:Parser", "a": "Tok", **LOCS}, inline=INL,
  ensures=["is_translation(result, '__xonsh__.pathsearch(S0)', a.string)", f"all_located(result, {LOCARGS})"], raises=[], pure=True, properties=["C05"])

C(f"{F}:Parser.proc_pyexpr", params={"self": "obj:Parser", "expr": EXPR, **LOCS}, inline=INL,
  ensures=["isinstance(result, ast.Starred) and is_translation(result.value, '__xonsh__.list_of_strs_or_callables(H0)', expr)", f"all_located(result, {LOCARGS}, expr)"],
  raises=[], pure=True, properties=["C05", "C06"])

# subprocess operators: `$(..)`, `$[..]`, `!(..)`, `![..]` are calls of the four documented entry points on the grouped arguments (A0: the list as given)
METHODS = "subproc_captured|subproc_uncaptured|subproc_captured_object|subproc_captured_hiddenobject"
C(f"{F}:Parser.handle_proc", params={"self": "obj:Parser", "method": f"oneof[{METHODS}]", "args": "seq[val]", **LOCS}, inline=INL,
  ensures=[f"implies(method == '{m}', is_translation(result, '__xonsh__.{m}(*A0)', args))" for m in METHODS.split("|")] + [f"all_located(result, {LOCARGS}, args)"],
  raises=[], pure=True, properties=["C05", "C06"])
C(f"{F}:Parser.proc_inject", params={"self": "obj:Parser", "args": "seq[val]", **LOCS}, inline=INL,
  ensures=["isinstance(result, ast.Starred) and is_translation(result.value, '__xonsh__.subproc_captured_inject(*A0)', args)", "result.ctx is Load", f"all_located(result, {LOCARGS}, args)"],
  raises=[], pure=True, properties=["C05", "C06"])

# macros: the raw text of every argument / of the block is handed over as a string Constant placed AT that text, with globals() and locals()
C(f"{F}:Parser.macro_call", params={"self": "obj:Parser", "a": EXPR, "b": "seq[Tok]", **LOCS}, inline=INL,
  ensures=["is_translation(result, '__xonsh__.call_macro(H0, (*_,), globals(), locals())', a)",
           # one string per argument, in order, none dropped or added; each carries the argument's own text and position
           "len(result.args[1].elts) == len(b)",
           "all(isinstance(result.args[1].elts[j], ast.Constant) and result.args[1].elts[j].value == b[j].string for j in range(len(b)))",
           "all(node_start(result.args[1].elts[j]) == b[j].start and node_end(result.args[1].elts[j]) == b[j].end for j in range(len(b)))",
           f"all_located(result, {LOCARGS}, a, result.args[1].elts)",
           # the macro scan is over: the tokenizer is back in normal mode for what follows
           "self._tokenizer._call_macro == False"],
  modifies=["self._tokenizer._call_macro"], raises=[], properties=["C05", "C07", "C12", "C14"])

C(f"{F}:Parser.handle_with_macro_stmt", params={"self": "obj:Parser", "a": "obj:ast.withitem", "b": "Tok", **LOCS}, inline=INL,
  ensures=["isinstance(result, ast.With) and len(result.items) == 1 and result.items[0] is a",
           "is_translation(a.context_expr, '__xonsh__.enter_macro(H0, S1, globals(), locals())', old(a.context_expr), b.string)",
           "node_start(a.context_expr.args[1]) == b.start and node_end(a.context_expr.args[1]) == b.end",
           "len(result.body) == 1 and isinstance(result.body[0], ast.Pass)",
           f"all_located(result, {LOCARGS}, old(a.context_expr), a.context_expr.args[1])",
           "self._tokenizer._with_macro == False"],
  modifies=["self._tokenizer._with_macro", "a.context_expr"], raises=[], properties=["C05", "C07", "C12", "C14"])

# entering a macro: the flag the tokenizer reads for its NEXT token is raised, the node goes through untouched
for _nm, _flag, _ty in (("handle_func_macro_start", "_call_macro", "obj:PosNode"), ("handle_with_macro_start", "_with_macro", "obj:ast.withitem"), ("handle_proc_macro_start", "_proc_macro", "Tok")):
    C(f"{F}:Parser.{_nm}", params={"self": "obj:Parser", "a": _ty}, ensures=["result is a" if _ty != "Tok" else "result == a", f"self._tokenizer.{_flag} == True"],
      modifies=[f"self._tokenizer.{_flag}"], raises=[], properties=["C07", "C12", "C14"])

# `$(cmd! raw text)`: one string Constant starting right after the `!`; the scan flag is lowered (the text itself: stand-in of C07)
C(f"{F}:Parser.proc_macro_arg", params={"self": "obj:Parser", "a": "seq[val]", **LOCS},
  ensures=["isinstance(result, ast.Constant)", "result.lineno == lineno and result.col_offset == old(col_offset) + 1 and result.end_lineno == end_lineno and result.end_col_offset == end_col_offset",
           "self._tokenizer._proc_macro == False"],
  modifies=["self._tokenizer._proc_macro"], raises=[], properties=["C07", "C12", "C14"])

C(f"{F}:Parser.set_expr_context", params={"self": "obj:Parser", "node": "union[obj:ast.Starred|obj:ast.Tuple|obj:ast.Name|obj:PosNode]", "context": "union[const:Load|const:Store|const:Del]"},
  ensures=["result is node", "node.ctx is context"], modifies=["node.ctx"], raises=[], properties=["C04"])

# `a?` / `a??` (and the chain `a?.b?`): a call of __xonsh__.help / superhelp spanning from the first atom to the last question mark(s)
HELP_FN = lambda k, nm: f"(atoms[{k}][1].is_exact_type('??')) == {nm == 'superhelp'}"
C(f"{F}:Parser.expand_help", params={"self": "obj:Parser", "atoms": "objseq[(obj:ast.Name, Tok)]"}, inline=INL,
  loops={0: {"types": {"node": "opt[obj:ast.Call#help]"},
             "inv": ["implies(_i == 0, is_none(node))", "implies(_i > 0, not is_none(node))",
                     "implies(_i > 0 and atoms[_i - 1][1].is_exact_type('??'), is_translation(node.func, '__xonsh__.superhelp'))",
                     "implies(_i > 0 and not atoms[_i - 1][1].is_exact_type('??'), is_translation(node.func, '__xonsh__.help'))",
                     "implies(_i > 0, node_start(node) == node_start(atoms[0][0]) and node_end(node) == atoms[_i - 1][1].end)",
                     "implies(_i > 0, all_located(node.func, node.lineno, node.col_offset, node.end_lineno, node.end_col_offset))",
                     "implies(_i == 1, node.args[0] is atoms[0][0])",
                     "implies(_i > 1, isinstance(node.args[0], ast.Attribute) and node.args[0].attr == atoms[_i - 1][0].id and node_start(node.args[0]) == node_start(node) and node_end(node.args[0]) == node_end(node))"]}},
  ensures=["implies(len(atoms) == 0, is_none(result))", "implies(len(atoms) > 0, not is_none(result))",
           # the documented translations of the two operators
           "implies(len(atoms) == 1 and not atoms[0][1].is_exact_type('??'), is_translation(result, '__xonsh__.help(H0)', atoms[0][0]))",
           "implies(len(atoms) == 1 and atoms[0][1].is_exact_type('??'), is_translation(result, '__xonsh__.superhelp(H0)', atoms[0][0]))",
           # chains: the outermost call is the LAST operator's, applied to `<previous>.name`; it spans the whole chain
           "implies(len(atoms) > 1 and atoms[len(atoms) - 1][1].is_exact_type('??'), is_translation(result.func, '__xonsh__.superhelp'))",
           "implies(len(atoms) > 1 and not atoms[len(atoms) - 1][1].is_exact_type('??'), is_translation(result.func, '__xonsh__.help'))",
           "implies(len(atoms) > 1, isinstance(result.args[0], ast.Attribute) and result.args[0].attr == atoms[len(atoms) - 1][0].id)",
           "implies(len(atoms) > 0, node_start(result) == node_start(atoms[0][0]) and node_end(result) == atoms[len(atoms) - 1][1].end)"],
  raises=[], pure=True, properties=["C05", "C04"])


# ---------------------------------------------------------------------------------------------- grouping of subprocess pieces (C06)
# brk(args, j): piece j does not start where piece j-1 ends.  runs(args, i) / run_begin(args, i): number of maximal runs of adjacent pieces among
# the first i pieces / index where the run of piece i-1 begins (recursive definitions in contracts/shapes.py).  The ghost `yield_at(y)` is the
# loop index at the moment y was yielded (len(args) for the final one): run number k is closed by the break at that index.
AT = "yield_at(yielded[k])"
RUNK = (f"0 <= run_begin(args, {AT}) and run_begin(args, {AT}) < {AT} and runs(args, {AT}) == k + 1"
        f" and node_start(yielded[k]) == node_start(args[run_begin(args, {AT})]) and node_end(yielded[k]) == node_end(args[{AT} - 1])")
C(f"{F}:Parser._proc_args", params={"self": "obj:Parser", "args": f"objseq[{PIECE}]"}, generator=True, yields="node",
  loops={0: {"types": {"stash": f"opt[{TREE}]"},
             "inv": ["implies(_i == 0, is_none(stash))", "implies(_i > 0, not is_none(stash))",
                     "implies(_i > 0, 0 <= run_begin(args, _i) and run_begin(args, _i) < _i)",
                     "implies(_i > 0, node_end(stash) == node_end(args[_i - 1]) and node_start(stash) == node_start(args[run_begin(args, _i)]))",
                     "implies(_i > 0, len(yielded) == runs(args, _i) - 1)", "implies(_i == 0, len(yielded) == 0)",
                     f"all(1 <= {AT} and {AT} < _i and brk(args, {AT}) and {RUNK} for k in range(len(yielded)))"]}},
  ensures=[
      # as many arguments as there are maximal runs of adjacent pieces: pieces are merged exactly when they touch
      "len(yielded) == runs(args, len(args))",
      # argument k spans its run: from the start of the run's first piece to the end of its last one; the run ends at a break or at the end
      f"all(1 <= {AT} and {AT} <= len(args) and ({AT} == len(args) or brk(args, {AT})) and {RUNK} for k in range(len(yielded)))",
  ], raises=[], pure=True, properties=["C06", "C04"])

# the list handed to the subprocess builders is exactly what the grouping generator yields
_R = lambda t: t.replace("yielded", "result")
C(f"{F}:Parser.proc_args", params={"self": "obj:Parser", "args": f"objseq[{PIECE}]"},
  ensures=["len(result) == runs(args, len(args))",
           _R(f"all(1 <= {AT} and {AT} <= len(args) and ({AT} == len(args) or brk(args, {AT})) and {RUNK} for k in range(len(yielded)))")],
  raises=[], pure=True, properties=["C06"])

# ---------------------------------------------------------------------------------------------- path literals: the p of a string prefix (C01, C05, C14)
C(f"{F}:Parser._strip_path_prefix", params={"token": "union[Tok|obj:PosNode]"}, returns="opt[Tok]",
  ensures=["implies(not isinstance(token, TokenInfo), is_none(result))",
           # a token: stripped exactly when its prefix has a p; everything but the text (type, positions, line) is kept
           "implies(isinstance(token, TokenInfo), is_none(result) == (not has_p_prefix(token.string)))",
           "implies(not is_none(result), result.string == strip_p(token.string) and result.type == token.type and result.start == token.start "
           "and result.end == token.end and result.line == token.line)"],
  raises=[], pure=True, properties=["C01", "C05", "C14"])

SPART = "union[Tok|obj:ast.JoinedStr]"
HASJ = lambda n: f"any(isinstance(old(parts)[j], ast.JoinedStr) for j in range({n}))"
WRAP = ("((isinstance(old(parts)[0], TokenInfo) and has_p_prefix(tok_of(old(parts)[0]).string))"
        " or (not is_none(old(self._path_token)) and any(old(parts)[j] is old(self._path_owner) for j in range(len(parts)))))")
C(f"{F}:Parser.concatenate_strings", params={"self": "obj:Parser#strings", "parts": f"objseq[{SPART}]"}, inline=INL,
  requires=TKW + ["len(parts) >= 1", "all(node_wf(parts[j]) for j in range(len(parts)))"],
  requires_assumed={"pos_le(node_start(parts[0]), node_end(parts[len(parts) - 1]))": "C08: the parts appear in source order"},
  opaque=["consolidated", "p"], opaque_loops={1: {"via": "consolidated", "over": "values", "writes": ["value", "end_lineno", "end_col_offset"]}},
  loops={0: {"types": {"ss": "seq[Tok]", "values": "abslist[obj:StrPart]", "seen_joined": "bool"},
             "inv": TKW + [
                 "seen_joined == any(isinstance(parts[j], ast.JoinedStr) for j in range(_i))",
                 "all(tok_wf(ss[j]) for j in range(len(ss)))",
                 "implies(len(ss) > 0, _i > 0 and isinstance(parts[_i - 1], TokenInfo) and ss[len(ss) - 1] == tok_of(parts[_i - 1]))",
                 "implies(_i > 0 and isinstance(parts[_i - 1], TokenInfo), len(ss) > 0)",
                 "implies(_i > 0 and isinstance(parts[0], TokenInfo) and len(values) > 0, node_start(values[0]) == tok_of(parts[0]).start)",
                 "implies(_i > 0 and isinstance(parts[0], TokenInfo) and len(values) == 0, len(ss) > 0 and ss[0].start == tok_of(parts[0]).start)",
                 "implies(not seen_joined, len(values) == 0 and len(ss) == _i)",
                 "implies(_i > 0 and not isinstance(parts[_i - 1], TokenInfo), seen_joined)"]}},
  ensures=[
      # C14: a pending p prefix (one of these parts owns it) or a p-prefixed first literal is consumed here, and nothing of it is left behind
      f"implies({WRAP}, is_translation(result, '__xonsh__.path_literal(H0)', result.args[0]) and is_none(self._path_token) and is_none(self._path_owner))",
      f"implies(not {WRAP}, not isinstance(result, ast.Call) and self._path_token == old(self._path_token) and self._path_owner is old(self._path_owner))",
      # C01/C10: the literal spans from the first part's start to the last part's end, and is one Constant exactly when no part is an f-string
      f"implies({WRAP}, node_start(result.args[0]) == node_start(old(parts)[0]) and node_end(result.args[0]) == node_end(old(parts)[len(parts) - 1]))",
      f"implies(not {WRAP}, node_start(result) == node_start(old(parts)[0]) and node_end(result) == node_end(old(parts)[len(parts) - 1]))",
      f"implies({WRAP}, isinstance(result.args[0], ast.Constant) == (not {HASJ('len(parts)')}))",
      f"implies(not {WRAP}, isinstance(result, ast.Constant) == (not {HASJ('len(parts)')}))",
      f"implies(not {WRAP} and {HASJ('len(parts)')}, isinstance(result, ast.JoinedStr))",
  ],
  raises=["SyntaxError"], modifies=ERRMOD + ["self._path_token", "self._path_owner"], properties=["C01", "C10", "C14"])

# the f-string builder: one JoinedStr over exactly the parts matched, at the construct's positions; a p in the prefix is remembered TOGETHER with
# the node it belongs to (concatenate_strings consumes it only for that node: C14)
FPARTS = "objseq[union[obj:ast.Constant#sv|obj:ast.FormattedValue#fs]]"
C(f"{F}:Parser._decode_fstring_parts", params={"self": "obj:Parser#strings", "parts": FPARTS},
  requires=TKW + ["parts_wf(parts)"],
  # WHAT the text decodes to (re.sub with a callback, the completed backslash) is not modelled: `text` is opaque; the decoding itself is C10's stand-in
  opaque=["text", "m"],
  loops={0: {"inv": TKW}},
  # an escape that does not decode is reported AT the part (C11), never with literal_eval's own coordinates; nothing else is raised
  ensures=[*TKW], raises=["SyntaxError"], raises_ensures=[WF], modifies=ERRMOD, properties=["C10", "C11"])
C(f"{F}:Parser.handle_fstring", params={"self": "obj:Parser#strings", "a": "Tok", "b": FPARTS, **LOCS}, requires=TKW + ["parts_wf(b)"],
  ensures=["isinstance(result, ast.JoinedStr) and result.values is b", f"all_located(result, {LOCARGS}, b)",
           "implies(has_p_prefix(a.string), not is_none(self._path_token) and self._path_token.string == strip_p(a.string) and self._path_token.start == a.start "
           "and self._path_token.end == a.end and self._path_owner is result)",
           "implies(not has_p_prefix(a.string), self._path_token == old(self._path_token) and self._path_owner is old(self._path_owner))"],
  raises=["SyntaxError"], raises_ensures=[WF], modifies=ERRMOD + ["self._path_token", "self._path_owner"], properties=["C10", "C14", "C05"])

# ---------------------------------------------------------------------------------------------- parameter lists (C04): what compile() checks of ast.arguments
PD = "objseq[(obj:ast.arg, opt[obj:AnyNode])]"
C(f"{F}:Parser.make_arguments", params={"self": "obj:Parser", "pos_only": "opt[objseq[(obj:ast.arg, none)]]", "pos_only_with_default": PD,
                                         "param_no_default": "opt[objseq[obj:ast.arg]]", "param_default": f"opt[{PD}]",
                                         "after_star": f"opt[(opt[obj:ast.arg], {PD}, opt[obj:ast.arg])]"},
  # every call site passes either no `/`-parameters without default or no `/`-parameters with default (obligation C04.callsite.make_arguments)
  requires=["is_none(pos_only) or len(pos_only_with_default) == 0"],
  ensures=["isinstance(result, ast.arguments)",
           # one default slot per keyword-only parameter (None where it has none) ...
           "len(result.kw_defaults) == len(result.kwonlyargs)",
           # ... and never more positional defaults than positional parameters
           "len(result.defaults) <= len(result.posonlyargs) + len(result.args)",
           "implies(not is_none(pos_only) and len(pos_only) > 0, len(result.posonlyargs) == len(pos_only))",
           "implies(is_none(pos_only) or len(pos_only) == 0, len(result.posonlyargs) == len(pos_only_with_default))",
           "implies(not is_none(after_star), result.vararg is after_star[0] and result.kwarg is after_star[2] and len(result.kwonlyargs) == len(after_star[1]))",
           "implies(is_none(after_star), is_none(result.vararg) and is_none(result.kwarg) and len(result.kwonlyargs) == 0)"],
  raises=[], pure=True, properties=["C04", "C01"])

# comparison chains `a < b <= c`: the operators and the right operands of the (operator, operand) pairs, in order, none dropped (C01)
PAIRS = "objseq[(obj:AnyNode, obj:PosNode)]"
C(f"{F}:Parser.get_comparison_ops", params={"self": "obj:Parser", "pairs": PAIRS},
  ensures=["len(result) == len(pairs)", "all(result[j] is pairs[j][0] for j in range(len(pairs)))"], raises=[], pure=True, properties=["C01", "C04"])
C(f"{F}:Parser.get_comparators", params={"self": "obj:Parser", "pairs": PAIRS},
  ensures=["len(result) == len(pairs)", "all(result[j] is pairs[j][1] for j in range(len(pairs)))"], raises=[], pure=True, properties=["C01", "C04"])
C(f"{F}:Parser.set_decorators", params={"self": "obj:Parser", "target": "obj:PosNode", "decorators": "objseq[obj:PosNode]"},
  ensures=["result is target", "len(target.decorator_list) == len(decorators)", "all(target.decorator_list[j] is decorators[j] for j in range(len(decorators)))"],
  raises=[], modifies=["target.decorator_list"], properties=["C01", "C04"])

# f-string conversions `!s` `!r` `!a`: the node's conversion code is the character's code; anything else is a located error (C10, C11)
C(f"{F}:Parser.check_fstring_conversion", params={"self": "obj:Parser", "name": "Tok"}, returns="int", requires=TKW + ["tok_wf(name)"],
  ensures=["(name.string == 's' and result == 115) or (name.string == 'r' and result == 114) or (name.string == 'a' and result == 97)"],
  raises=["SyntaxError"], raises_ensures=[WF, ERR_AT("name")], modifies=ERRMOD, properties=["C10", "C11", "C02"])

# ---------------------------------------------------------------------------------------------- "cannot assign to / delete X" (C02, C11, C03)
TNODE = "opt[union[obj:ast.List#t|obj:ast.Tuple#t|obj:ast.Starred#t|obj:ast.Compare#t|obj:ast.Name|obj:ast.Subscript#t|obj:ast.Attribute#t|obj:PosNode]]"
TGT = ["1 <= target and target <= 3"]            # Target.FOR_TARGETS / STAR_TARGETS / DEL_TARGETS (enum.auto(): 1, 2, 3)
C(f"{F}:Parser.get_invalid_target", params={"self": "obj:Parser", "target": "int", "node": TNODE},
  returns="opt[union[obj:ast.Starred#t|obj:ast.Compare#t|obj:ast.List#t|obj:ast.Tuple#t|obj:PosNode]]",
  requires=TGT + ["tree_wf(node)"],
  loops={0: {"types": {"inv": "opt[obj:PosNode]"}, "inv": []}},
  ensures=[
      # what is handed to the error constructor is a node of the tree, with well-formed positions
      "is_none(result) or (tree_wf(result) and node_wf(result))",
      "implies(is_none(node), is_none(result))",
      # names, subscripts and attributes are valid targets; a starred target can be assigned to but not deleted
      "implies(isinstance(node, (ast.Name, ast.Subscript, ast.Attribute)), is_none(result))",
      "implies(isinstance(node, ast.Starred) and target == 3, result is node)"],
  raises=[], pure=True, properties=["C02", "C11", "C03"])
C(f"{F}:Parser.get_expr_name", params={"self": "obj:Parser", "node": "obj:PosNode"}, returns="str", verify=False,
  why_assumed="dictionary keyed by node classes (type(node)); that it has a name for every expression class - no ValueError - is the lemma C03.expr_names.total "
              "on the real table",
  ensures=[], raises=[], pure=True, properties=["C03"])
C(f"{F}:Parser.raise_syntax_error_invalid_target", params={"self": "obj:Parser", "target": "int", "node": TNODE},
  requires=TKW + TGT + ["tree_wf(node)"],
  # the error points at the node the search singled out (the local `invalid_target`), not at the whole target
  ensures=["is_none(result)"], raises=["SyntaxError"], raises_ensures=[WF, ERR_AT("invalid_target")], modifies=ERRMOD, properties=["C02", "C11", "C03"])

# the constructor: an empty memo cache, first pass (invalid rules off), no pending path prefix, and never a target version above the running one
C(f"{F}:Parser.__init__", params={"self": "obj:Parser#strings", "tokenizer": "obj:Tokenizer", "verbose": "bool", "filename": "str", "py_version": "opt[version]"},
  ensures=["self._tokenizer is tokenizer", "self._level == 0 and self.in_recursive_rule == 0 and not self.call_invalid_rules",
           "is_none(self._path_token) and is_none(self._path_owner)", "self.filename == filename and self._verbose == verbose",
           "self.py_version <= sys.version_info",
           "implies(not is_none(py_version) and py_version <= sys.version_info, self.py_version == py_version)"],
  modifies=["self._tokenizer", "self._verbose", "self._level", "self._cache", "self.in_recursive_rule", "self._path_token", "self._path_owner", "self._mark", "self._reset",
            "self.call_invalid_rules", "self.filename", "self.py_version"],
  raises=[], properties=["C15", "C13"])
