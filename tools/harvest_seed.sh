#!/bin/bash
# usage: tools/harvest_seed.sh <Cxx> [<suffix>]   -- verifies a sub-agent's seeded change and stores it under /verif/seeded/
set -u
ID=$1; SUF=${2:-}
SRC=/tmp/seed/$ID$SUF
DST=/verif/seeded/$ID$SUF
V=/tmp/seedv/$ID$SUF
mkdir -p $DST /tmp/seedv
git -C $SRC diff > $DST/patch.diff
cp $SRC/seed_demo.py $DST/seed_demo.py 2>/dev/null
cp $SRC/seed_meta.json $DST/agent_meta.json 2>/dev/null
[ -s $DST/patch.diff ] || { echo "EMPTY PATCH"; exit 1; }
git -C /repo worktree remove --force $V 2>/dev/null
git -C /repo worktree add -q --detach $V HEAD || exit 1
cp $DST/seed_demo.py $V/
( cd $V && PYTHONPATH=$V timeout 600 /venv/bin/python seed_demo.py > $DST/demo_without.txt 2>&1 ); RC0=$?
git -C $V apply $DST/patch.diff || { echo "PATCH DOES NOT APPLY"; git -C /repo worktree remove --force $V; exit 1; }
( cd $V && PYTHONPATH=$V timeout 600 /venv/bin/python seed_demo.py > $DST/demo_with.txt 2>&1 ); RC1=$?
( cd $V && PYTHONPATH=$V timeout 1200 /venv/bin/python -m pytest -q -p no:cacheprovider --timeout=900 2>&1 | tail -1 > $DST/tests_with.txt )
TESTS=$(cat $DST/tests_with.txt)
git -C /repo worktree remove --force $V
python3 - "$ID$SUF" "$RC0" "$RC1" "$TESTS" <<'PY'
import json,sys,os
sid,rc0,rc1,tests=sys.argv[1:5]
d=f"/verif/seeded/{sid}"
try: am=json.load(open(f"{d}/agent_meta.json"))
except Exception: am={}
meta={"id":sid,"property":am.get("property",sid[:3]),"summary":am.get("summary"),"needs_to_manifest":am.get("needs_to_manifest"),
 "files_changed":am.get("files_changed"),
 "verified":{"demo_exit_without_change":int(rc0),"demo_exit_with_change":int(rc1),"tests_with_change":tests,
   "how":"fresh worktree of /repo HEAD under /tmp/seedv; seed_demo.py run before and after `git apply patch.diff`; full pytest run with the change; worktree removed"},
 "base_commit":os.popen("git -C /repo rev-parse HEAD").read().strip(),
 "caught_by":None}
json.dump(meta,open(f"{d}/meta.json","w"),indent=1)
ok = rc0=="0" and rc1=="1" and " passed" in tests and " failed" not in tests
print(sid,"demo without:",rc0,"with:",rc1,"tests:",tests,"=>","KEEP" if ok else "REJECT")
PY
