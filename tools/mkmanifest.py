#!/usr/bin/env python3
"""Regenerates MANIFEST.json from the table below (kept next to the checks so it cannot drift)."""
import json
import os

V = os.path.dirname(os.path.dirname(os.path.abspath(__file__)))
props = [json.loads(l) for l in open(os.path.join(V, "properties.jsonl"))]

CHECKS = {
    "C16": dict(
        engine="pegir",
        category="proof",
        text="Every method of both shipped generated modules is proved (structural unification of the method's extracted IR with the grammar "
             "rule parsed by the repository's own pegen: decorator, alternatives, items, cut, gating, action, helper rules up to renaming) to be "
             "the PEG meaning of its rule, for all token strings; the generation step itself is run into a scratch file and compared member by "
             "member (complete for the finite quantifier over the two shipped pairs under the hash seeds used: 1 quick / 8 thorough).",
        design_ref="DESIGN.md 5/C16, 3.3",
        note="trusted: CPython ast, the repository's pegen front end as grammar reader, our extractor+matcher; assumed: seed independence "
             "beyond the exercised seeds rests on set-iteration determinism obligations; ruff formatting not run (comparison on ast).",
        technique="contract `implements(R)` per generated method discharged by structural unification + concrete regeneration replay",
    ),
}

NOT_APPLICABLE_REASON = "not built yet (DESIGN.md section 8 build order); no claim is made"

manifest = {
    "version": 1,
    "setup_cmd": "python3-vt -c \"import z3, sys; print('z3', z3.get_version_string())\" && /venv/bin/python -c \"import peg_parser.parser\"",
    "hooks": {
        "guard": "XONSH_PARSER_VERIF",
        "enable": "no hooks in /repo: contracts are sidecars under /verif/contracts keyed by qualified name; run-time wrappers are monkey-patched",
        "baseline_off_cmd": "cd /repo && /venv/bin/python -m pytest -q -p no:cacheprovider --timeout=900",
        "source_commits": [],
        "add_only": True,
    },
    "engines": [
        {"name": "pegir", "path": "engine/pegir.py, engine/implements.py", "serves_properties": ["C16"],
         "kind_free_text": "mechanical IR extraction of the generated parser methods + structural decision procedures"},
    ],
    "checks": [],
    "notes": "Contract-based deductive verification with sidecar contracts; see DESIGN.md. Exit codes: 0 held / 1 violation / 2 undecided / 3 checker crash.",
    "not_applicable": [],
}
for p in props:
    pid = p["id"]
    c = CHECKS.get(pid)
    if not c:
        manifest["not_applicable"].append({"property_id": pid, "reason": NOT_APPLICABLE_REASON})
        continue
    manifest["checks"].append({
        "property_id": pid,
        "quick_cmd": f"python3-vt checks/check.py {pid} --tier quick",
        "thorough_cmd": f"python3-vt checks/check.py {pid} --tier thorough",
        "evidence_file": f"/verif/evidence/{pid}.json",
        "replay_cmd_template": f"python3-vt checks/check.py {pid} --replay {{path}}",
        "engine": c["engine"],
        "level_claimed": {"category": c["category"], "text": c["text"], "design_ref": c["design_ref"]},
        "level_note": c["note"],
        "technique": c["technique"],
    })
json.dump(manifest, open(os.path.join(V, "MANIFEST.json"), "w"), indent=1)
print("checks:", [c["property_id"] for c in manifest["checks"]])
