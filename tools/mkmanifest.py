#!/usr/bin/env python3
"""Regenerates MANIFEST.json from the table below (kept next to the checks so it cannot drift)."""
import json
import os

V = os.path.dirname(os.path.dirname(os.path.abspath(__file__)))
props = [json.loads(l) for l in open(os.path.join(V, "properties.jsonl"))]

CHECKS = {
    "C16": dict(
        engine="pegir",
        category="proof",
        text="Every method of both shipped generated modules is proved (structural unification of the method's extracted IR with the grammar "
             "rule parsed by the repository's own pegen: decorator, alternatives, items, cut, gating, action, helper rules up to renaming) to be "
             "the PEG meaning of its rule, for all token strings; the generation step itself is run into a scratch file and compared member by "
             "member (complete for the finite quantifier over the two shipped pairs under the hash seeds used: 1 quick / 8 thorough).",
        design_ref="DESIGN.md 5/C16, 3.3",
        note="trusted: CPython ast, the repository's pegen front end as grammar reader, our extractor+matcher. Seed independence beyond the exercised "
             "seeds: every order-sensitive consumer of a set on the generator path is inventoried (engine/setorder.py, simple type inference) and must "
             "be in an audited table with the reason the order cannot reach the output; a new site fails. ruff formatting not run (comparison on ast).",
        technique="contract `implements(R)` per generated method discharged by structural unification + concrete regeneration replay",
    ),
}

CHECKS["C15"] = dict(
    engine="pyvc", category="proof",
    text="Relational (two-run) obligations verbose=True vs False are generated from the real bodies of memoize_wrapper, memoize_left_rec_wrapper "
         "(seed-growing loop coupled by a relational loop invariant) and logger_wrapper and discharged by z3 for all inputs; check_version's contract "
         "(returns its node iff py_version >= min_version, raises only otherwise), its three call sites and the read-frame of py_version/_verbose are "
         "checked; a bounded product of sources x options stands in for the end-to-end statement.",
    design_ref="DESIGN.md 5/C15, 3.2",
    note="assumed: rule-like callables are deterministic in (cursor, abstract state, memo cache) and independent of tokens pulled ahead and of "
         "_level; exceptions from rule methods propagate identically; A1 encoding of Python semantics; bounded stand-in never counted as proved.",
    technique="product-program (relational) contracts on the real wrappers, VCs from ast, discharged by z3/cvc5",
)
CHECKS["C17"] = dict(
    engine="pyvc+pegir", category="proof",
    text="The run-time combinators the generated code calls are proved against their PEG meaning from their real bodies (loop invariants, variants, "
         "frames: ~1000 VCs by z3), and every method of the two shipped generated parsers is proved to be the PEG meaning of its grammar rule "
         "(structural unification). For ALL grammars the claim is only sampled: seeded random grammars are run through the real generator and each "
         "instance is then proved by `implements`; generator analyses are compared with an independent fixpoint.",
    design_ref="DESIGN.md 5/C17",
    note="the universal quantifier over grammars is bounded (60 quick / 600 thorough instances, seeded); seed-growing's full equivalence with "
         "left-recursive PEG semantics assumed (Warth et al.); matcher is our own decision procedure (trusted).",
    technique="contracts on runtime combinators discharged by SMT + per-instance `implements` obligations",
)
CHECKS["C18"] = dict(
    engine="pegir", category="proof",
    text="Memoisation discipline 'no compounding re-entry' proved on the first- and second-pass call graphs of the real generated parser (one "
         "obligation per un-memoised rule), strict progress of every repeated/gathered callee; this yields a polynomial bound for all inputs. The "
         "linear bound itself and continuation re-exploration are only measured: work at n and 2n on 55 size-parameterised valid/invalid families.",
    design_ref="DESIGN.md 5/C18",
    note="cost model assumption: a memoised method evaluated again at a position is a lookup; linearity not proved (bounded stand-in only); one "
         "known finding (nested subprocess openers with a wrong closer).",
    technique="call-graph contract (re-entry multiplicity) decided by own fixpoint procedure + measured doubling stand-in",
)

CHECKS["C01"] = dict(
    engine="gramref+pyvc", category="proof",
    text="Rule-by-rule refinement of CPython's own grammar (verbatim 3.11 python.gram as specification): every shared rule has CPython's alternatives in "
         "order, every extra alternative is gated by a xonsh-only lexeme, and ~80 grammar actions are proved to build the node CPython builds "
         "(constructor, field binding, operator class, ctx); span meaning (last non-layout token), token filtering and the left-recursion wrapper are "
         "proved from the real function bodies by z3; so are the string builders (E1): _concat_strings_in_constant folds the evaluated pieces left to "
         "right into one Constant spanning first..last piece, rejects str/bytes mixes, kind 'u' from the first piece; concatenate_strings returns one "
         "Constant exactly when no part is an f-string, otherwise a JoinedStr, spanning first part start .. last part end. Whole-pipeline tree equality "
         "with ast.parse is a bounded stand-in (programs x layout variants).",
    design_ref="DESIGN.md 5/C01, 3.5, 9.8",
    note="assumed: 3.12 delta rules (PEP 695/701), helper-laden reference actions not compared, seed-growing = left-recursive PEG semantics, "
         "token-stream agreement (C09); syntactic unification; ast.literal_eval modelled as an uninterpreted evaluation of each piece; the contents of a "
         "JoinedStr's values after merging adjacent Constants are not specified (opaque loop); bounded stand-in never counted as proved.",
    technique="refinement contracts against CPython's grammar (structural unification) + E1 VCs (z3) on span/filter functions",
)
CHECKS["C02"] = dict(
    engine="gramref+pegir+pyvc", category="proof",
    text="Parser.parse is proved (VCs from its real body) to return only what the requested pass returned and never None, so a failed first pass "
         "always raises; first-pass acceptance on Python-lexicon input equals the reference grammar's by rule refinement plus L2 gating of every "
         "extra alternative; start rules demand ENDMARKER, no rule matches ERRORTOKEN, every grammar literal is an operator/identifier. Verdict "
         "agreement with ast.parse on ~23k token strings/mutations/prefixes is a bounded stand-in.",
    design_ref="DESIGN.md 5/C02",
    note="assumed: 3.12 delta rules; expect() compares strings regardless of token type (FSTRING_MIDDLE/MACRO_PARAM argument not machine-checked); "
         "lexemes the C tokenizer rejects for its own reasons.",
    technique="contract on Parser.parse (z3) + refinement/gating obligations on the generated parser's IR",
)
CHECKS["C03"] = dict(
    engine="pyvc+pegir", category="proof",
    text="Termination: z3 ranking certificate for same-index calls of all rules reachable from the entry points (left-recursive leaders cut at their "
         "primed cache), strict progress at every repeated/gathered site, loop variants of the tokenizer's line and scan loops, of seed growing, of "
         "get_last_non_whitespace_token, next_statement. Exception safety: every subscript/next()/assert/unpacking/None-attribute in ~45 functions "
         "under contract has a discharged safety VC and only allowed exception classes escape; EOF inside a string/f-string raises TokenError; "
         "ENDMARKER discipline (never_past_end). Prefix/mutation/character-soup fuzz is the bounded stand-in.",
    design_ref="DESIGN.md 5/C03",
    note="not modelled: recursion/memory limits (known finding), functions without contract (the with-macro raw capture, builders "
         "not yet under contract) are covered by the stand-in only; three known findings listed in known_findings.json.",
    technique="VC generation from real function bodies (safety, variants, raises) discharged by z3/cvc5 + call-graph ranking",
)
CHECKS["C08"] = dict(
    engine="pyvc+rx", category="proof",
    text="Per-function postconditions on the real tokenize.py, all verified from the bodies: next_statement (INDENT spans the measured blank prefix, "
         "zero-width DEDENTs, strictly increasing indent stack), next_end_tokens (implicit NEWLINE rule, DEDENT count, single final ENDMARKER), "
         "_tokenize (cursor invariants, ends with ENDMARKER), and the string / f-string stage: prog_token, add_prog, pop_mode, EndProg methods, "
         "handle_fstring_progs (buffered literal text + this line's text is one FSTRING_MIDDLE adjacent to the delimiter token, nothing dropped), "
         "handle_end_progs (closing quote -> one STRING token with everything buffered, else the rest of the line is buffered; cursor right after the last "
         "token), next_psuedo_matches (token == source slice old cursor..new cursor). Regex lemmas tie the assumed Match contract to the real patterns. "
         "Tiling reconstruction on an input product is the bounded stand-in.",
    design_ref="DESIGN.md 5/C08, 9.2",
    note="ASSUMED: what `re` does (contract of TokenizerState.match, engine/pymatch.py); frames below the top of end_progs are not modelled (frame "
         "invariant with syntactic side conditions C10.frames.*); the composition of the per-function clauses into whole-stream tiling is argued. "
         "Three known findings (unterminated single-quote strings, multi-line format spec).",
    technique="E1 postconditions/invariants on every tokenizer function incl. the f-string mode machine (z3) + E3 regex lemmas (z3 regex solver)",
)
CHECKS["C09"] = dict(
    engine="rx+pyvc", category="proof",
    text="Lexeme languages of the real tokenizer patterns are proved equal to the running CPython's stdlib reference patterns (textual identity or z3 "
         "regex equivalence: Number, Name, Comment, Whitespace, four string-end patterns), OPS = CPython's operators + exactly the documented xonsh "
         "ones, longest-operator-first order, extra string prefixes all contain p, first-character disjointness of reordered alternatives; indentation "
         "arithmetic (tab stops of 8, form feed reset) is proved from next_statement's body against the language reference. Token-stream equality with "
         "tokenize.generate_tokens on ~4000 atom products x layouts is the bounded stand-in.",
    design_ref="DESIGN.md 5/C09, 3.4",
    note="assumed: re.match contract, regex priorities only where patterns are textually the reference, alphabet quotient for \\w, the C tokenizer "
         "behaves as the stdlib reference patterns (A7).",
    technique="regex-language obligations (z3 ReSort) on the real pattern strings + E1 contract on next_statement",
)

CHECKS["C04"] = dict(
    engine="pegir+pyvc", category="proof",
    text="Every action of every rule reachable from the entry points is type-checked against the ASDL of the running CPython by an abstract interpreter "
         "over the extracted IR (rule result types as least fixpoint): keywords are fields, required fields and position attributes supplied, lists where "
         "`*`, None only where `?`, node categories, Store/Del/Load contexts; alternatives using LOCATIONS consume a token first. The builders' bodies are "
         "verified (E1): every node they build carries the construct's positions, declared result shapes, make_arguments yields one default slot per "
         "keyword-only parameter and never more positional defaults than parameters (for lists of any length). compile() on every "
         "tree of a Python+xonsh pool (constructs x contexts) is the bounded stand-in that also validates our reading of PyAST_Validate.",
    design_ref="DESIGN.md 5/C04, 3.3",
    note="assumed: transcription of compile()'s structural rules; declared result types of subheader builders; fields whose value has unknown abstract "
         "type are counted unchecked; the semantic-rejection clause only via stand-in.",
    technique="typing contracts type(R) on the generated parser's IR (abstract interpretation, own checker) + E1 postconditions on the builders (z3)",
)
CHECKS["C11"] = dict(
    engine="pyvc+pegir", category="proof",
    text="wf_error (message, file name, line >= 1, 1-based column, end >= start, 6-element args) is proved as postcondition of _build_syntax_error and "
         "of every raise_* helper, expect_forced, make_syntax_error, check_version from their real bodies (z3), with token well-formedness preserved by "
         "Tokenizer.peek; get_lines never raises; every explicit raise site on the parse path is enumerated; raise_* call sites in the generated parser "
         "pass tokens or positioned nodes; errors of a literal itself are re-raised at the token by Parser.literal_eval (E1: literal_eval's own exception, "
         "whose coordinates are relative to the literal's text, never escapes); get_lines reads the file as it is now. Field-by-field validation of every "
         "error raised on a mutation pool, and of file-mode errors after the same path was re-written, is the bounded stand-in.",
    design_ref="DESIGN.md 5/C11",
    note="assumed: token positions well-formed for the raw stream (contract of _tokenize), ordered ranges at known_range/starting_from call sites; "
         "what an escape in f-string text decodes TO is not modelled (that a failing decode is reported at the part is proved).",
    technique="E1 postconditions on error constructors (z3) + raise-site enumeration",
)
CHECKS["C12"] = dict(
    engine="frames+pyvc", category="proof",
    text="The two entry points are shown (structural comparison of their real bodies) to run the same pipeline with the same options, differing only in "
         "line source and path/filename; every open() passes encoding='utf-8' (ambient-read obligation); get_lines is proved total in both modes and "
         "peek caches a line for every token pulled. Child interpreters under three locale/UTF-8-mode environments x newline conventions x "
         "ASCII/non-ASCII x valid/invalid contents are the bounded stand-in.",
    design_ref="DESIGN.md 5/C12",
    note="assumed: universal-newline translation of open() vs StringIO (CRLF/CR), tokenizer reads only readline (C13), PEP 263 cookies out of scope.",
    technique="relational frame obligations on the entry points + E1 contracts on get_lines/peek",
)
CHECKS["C13"] = dict(
    engine="frames", category="proof",
    text="Frame/ownership obligations for all ~470 functions and methods on the parse path (hand-written modules and every generated method): no store or "
         "mutating call on module-level objects or class attributes, no global/nonlocal, no ambient nondeterminism, memoising decorators only on the "
         "audited _compile; the hash-order iteration of the prefix set is shown order-independent. Non-interference (determinism, history freedom, "
         "thread safety) follows by a standard argument; permuted histories and 8 threads are the bounded stand-in.",
    design_ref="DESIGN.md 5/C13, 3.6",
    note="syntactic effect analysis (blind to aliasing through containers); lru_cache/re cache transparency assumed; corollary argued in prose.",
    technique="frame (modifies) contracts checked by syntactic effect analysis of the real sources",
)
CHECKS["C14"] = dict(
    engine="pegir+frames", category="proof",
    text="Lemmas proved on the real parser/runtime: macro-flag protocol (each alternative that sets a flag ends in the builder that clears it; flags and "
         "_path_token written nowhere else), `fstring` only reachable through `strings`/concatenate_strings, L4 barrier (no expression-level rule consumes "
         "NEWLINE/INDENT/DEDENT/ENDMARKER), continuation keywords not in first(statement), in_recursive_rule restored (E1). Pairs and triples from a "
         "statement pool are the bounded stand-in for the composed statement.",
    design_ref="DESIGN.md 5/C14",
    note="assumed: tokenizer neutrality at top-level NEWLINE; concatenate_strings / handle_fstring are verified (E1): a pending p prefix is consumed "
         "exactly by the concatenation that contains its owner node and both fields are None afterwards; "
         "composition argued in prose; one known finding (with-macro followed by blank/comment line).",
    technique="protocol/frame/barrier obligations on the generated parser's IR",
)

CHECKS["C05"] = dict(
    engine="pegir+rx+pyvc", category="proof",
    text="Routing obligations on the real generated parser: every xonsh expression rule returns its builder's value unchanged; the xonsh alternatives of "
         "primary/atom/target_with_star_atom come where no earlier alternative can succeed on a xonsh opener (first-set disjointness) or before the "
         "alternative they extend (help before atom); '||'/'&&' reach the same action as 'or'/'and'; binding targets of assignment/for/with/"
         "comprehension all go through star_target(s) where `$NAME`/`${e}` are Store alternatives. The builders are verified from their real bodies "
         "(E1, helpers xonsh_call/load_attribute_chain executed inline): the tree returned by expand_env_name/expand_env_expr/expand_search_path/"
         "proc_pyexpr/handle_proc/proc_inject/macro_call/handle_with_macro_stmt/expand_help IS CPython's parse of the documented translation text, with "
         "the given context and the construct's positions on every built node. The SEARCH_PATH pattern is proved equal to the documented backtick "
         "form (z3 regex). 14 constructs x 40 contexts against ast.parse of the written-out translation is the bounded stand-in.",
    design_ref="DESIGN.md 5/C05, 9.8",
    note="Assumed: C01 for the written-out translation; first sets ignore lookaheads; elements of list arguments are pairwise distinct objects; for "
         "help chains `a?.b?` only the outermost call, the attribute name and the span are specified (not the full nesting).",
    technique="routing/ordering contracts on the generated parser's IR + E1 postconditions `tree == parse(translation)` on the builder bodies (z3) + regex-language obligation",
)
CHECKS["C06"] = dict(
    engine="pegir+pyvc", category="proof",
    text="Bracket form -> runtime method table of sub_procs, `@(`/`@$(` builders and proc_cmds = proc_args(proc_cmd+) proved on the extracted IR of the "
         "real parser; adjacency is proved positional (Parser.is_adjacent <=> prev.end == curr.start, E1) and WS tokens are dropped by "
         "Tokenizer.is_blank outside subprocess macros (E1). The grouping loop is verified from its real body for lists of any length (E1, ~1250 VCs, "
         "loop invariant over recursive spec functions): Parser._proc_args yields one argument per maximal run of adjacent pieces, each spanning its "
         "run, a run ending exactly at a break or at the end; _append_node_or_token keeps start/end and appends the text of plain words; proc_args "
         "returns that list; handle_proc/proc_inject hand it unchanged to the table's method. Command lines of <= 3 words from a 36-word pool x "
         "spacing x gluing vs an independent whitespace splitter is the bounded stand-in.",
    design_ref="DESIGN.md 5/C06, 9.8",
    note="Assumed: tokens tile the source (C08); pieces that are nodes are modelled by class and positions; list elements are distinct objects. "
         "Python keywords as command words are outside the domain.",
    technique="table/routing contracts on the parser IR + E1 loop invariants/postconditions on the grouping loop, is_adjacent, is_blank (z3)",
)
CHECKS["C07"] = dict(
    engine="pegir+pyvc", category="proof",
    text="Tokenizer.consume_macro_params (the call-macro raw-capture loop) is verified from its real body (z3): the text it returns is the "
         "concatenation, in order, of every raw token pulled before the delimiter (loop invariant over the ghost token stream), spans first.start..last.end, "
         "the delimiter is a real `,`/`)` operator token, `)` is handed back and ends raw capture; consume_with_macro_params is verified as to control "
         "flow, flags, span and WHAT it captures per token (whole source lines in the block form, the line from the token on in the one-line form); Tokenizer.peek routes to the capture routine exactly when its flag is set and appends the result unfiltered; is_blank "
         "keeps WS tokens under _proc_macro; Parser.macro_call/handle_with_macro_stmt/proc_macro_arg build one string Constant per captured text, in "
         "order, at the text's own position, and lower the flag (E1); flag protocol and routing of MACRO_PARAM strings on the parser IR. ~950 macro "
         "uses vs an independent bracket/string-aware splitter are the bounded stand-in (bracket protection of commas and the with-macro block text "
         "are covered only there).",
    design_ref="DESIGN.md 5/C07",
    note="ASSUMED: four ghost preconditions of consume_macro_params that its call site in peek() cannot establish (stream not exhausted while the "
         "flag is set, empty push-back stack, non-empty operator lexemes, ordered token positions) - listed in the evidence; how "
         "consume_with_macro_params assembles the captured pieces (per-line dict, re.findall, textwrap.dedent) is not modelled.",
    technique="E1 loop invariants/postconditions on the real raw-capture loops and macro builders (z3) + protocol/routing contracts on the parser IR",
)
CHECKS["C10"] = dict(
    engine="gramref+pegir+pyvc", category="proof",
    text="The seven f-string grammar rules are proved to have CPython 3.12's alternatives in order (refinement against a transcription of the 3.12 "
         "rules), their actions to build Constant / FormattedValue / JoinedStr from exactly the matched items, `fstring` to be reachable only through "
         "`strings` (concatenate_strings), check_fstring_conversion and the mode-frame queries to meet their contracts (E1); handle_fstring and "
         "concatenate_strings are verified from their bodies (one JoinedStr over the matched parts, span first part .. last part, p-prefix bookkeeping). The literal-text search "
         "patterns are checked exhaustively on short strings with the real `re` (bounded). ~29000 f-strings (prefix x quote x literal x field x layout) "
         "against tokenize/ast.parse of the running CPython are the bounded stand-in; five whole input classes are known findings.",
    design_ref="DESIGN.md 5/C10",
    note="ASSUMED: hand transcription of CPython 3.12's f-string rules; what `re` does (Match contract); what escapes in f-string text decode to (opaque in the contract of _decode_fstring_parts) and the merging of adjacent Constants inside "
         "concatenate_strings (opaque loop: inner spans/values only by the stand-in). "
         "The mode machine (handle_fstring_progs, handle_end_progs, next_psuedo_matches, frame methods) IS verified from its bodies (E1). Known findings: "
         "doubled braces, '=' debug fields, \\N{...}, non-ASCII columns, multi-line format spec.",
    technique="grammar refinement + action contracts on the parser IR, E1 contracts on the f-string mode machine (z3)",
)

NOT_APPLICABLE_REASON = "not built yet (DESIGN.md section 8 build order); no claim is made"

manifest = {
    "version": 1,
    "setup_cmd": "python3-vt -c \"import z3, sys; print('z3', z3.get_version_string())\" && /venv/bin/python -c \"import peg_parser.parser\"",
    "hooks": {
        "guard": "XONSH_PARSER_VERIF",
        "enable": "no hooks in /repo: contracts are sidecars under /verif/contracts keyed by qualified name; run-time wrappers are monkey-patched",
        "baseline_off_cmd": "cd /repo && /venv/bin/python -m pytest -q -p no:cacheprovider --timeout=900",
        "source_commits": [],
        "add_only": True,
    },
    "engines": [
        {"name": "pegir", "path": "engine/pegir.py, engine/implements.py, engine/pegfacts.py, engine/pegmemo.py", "serves_properties": ["C16", "C17", "C18", "C15"],
         "kind_free_text": "mechanical IR extraction of the generated parser methods + structural decision procedures"},
        {"name": "rx", "path": "engine/rx.py", "serves_properties": ["C08", "C09"],
         "kind_free_text": "real regex strings -> SMT regular expressions (re._parser + z3 ReSort): equality/inclusion/disjointness/epsilon-freeness"},
        {"name": "gramref", "path": "engine/gramref.py, spec/ref/python311.gram", "serves_properties": ["C01", "C02"],
         "kind_free_text": "refinement of CPython's own grammar rule by rule incl. simple actions"},
        {"name": "frames", "path": "engine/frames.py", "serves_properties": ["C12", "C13", "C14"],
         "kind_free_text": "syntactic effect / ownership analysis of the real sources"},
        {"name": "pegtypes", "path": "engine/pegtypes.py", "serves_properties": ["C04", "C11"],
         "kind_free_text": "abstract interpretation of grammar actions against the running CPython's ASDL"},
        {"name": "pyvc", "path": "engine/pyvc.py, engine/pyexpr.py, engine/pyexec.py, engine/smt.py, contracts/*.py", "serves_properties": ["C01", "C02", "C03", "C08", "C09", "C15", "C17"],
         "kind_free_text": "VC generator: symbolic execution of the real function bodies (ast) against sidecar contracts, z3/cvc5 back ends"},
    ],
    "checks": [],
    "notes": "Contract-based deductive verification with sidecar contracts; see DESIGN.md. Exit codes: 0 held / 1 violation / 2 undecided / 3 checker crash.",
    "not_applicable": [],
}
for p in props:
    pid = p["id"]
    c = CHECKS.get(pid)
    if not c:
        manifest["not_applicable"].append({"property_id": pid, "reason": NOT_APPLICABLE_REASON})
        continue
    manifest["checks"].append({
        "property_id": pid,
        "quick_cmd": f"python3-vt checks/check.py {pid} --tier quick",
        "thorough_cmd": f"python3-vt checks/check.py {pid} --tier thorough",
        "evidence_file": f"/verif/evidence/{pid}.json",
        "replay_cmd_template": f"python3-vt checks/check.py {pid} --replay {{path}}",
        "engine": c["engine"],
        "level_claimed": {"category": c["category"], "text": c["text"], "design_ref": c["design_ref"]},
        "level_note": c["note"],
        "technique": c["technique"],
    })
json.dump(manifest, open(os.path.join(V, "MANIFEST.json"), "w"), indent=1)
print("checks:", [c["property_id"] for c in manifest["checks"]])
