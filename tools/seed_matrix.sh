#!/bin/bash
# usage: tools/seed_matrix.sh [<seed-dir-name> ...]   -- records which checks catch which seeded change (seeded/<id>/meta.json: caught_by)
# Runs on a scratch worktree of /repo (XONSH_PARSER_REPO) with its own evidence / replay / cache directories, so that neither /repo
# nor /verif/evidence is touched; the worktree is removed at the end.  (tools/try_seed.sh does the same thing in /repo itself.)
set -u
MX=${MX_DIR:-/tmp/mx}
V=$(dirname $(dirname $(realpath $0)))      # the copy of the machinery this script belongs to (a snapshot may be used while /verif is being edited)
WT=$MX/wt
mkdir -p $MX/ev $MX/rp $MX/scratch
git -C /repo worktree remove --force $WT 2>/dev/null
git -C /repo worktree add -q --detach $WT HEAD || exit 1
export XONSH_PARSER_REPO=$WT VERIF_EVIDENCE_DIR=$MX/ev VERIF_REPLAY_DIR=$MX/rp VERIF_SCRATCH_DIR=$MX/scratch VERIF_KEEP_CACHE=1
SEEDS=${@:-$(ls /verif/seeded)}
for S in $SEEDS; do
  P=${S:0:3}
  git -C $WT reset -q --hard HEAD; git -C $WT clean -fdq
  if ! git -C $WT apply /verif/seeded/$S/patch.diff 2>/dev/null; then echo "$S: patch does not apply"; continue; fi
  OUT=$(cd $V && timeout 1800 python3-vt checks/check.py $P --tier quick 2>&1 | grep -v '^KNOWN-FINDING'); RC=$?
  python3 - "$S" "$P" "$RC" <<PY
import json, re, sys
s, p, rc = sys.argv[1:4]
out = """$(echo "$OUT" | head -400 | sed 's/\\/\\\\/g; s/"""/\\"\\"\\"/g')"""
obs = []
for ln in out.splitlines():
    m = re.match(r"VIOLATION property=(\S+) replay=\S*/([^/]+)\.json( no-failing-input-found)?", ln)
    if m:
        obs.append(m.group(2) + (" (no failing input)" if m.group(3) else ""))
kinds = sorted({("bounded stand-in" if ".standin." in o else "deductive obligation") for o in obs})
path = f"/verif/seeded/{s}/meta.json"
d = json.load(open(path))
d["caught_by"] = {"check": p, "caught": bool(obs), "by": kinds, "first_obligations": obs[:6], "violation_lines": len(obs)} if obs else \
                 {"check": p, "caught": False, "note": "NOT caught by the check of its own property (see DESIGN.md)"}
json.dump(d, open(path, "w"), indent=1)
print(s, "caught" if obs else "MISSED", len(obs), kinds)
PY
done
git -C /repo worktree remove --force $WT
rm -rf $MX
