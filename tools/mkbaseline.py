#!/usr/bin/env python3-vt
"""Records which E1 obligations are discharged on the committed tree (DESIGN 3.8 step 0)."""
import json, os, sys
sys.path.insert(0, os.path.dirname(os.path.dirname(os.path.abspath(__file__))))
os.environ["VERIF_NO_CACHE"] = "1"
from checks.e1common import run_all, BASELINE
import ast
from checks.common import REPO
from engine import alpha
# the baseline is the reference for renamings too: it must be rebuilt from the contracts as written (no adaptation)
if os.path.exists(BASELINE):
    os.rename(BASELINE, BASELINE + ".prev")
try:
    res = run_all("quick")
finally:
    if os.path.exists(BASELINE + ".prev"):
        os.rename(BASELINE + ".prev", BASELINE)
out = {}
trees = {}
for name, d in res.items():
    rel, qual = name.split(":", 1)
    if rel not in trees:
        trees[rel] = ast.parse(open(os.path.join(REPO, rel), encoding="utf-8").read())
    b, shp = alpha.describe(trees[rel], qual)
    fnode = alpha.find(trees[rel], qual)
    out[name] = {"fhash": d["fhash"], "binders": b, "shape": shp, "params": alpha.param_names(fnode) if fnode is not None else None, "discharged": sorted(v["id"] for v in d["vcs"] if v["status"] == "discharged"),
                 "not_discharged": sorted(v["id"] for v in d["vcs"] if v["status"] != "discharged"), "unsupported": d["unsupported"]}
json.dump(out, open(BASELINE, "w"), indent=1)
print(sum(len(v["discharged"]) for v in out.values()), "discharged;", sum(len(v["not_discharged"]) for v in out.values()), "not;",
      [k for k, v in out.items() if v["unsupported"]])
