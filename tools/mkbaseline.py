#!/usr/bin/env python3-vt
"""Records which E1 obligations are discharged on the committed tree (DESIGN 3.8 step 0)."""
import json, os, sys
sys.path.insert(0, os.path.dirname(os.path.dirname(os.path.abspath(__file__))))
os.environ["VERIF_NO_CACHE"] = "1"
from checks.e1common import run_all, BASELINE
res = run_all("quick")
out = {}
for name, d in res.items():
    out[name] = {"fhash": d["fhash"], "discharged": sorted(v["id"] for v in d["vcs"] if v["status"] == "discharged"),
                 "not_discharged": sorted(v["id"] for v in d["vcs"] if v["status"] != "discharged"), "unsupported": d["unsupported"]}
json.dump(out, open(BASELINE, "w"), indent=1)
print(sum(len(v["discharged"]) for v in out.values()), "discharged;", sum(len(v["not_discharged"]) for v in out.values()), "not;",
      [k for k, v in out.items() if v["unsupported"]])
