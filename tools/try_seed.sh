#!/bin/bash
# usage: tools/try_seed.sh <seed-dir-name> <prop> [<prop>...]   -- applies the seeded patch to /repo, runs checks, undoes it
SEED=$1; shift
P=/verif/seeded/$SEED/patch.diff
[ -n "$(git -C /repo status --porcelain)" ] && { echo "/repo not clean"; exit 2; }
git -C /repo apply $P 2>/dev/null || { echo "patch does not apply cleanly (base moved): rebase the seed"; git -C /repo reset -q --hard HEAD; exit 2; }
for prop in "$@"; do
  echo "== $SEED vs $prop"
  ( cd /verif && timeout 1800 python3-vt checks/check.py $prop --tier ${TIER:-quick} 2>&1 | grep -v "^KNOWN-FINDING" | cut -c1-300 | head -${LINES_MAX:-12}; echo "rc=${PIPESTATUS[0]}" )
done
git -C /repo reset -q --hard HEAD; git -C /repo clean -fdq
[ -n "$(git -C /repo status --porcelain)" ] && echo "WARNING /repo not clean after undo"
( cd /verif && git checkout -q -- evidence 2>/dev/null )
