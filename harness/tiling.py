"""Bounded stand-in for C08: tokens tile the source.  stdin: JSON list of sources; stdout JSON {"evaluations", "failures"}.

For each input the tokenizer finishes on: every token's string equals the source slice between its coordinates (across
lines), tokens are ordered and do not overlap, every character outside all tokens is line-leading blank space or a
backslash line-continuation, INDENT/DEDENT balance, exactly one ENDMARKER (last)."""
from __future__ import annotations

import io
import json
import signal
import sys

from peg_parser.tokenize import Token, TokenError, generate_tokens


class Hang(BaseException):
    pass


def _alarm(s, f):
    raise Hang()


signal.signal(signal.SIGALRM, _alarm)


def check(src: str):
    lines = io.StringIO(src).readlines()
    signal.alarm(5)
    try:
        toks = list(generate_tokens(io.StringIO(src).readline))
    except (TokenError, IndentationError):
        return None, "rejected"
    except Hang:
        return "HANG", "hang"
    except BaseException as e:  # noqa: BLE001
        return f"{type(e).__name__}: {e}"[:160], "exc"
    finally:
        signal.alarm(0)

    def text(a, b):
        (l1, c1), (l2, c2) = a, b
        if l1 == l2:
            ln = lines[l1 - 1] if 1 <= l1 <= len(lines) else ""
            return ln[c1:c2]
        out = (lines[l1 - 1][c1:] if 1 <= l1 <= len(lines) else "")
        for l in range(l1 + 1, l2):
            out += lines[l - 1] if 1 <= l <= len(lines) else ""
        out += (lines[l2 - 1][:c2] if 1 <= l2 <= len(lines) else "")
        return out

    prev = (1, 0)
    depth = 0
    nend = 0
    for i, t in enumerate(toks):
        if t.start > t.end:
            return f"token #{i} {t.type.name} has start {t.start} after end {t.end}", "order"
        if t.type in (Token.DEDENT, Token.ENDMARKER) or (t.type == Token.NEWLINE and t.string == ""):
            pass
        else:
            if t.start < prev:
                return f"token #{i} {t.type.name} {t.string!r} at {t.start} overlaps the previous token ending at {prev}", "overlap"
            if text(t.start, t.end) != t.string:
                return f"token #{i} {t.type.name} string {t.string!r} != source slice {text(t.start, t.end)!r} at {t.start}-{t.end}", "slice"
            gap = text(prev, t.start)
            g = gap
            # allowed between tokens: leading blanks of a line, backslash-newline
            g = g.replace("\\\r\n", "").replace("\\\n", "")
            if g.strip(" \t\f") != "":
                return f"source text {gap!r} before token #{i} {t.type.name} {t.string!r} at {t.start} is covered by no token", "gap"
            prev = t.end
        if t.type == Token.INDENT:
            depth += 1
        if t.type == Token.DEDENT:
            depth -= 1
            if depth < 0:
                return "more DEDENTs than INDENTs", "balance"
        if t.type == Token.ENDMARKER:
            nend += 1
    if depth != 0:
        return f"INDENT/DEDENT do not balance (depth {depth} at the end)", "balance"
    if nend != 1 or not toks or toks[-1].type != Token.ENDMARKER:
        return "stream does not end with exactly one ENDMARKER", "endmarker"
    tail = text(prev, (len(lines) + 1, 0))
    if tail.replace("\\\n", "").strip(" \t\f") != "":
        return f"source text {tail!r} after the last token is covered by no token", "gap"
    return None, "ok"


def main():
    srcs = json.load(sys.stdin)
    fails = []
    n = ok = 0
    for s in srcs:
        n += 1
        r, kind = check(s)
        if kind == "ok":
            ok += 1
        if r is not None:
            fails.append({"input": s, "observed": r, "kind": kind})
    print(json.dumps({"evaluations": n, "accepted": ok, "failures": fails[:300], "nfail": len(fails)}))


if __name__ == "__main__":
    main()
