"""Bounded stand-in for C13: repeated / permuted / interleaved / threaded parses give the results of an isolated parse.
stdin: JSON {"pool": [...], "seed": n, "rounds": k}; stdout JSON {"evaluations", "failures"}"""
import ast
import json
import random
import sys
import threading

from peg_parser.parser import XonshParser


def outcome(src):
    try:
        t = XonshParser.parse_string(src, mode="exec")
        return ("ok", ast.dump(t, include_attributes=True)), t
    except BaseException as e:  # noqa: BLE001
        return ("exc", type(e).__name__, str(e)[:200]), None


def mutable_nodes(t):
    return {id(n): n for n in ast.walk(t) if not isinstance(n, (ast.expr_context, ast.operator, ast.unaryop, ast.cmpop, ast.boolop))}


def main():
    req = json.load(sys.stdin)
    pool, rnd = req["pool"], random.Random(req["seed"])
    fails, n = [], 0
    first = {}
    trees = {}
    for s in pool:                       # reference: first parse of each input in this process
        first[s], trees[s] = outcome(s)
        n += 1
    for _ in range(req["rounds"]):       # permuted histories
        order = pool[:]
        rnd.shuffle(order)
        for s in order:
            n += 1
            o, t = outcome(s)
            if o != first[s]:
                fails.append({"input": s, "what": "repeating the parse after other parses changes the result", "observed": [str(first[s])[:200], str(o)[:200]]})
            if t is not None and trees[s] is not None:
                shared = set(mutable_nodes(t)) & set(mutable_nodes(trees[s]))
                if shared:
                    fails.append({"input": s, "what": f"two parses of the same text share {len(shared)} mutable node object(s)", "observed": [type(mutable_nodes(t)[i]).__name__ for i in list(shared)[:3]]})
            if trees[s] is not None and ("ok", ast.dump(trees[s], include_attributes=True)) != first[s]:
                fails.append({"input": s, "what": "a tree returned earlier was altered by a later parse", "observed": None})
    # threads
    res = {}

    def work(k):
        r = random.Random(req["seed"] + k)
        for _ in range(req["rounds"] * 3):
            s = r.choice(pool)
            o, _t = outcome(s)
            if o != first[s]:
                res.setdefault(s, o)
    ths = [threading.Thread(target=work, args=(k,)) for k in range(8)]
    for th in ths:
        th.start()
    for th in ths:
        th.join()
    n += 8 * req["rounds"] * 3
    for s, o in res.items():
        fails.append({"input": s, "what": "a parse running concurrently with others in 8 threads gives a different result", "observed": [str(first[s])[:200], str(o)[:200]]})
    print(json.dumps({"evaluations": n, "failures": fails[:100], "first": {s: first[s][0] for s in pool[:3]}}))


if __name__ == "__main__":
    main()
