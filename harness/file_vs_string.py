"""Bounded stand-in for C12: parse_file(content) vs parse_string(content, 'exec') in THIS process environment.
stdin: JSON list of contents (str); stdout: JSON list of {"file": outcome, "string": outcome} (outcome: dump or exception fields)."""
import ast
import json
import locale
import os
import signal
import sys
import tempfile
from pathlib import Path

from peg_parser.parser import XonshParser


def outcome(fn):
    signal.alarm(10)
    try:
        t = fn()
        return {"ok": True, "dump": ast.dump(t, include_attributes=True)}
    except SyntaxError as e:
        return {"exc": type(e).__name__, "msg": e.msg, "lineno": e.lineno, "offset": e.offset, "end_lineno": e.end_lineno, "end_offset": e.end_offset, "text": e.text}
    except BaseException as e:  # noqa: BLE001
        return {"exc": type(e).__name__, "msg": str(e)[:200]}
    finally:
        signal.alarm(0)


def main():
    srcs = json.load(sys.stdin)
    same_path = False
    if isinstance(srcs, dict):
        # {"contents": [...], "same_path": true}: every content is written to ONE path in turn (a script edited and parsed again in one process)
        same_path = bool(srcs.get("same_path"))
        srcs = srcs["contents"]
    d = tempfile.mkdtemp(prefix="xpverif-c12-")
    out = []
    for i, s in enumerate(srcs):
        p = Path(d) / ("script.xsh" if same_path else f"m{i}.py")
        p.write_bytes(s.encode("utf-8", "surrogatepass") if isinstance(s, str) else bytes(s))
        a = outcome(lambda: XonshParser.parse_file(p))
        # the string a caller would hand over for the same content: decoded as UTF-8 with universal newlines, as CPython reads source
        text = p.read_bytes().decode("utf-8", "surrogatepass")
        b = outcome(lambda: XonshParser.parse_string(text, mode="exec"))
        out.append({"file": a, "string": b})
        p.unlink()
    os.rmdir(d)
    json.dump({"encoding": locale.getpreferredencoding(False), "utf8_mode": sys.flags.utf8_mode, "results": out}, sys.stdout)


if __name__ == "__main__":
    main()
