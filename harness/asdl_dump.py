"""ASDL of the running CPython: fields per node class, with ?/* markers from the class docstrings."""
import ast
import json
import re
import sys

fields, sig = {}, {}
for name in dir(ast):
    c = getattr(ast, name)
    if isinstance(c, type) and issubclass(c, ast.AST) and c is not ast.AST:
        fields[name] = list(c._fields)
        doc = c.__doc__ or ""
        m = re.match(r"\w+\((.*)\)", doc.replace("\n", " "))
        if m:
            d = {}
            for part in [p.strip() for p in m.group(1).split(",") if p.strip()]:
                t, _, n = part.rpartition(" ")
                d[n] = t
            sig[name] = d
        bases = [b.__name__ for b in c.__mro__[1:] if b not in (ast.AST, object)]
        sig.setdefault(name, {})
        sig[name]["__bases__"] = bases
        sig[name]["__attributes__"] = list(getattr(c, "_attributes", ()))
json.dump({"fields": fields, "sig": sig, "version": list(sys.version_info[:3])}, sys.stdout)
