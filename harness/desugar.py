"""Bounded stand-ins for C05 / C06 / C07: xonsh constructs vs their documented translation onto __xonsh__.

stdin: JSON {"op": "c05"|"c06"|"c07", "cases": [...]} ; stdout: JSON {"evaluations", "failures": [...]}
c05 case = {"src": program with the construct, "py": the same program with the translation written out,
            "construct": source text of the construct (for the span check), "target": bool}
c06 case = {"src": "$(...)"-style program, "expect": [[kind, value], ...] arguments, "method": runtime method}
c07 case = {"src": program, "expect": [strings...] macro argument texts, "kind": call|with|proc, "after": optional following statement}
"""
from __future__ import annotations

import ast
import json
import sys

from peg_parser.parser import XonshParser


def strip_pos(t):
    return ast.dump(t, include_attributes=False)


def parse(src, mode="exec"):
    return XonshParser.parse_string(src, mode=mode)


def seg(src, node):
    return ast.get_source_segment(src, node)


def c05(c):
    src, py = c["src"], c["py"]
    try:
        t = parse(src)
    except BaseException as e:  # noqa: BLE001
        return f"the program with the construct does not parse: {type(e).__name__}: {e}"[:200]
    try:
        ref = ast.parse(py)
    except SyntaxError as e:
        return None if c.get("optional") else f"BAD-CASE translation does not parse: {e}"
    a, b = strip_pos(t), strip_pos(ref)
    if a != b:
        i = next((i for i, (x, y) in enumerate(zip(a, b)) if x != y), min(len(a), len(b)))
        return f"tree differs from the written-out translation: ...{a[max(0, i - 70):i + 70]}... vs ...{b[max(0, i - 70):i + 70]}..."
    # span: some node of the parsed tree covers exactly the construct's text
    cons = c.get("construct")
    if cons and cons in src and src.count(cons) == 1:
        spans = {seg(src, n) for n in ast.walk(t) if isinstance(n, (ast.expr,)) and getattr(n, "end_lineno", None) is not None}
        if cons not in spans:
            return f"no expression node spans exactly the construct text {cons!r}"
    if c.get("target"):
        ctxs = [type(n.ctx).__name__ for n in ast.walk(t) if isinstance(n, ast.Subscript) and isinstance(n.value, ast.Attribute) and n.value.attr == "env"]
        if "Store" not in ctxs:
            return f"binding target is not in Store context (contexts of env subscripts: {ctxs})"
        try:
            compile(t, "<x>", "exec")
        except (TypeError, ValueError) as e:
            return f"compile() rejects the tree: {e}"
    return None


def arg_shape(n):
    """normal form of one subprocess argument node"""
    if isinstance(n, ast.Constant):
        return ["str", n.value]
    if isinstance(n, ast.Subscript) and isinstance(n.value, ast.Attribute) and n.value.attr == "env":
        return ["env", ast.unparse(n.slice)]
    if isinstance(n, ast.Starred):
        v = n.value
        if isinstance(v, ast.Call) and isinstance(v.func, ast.Attribute):
            return ["star:" + v.func.attr, [arg_shape(a) if v.func.attr != "list_of_strs_or_callables" else ["py", ast.unparse(a)] for a in v.args]]
    if isinstance(n, ast.Call) and isinstance(n.func, ast.Attribute) and isinstance(n.func.value, ast.Name) and n.func.value.id == "__xonsh__":
        return ["call:" + n.func.attr, [arg_shape(a) for a in n.args]]
    if isinstance(n, ast.Tuple):
        return ["glue", [arg_shape(e) for e in n.elts]]
    if isinstance(n, ast.BinOp) and isinstance(n.op, ast.Add):
        return ["glue", [arg_shape(n.left), arg_shape(n.right)]]
    return ["other", ast.unparse(n)]


def flatten(x):
    if x[0] == "glue":
        out = []
        for y in x[1]:
            fy = flatten(y)
            out.extend(fy[1] if fy[0] == "glue" else [fy])
        merged = []
        for y in out:
            if merged and merged[-1][0] == "str" and y[0] == "str":
                merged[-1] = ["str", merged[-1][1] + y[1]]
            else:
                merged.append(y)
        return merged[0] if len(merged) == 1 else ["glue", merged]
    if x[0].startswith(("call:", "star:")) and isinstance(x[1], list):
        return [x[0], [flatten(y) if isinstance(y, list) and y and isinstance(y[0], str) else y for y in x[1]]]
    return x


def c06(c):
    try:
        t = parse(c["src"])
    except BaseException as e:  # noqa: BLE001
        return f"does not parse: {type(e).__name__}: {e}"[:200]
    calls = [n for n in ast.walk(t) if isinstance(n, ast.Call) and isinstance(n.func, ast.Attribute) and n.func.attr.startswith("subproc_") and
             isinstance(n.func.value, ast.Name) and n.func.value.id == "__xonsh__"]
    if not calls:
        return "no __xonsh__.subproc_* call in the tree"
    outer = calls[0]
    if outer.func.attr != c["method"]:
        return f"runtime method is {outer.func.attr}, the bracket form documents {c['method']}"
    got = [flatten(arg_shape(a)) for a in outer.args]
    if got != c["expect"]:
        return f"arguments {got} differ from the source's word boundaries {c['expect']}"
    return None


def c07(c):
    try:
        t = parse(c["src"])
    except BaseException as e:  # noqa: BLE001
        return f"does not parse: {type(e).__name__}: {e}"[:200]
    kind = c["kind"]
    got = None
    if kind == "call":
        for n in ast.walk(t):
            if isinstance(n, ast.Call) and isinstance(n.func, ast.Attribute) and n.func.attr == "call_macro":
                got = [e.value for e in n.args[1].elts]
                break
    elif kind == "with":
        for n in ast.walk(t):
            if isinstance(n, ast.Call) and isinstance(n.func, ast.Attribute) and n.func.attr == "enter_macro":
                got = [n.args[1].value]
                break
    else:
        for n in ast.walk(t):
            if isinstance(n, ast.Call) and isinstance(n.func, ast.Attribute) and n.func.attr.startswith("subproc_"):
                got = [a.value for a in n.args if isinstance(a, ast.Constant)][1:]
                break
    if got is None:
        return "no macro call found in the tree"
    if got != c["expect"]:
        return f"macro received {got!r}, the source text is {c['expect']!r}"
    if c.get("after"):
        ref = ast.parse(c["after"])
        tail = t.body[-len(ref.body):]
        if [strip_pos(x) for x in tail] != [strip_pos(x) for x in ref.body]:
            return f"the statement after the macro is not parsed normally: {[ast.unparse(x) for x in tail]}"
    return None


def main():
    req = json.load(sys.stdin)
    fn = {"c05": c05, "c06": c06, "c07": c07}[req["op"]]
    fails = []
    for c in req["cases"]:
        r = fn(c)
        if r:
            fails.append({"input": c["src"], "observed": r, "case": c})
    print(json.dumps({"evaluations": len(req["cases"]), "failures": fails[:200]}))


if __name__ == "__main__":
    main()
