"""Executes batches of cases against the real parser / tokenizer and CPython's own (`ast.parse`, `tokenize`).

stdin: JSON {"op": ..., "cases": [...]}   stdout: JSON list of results (one per case).  Runs under /venv/bin/python.
ops:
  parse      case = {"src", "mode": "exec"|"eval", "py_version": [3, x]|null, "verbose": bool}  -> our parser
  cpython    case = {"src", "mode"}                                                             -> ast.parse
  tokens     case = {"src"}  -> our raw token stream [(type, string, start, end, line)]
  pytokens   case = {"src"}  -> tokenize.generate_tokens significant tokens
  parsefile  case = {"src", "env": {...}} handled by the caller via subprocess env (content written to a temp file)
Each case is run under an alarm (hang => {"exc": {"cls": "HANG"}}).
"""
from __future__ import annotations

import ast
import contextlib
import io
import json
import os
import signal
import sys
import tempfile

sys.setrecursionlimit(3000)


class Hang(BaseException):
    pass


def _alarm(signum, frame):
    raise Hang()


signal.signal(signal.SIGALRM, _alarm)
LIMIT = int(os.environ.get("ORACLE_CASE_SECONDS", "10"))


def exc_info(e):
    d = {"cls": type(e).__name__, "msg": str(getattr(e, "msg", None) or (e.args[0] if e.args else ""))}
    if isinstance(e, SyntaxError):
        d.update({"filename": e.filename, "lineno": e.lineno, "offset": e.offset, "text": e.text, "end_lineno": e.end_lineno,
                  "end_offset": e.end_offset, "nargs": len(e.args)})
    return d


def guarded(fn):
    signal.alarm(LIMIT)
    try:
        return fn()
    except Hang:
        return {"exc": {"cls": "HANG", "msg": f"no result within {LIMIT}s"}}
    except RecursionError:
        return {"exc": {"cls": "RecursionError", "msg": ""}}
    except BaseException as e:  # noqa: BLE001
        return {"exc": exc_info(e)}
    finally:
        signal.alarm(0)


def do_parse(c):
    from peg_parser.parser import XonshParser

    def f():
        kw = {}
        if c.get("py_version"):
            kw["py_version"] = tuple(c["py_version"])
        buf = io.StringIO()
        with contextlib.redirect_stdout(buf):
            t = XonshParser.parse_string(c["src"], mode=c.get("mode", "exec"), verbose=bool(c.get("verbose")), **kw)
        r = {"ok": True, "type": type(t).__name__, "dump": ast.dump(t, include_attributes=True) if t is not None else None}
        if c.get("compile") and t is not None:
            try:
                compile(t, "<x>", "exec" if c.get("mode", "exec") == "exec" else "eval", dont_inherit=True)
                r["compile"] = "ok"
            except (TypeError, ValueError) as e:
                r["compile"] = f"{type(e).__name__}: {e}"
            except SyntaxError as e:
                r["compile"] = f"SyntaxError: {e.msg}"
        if c.get("spans") and t is not None:
            lines = io.StringIO(c["src"]).readlines()
            bad = []
            for n in ast.walk(t):
                if not hasattr(n, "lineno") or getattr(n, "end_lineno", None) is None:
                    continue
                a0, b0 = (n.lineno, n.col_offset), (n.end_lineno, n.end_col_offset)
                if a0 > b0:
                    bad.append(f"{type(n).__name__}: span starts after it ends: {a0} > {b0}")
                elif not (1 <= n.lineno <= max(1, len(lines)) and 1 <= n.end_lineno <= max(1, len(lines))):
                    bad.append(f"{type(n).__name__}: line {n.lineno}..{n.end_lineno} outside the source (1..{len(lines)})")
                elif n.col_offset < 0 or (lines and n.end_col_offset > len(lines[n.end_lineno - 1].encode("utf-8"))):
                    bad.append(f"{type(n).__name__}: column {n.col_offset}..{n.end_col_offset} outside line {n.end_lineno}")
            r["spans"] = bad[:5]
        if c.get("unparse") and t is not None:
            try:
                r["unparse"] = ast.unparse(t)
            except Exception as e:  # noqa: BLE001
                r["unparse"] = f"<{type(e).__name__}>"
        return r
    return guarded(f)


def do_cpython(c):
    def f():
        import warnings
        with warnings.catch_warnings():
            warnings.simplefilter("ignore")
            t = ast.parse(c["src"], mode=c.get("mode", "exec"))
        return {"ok": True, "type": type(t).__name__, "dump": ast.dump(t, include_attributes=True)}
    return guarded(f)


def do_tokens(c):
    from peg_parser.tokenize import generate_tokens

    def f():
        return {"ok": True, "tokens": [[t.type.name, t.string, list(t.start), list(t.end), t.line] for t in generate_tokens(io.StringIO(c["src"]).readline)]}
    return guarded(f)


def do_pytokens(c):
    import tokenize

    def f():
        out = []
        for t in tokenize.generate_tokens(io.StringIO(c["src"]).readline):
            out.append([tokenize.tok_name[t.type], t.string, list(t.start), list(t.end)])
        return {"ok": True, "tokens": out}
    return guarded(f)


def do_parsefile(c):
    from pathlib import Path

    from peg_parser.parser import XonshParser

    def f():
        d = tempfile.mkdtemp(prefix="xpverif-pf-")
        p = Path(d) / "m.py"
        try:
            p.write_bytes(c["src"].encode("utf-8") if isinstance(c["src"], str) else bytes(c["src"]))
            t = XonshParser.parse_file(p)
            return {"ok": True, "dump": ast.dump(t, include_attributes=True) if t is not None else None}
        finally:
            try:
                p.unlink()
                os.rmdir(d)
            except OSError:
                pass
    return guarded(f)


def main():
    req = json.load(sys.stdin)
    op = {"parse": do_parse, "cpython": do_cpython, "tokens": do_tokens, "pytokens": do_pytokens, "parsefile": do_parsefile}[req["op"]]
    out = [op(c) for c in req["cases"]]
    json.dump(out, sys.stdout)


if __name__ == "__main__":
    main()
