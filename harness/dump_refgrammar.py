"""Parses a reference grammar (CPython's python.gram) with the repository's pegen front end; dumps rules as JSON."""
import json
import os
import sys

repo, gfile = sys.argv[1], sys.argv[2]
sys.path.insert(0, repo)
sys.path.insert(0, os.path.dirname(os.path.abspath(__file__)))
from dump_grammar import rhs_tree  # noqa: E402
from pegen.build import build_parser  # noqa: E402

g, _p, _t = build_parser(gfile)
json.dump({"rules": [{"name": n, "type": r.type, "memo": bool(r.memo), "rhs": rhs_tree(r.rhs)} for n, r in g.rules.items()]}, sys.stdout)
