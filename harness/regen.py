"""Run the repository's own generation steps into a scratch file and compare with the shipped module.

Runs under any python that can import /repo (python3-vt or /venv/bin/python).  Prints JSON.
Normalisation (the property says "up to formatting, unused imports and return annotations"):
  * both files are parsed with ast; comparison is on ast.dump() of each class-body member;
  * return annotations (FunctionDef.returns) are dropped; module-level imports are ignored;
  * docstring/comment differences vanish with ast.
"""
from __future__ import annotations

import ast
import io
import json
import os
import sys
import tempfile


def _members(src: str, clsname: str | None):
    mod = ast.parse(src)
    out = {}
    order = []
    for node in mod.body:
        if isinstance(node, ast.ClassDef) and (clsname is None or node.name == clsname):
            for m in node.body:
                if isinstance(m, (ast.FunctionDef, ast.AsyncFunctionDef)):
                    m.returns = None
                    key = m.name
                elif isinstance(m, ast.Assign) and len(m.targets) == 1 and isinstance(m.targets[0], ast.Name):
                    key = m.targets[0].id
                elif isinstance(m, ast.Expr) and isinstance(m.value, ast.Constant):
                    continue
                else:
                    key = f"<stmt@{m.lineno}>"
                out[key] = ast.dump(m)
                order.append(key)
    return out, order


def generate_xonsh(repo: str, outpath: str) -> None:
    sys.path.insert(0, repo)
    from pathlib import Path

    from tasks import generator  # type: ignore

    generator.main(Path(outpath), Path(repo) / "tasks" / "xonsh.gram")


def generate_meta(repo: str, outpath: str) -> None:
    sys.path.insert(0, repo)
    from pegen.build import build_python_parser_and_generator  # type: ignore

    build_python_parser_and_generator(os.path.join(repo, "pegen", "metagrammar.gram"), outpath)


def compare(shipped_path: str, generated_path: str, clsname: str | None):
    a, oa = _members(open(shipped_path, encoding="utf-8").read(), clsname)
    b, ob = _members(open(generated_path, encoding="utf-8").read(), clsname)
    diffs = []
    for k in oa:
        if k not in b:
            diffs.append({"member": k, "kind": "only-in-shipped"})
        elif a[k] != b[k]:
            diffs.append({"member": k, "kind": "differs"})
    for k in ob:
        if k not in a:
            diffs.append({"member": k, "kind": "only-in-generated"})
    if not diffs and oa != ob:
        diffs.append({"member": "<order>", "kind": "member order differs"})
    return {"members_shipped": len(oa), "members_generated": len(ob), "diffs": diffs}


def unparse_member(path: str, clsname: str | None, member: str) -> str:
    mod = ast.parse(open(path, encoding="utf-8").read())
    for node in mod.body:
        if isinstance(node, ast.ClassDef) and (clsname is None or node.name == clsname):
            for m in node.body:
                if getattr(m, "name", None) == member or (
                    isinstance(m, ast.Assign) and getattr(m.targets[0], "id", None) == member
                ):
                    return ast.unparse(m)
    return ""


def main(argv):
    which, repo = argv[1], argv[2]
    tmpdir = tempfile.mkdtemp(prefix="xpverif-regen-")
    try:
        out = os.path.join(tmpdir, "gen.py")
        if which == "xonsh":
            generate_xonsh(repo, out)
            shipped, cls = os.path.join(repo, "peg_parser", "parser.py"), "XonshParser"
        else:
            generate_meta(repo, out)
            shipped, cls = os.path.join(repo, "pegen", "grammar_parser.py"), "GeneratedParser"
        res = compare(shipped, out, cls)
        for d in res["diffs"][:20]:
            d["shipped"] = unparse_member(shipped, cls, d["member"])
            d["generated"] = unparse_member(out, cls, d["member"])
        import hashlib

        res["generated_sha256"] = hashlib.sha256(open(out, "rb").read()).hexdigest()
        print(json.dumps(res))
    finally:
        import shutil

        shutil.rmtree(tmpdir, ignore_errors=True)


if __name__ == "__main__":
    main(sys.argv)
