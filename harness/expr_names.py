"""Which expression node classes Parser.get_expr_name can name (the real EXPR_NAME_MAPPING) vs. the expression classes of the running CPython."""
import ast
import json
import sys

import peg_parser.subheader as sub

mapped = sorted(c.__name__ for c in sub.EXPR_NAME_MAPPING)
exprs = sorted(c.__name__ for c in ast.expr.__subclasses__() if c.__module__ == "ast" and not c.__name__.startswith("_")
               and c.__name__ not in ("Num", "Str", "Bytes", "NameConstant", "Ellipsis", "Index", "ExtSlice"))
json.dump({"mapped": mapped, "expr_classes": exprs}, sys.stdout)
