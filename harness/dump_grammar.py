"""Parse a pegen grammar file with the repository's own pegen front end and dump it as JSON.

usage: dump_grammar.py <repo> <grammar-file> [xonsh|stock]
Runs in a subprocess of the engine (repository code is never imported into the engine process).
The dump contains, per rule: name, type, memo flag, rhs tree, and the generator's own analyses
(nullable / left_recursive / leader) as computed by pegen.parser_generator on this grammar.
"""
from __future__ import annotations

import json
import sys


def item_tree(it):
    from pegen import grammar as g

    if isinstance(it, g.NamedItem):
        return {"k": "named", "name": it.name, "item": item_tree(it.item)}
    if isinstance(it, g.NameLeaf):
        return {"k": "name", "v": it.value}
    if isinstance(it, g.StringLeaf):
        return {"k": "string", "v": it.value}
    if isinstance(it, g.Group):
        return {"k": "group", "rhs": rhs_tree(it.rhs)}
    if isinstance(it, g.Opt):
        return {"k": "opt", "node": item_tree(it.node)}
    if isinstance(it, g.Repeat0):
        return {"k": "repeat0", "node": item_tree(it.node)}
    if isinstance(it, g.Repeat1):
        return {"k": "repeat1", "node": item_tree(it.node)}
    if isinstance(it, g.Gather):
        return {"k": "gather", "sep": item_tree(it.separator), "node": item_tree(it.node)}
    if isinstance(it, g.Forced):
        return {"k": "forced", "node": item_tree(it.node)}
    if isinstance(it, g.PositiveLookahead):
        return {"k": "poslook", "node": item_tree(it.node)}
    if isinstance(it, g.NegativeLookahead):
        return {"k": "neglook", "node": item_tree(it.node)}
    if isinstance(it, g.Cut):
        return {"k": "cut"}
    if isinstance(it, g.Rhs):
        return {"k": "rhs", "rhs": rhs_tree(it)}
    raise TypeError(f"unknown grammar node {type(it).__name__}")


def rhs_tree(rhs):
    return {"alts": [{"items": [item_tree(i) for i in a.items], "icut": a.icut, "action": a.action}
                     for a in rhs.alts],
            "repr": repr(rhs)}


def main(argv):
    repo, gfile = argv[1], argv[2]
    dialect = argv[3] if len(argv) > 3 else "xonsh"
    sys.path.insert(0, repo)
    from pegen.build import build_parser

    grammar, _p, _t = build_parser(gfile)
    # the generator's own analyses (mutates rule flags in place)
    if dialect == "xonsh":
        from tasks.generator import XonshParserGenerator

        gen = XonshParserGenerator(grammar, None)
    else:
        from pegen.python_generator import PythonParserGenerator

        gen = PythonParserGenerator(grammar, None)
    out = {"metas": {k: v for k, v in grammar.metas.items()}, "rules": [], "tokens": sorted(gen.tokens)}
    for name, rule in grammar.rules.items():
        out["rules"].append({
            "name": name, "type": rule.type, "memo": bool(rule.memo),
            "nullable": bool(rule.nullable), "left_recursive": bool(rule.left_recursive),
            "leader": bool(rule.leader), "rhs": rhs_tree(rule.rhs),
        })
    out["first_graph"] = {k: sorted(v) for k, v in gen.first_graph.items()}
    out["first_sccs"] = [sorted(s) for s in gen.first_sccs]
    json.dump(out, sys.stdout)


if __name__ == "__main__":
    main(sys.argv)
