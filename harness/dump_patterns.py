"""Dumps the REAL regular-expression strings of peg_parser.tokenize and the reference patterns of the running
CPython's stdlib `tokenize` (JSON on stdout)."""
import json
import sys
import tokenize as ref

import peg_parser.tokenize as t

out = {
    "ours": {k: getattr(t, k) for k in ("Whitespace", "Comment", "Name", "Hexnumber", "Binnumber", "Octnumber", "Decnumber", "Intnumber",
                                         "Exponent", "Pointfloat", "Expfloat", "Floatnumber", "Imagnumber", "Number", "StringStart", "Special",
                                         "SearchPath", "PseudoToken", "StartLBrace", "EndRBrace", "SpecLBrace", "SpecRBrace") if hasattr(t, k)},
    "startpats": dict(getattr(t, "startpats", {})),
    "endpats": dict(t.endpats),
    "ops": sorted(t.OPS),
    "prefixes": sorted(t._all_string_prefixes()),
    "tabsize": t.tabsize,
    "ref": {k: getattr(ref, k) for k in ("Whitespace", "Comment", "Name", "Hexnumber", "Binnumber", "Octnumber", "Decnumber", "Intnumber",
                                          "Exponent", "Pointfloat", "Expfloat", "Floatnumber", "Imagnumber", "Number", "Special", "Funny",
                                          "Single", "Double", "Single3", "Double3", "PseudoToken", "StringPrefix")},
    "ref_ops": sorted(ref.EXACT_TOKEN_TYPES),
    "ref_prefixes": sorted(ref._all_string_prefixes()),
    "token_names": [m.name for m in t.Token],
}
json.dump(out, sys.stdout)
