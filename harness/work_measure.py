"""Bounded stand-in for C18: counts Tokenizer.getnext/peek/reset calls on size-parameterised families at n and 2n.

Runs under the repository's interpreter.  usage: work_measure.py <tier>   -> JSON on stdout
A family `violates` when work(2n) > RATIO * work(n) + SLACK (a linear cost doubles; quadratic x4; exponential more).
"""
from __future__ import annotations

import io
import json
import sys
import time

sys.setrecursionlimit(20000)

from peg_parser.parser import XonshParser
from peg_parser.tokenize import generate_tokens
from peg_parser.tokenizer import Tokenizer

RATIO = 2.2
SLACK = 400
CAP = 3_000_000


class Cap(Exception):
    pass


class CountingTokenizer(Tokenizer):
    n = 0

    def _tick(self):
        CountingTokenizer.n += 1
        if CountingTokenizer.n > CAP:
            raise Cap()

    def getnext(self):
        self._tick()
        return super().getnext()

    def peek(self):
        self._tick()
        return super().peek()

    def reset(self, i):
        self._tick()
        return super().reset(i)


def work(src: str, mode: str = "file"):
    CountingTokenizer.n = 0
    t = CountingTokenizer(generate_tokens(io.StringIO(src).readline))
    p = XonshParser(t)
    try:
        p.parse(mode)
        r = "ok"
    except Cap:
        r = "cap"
    except SyntaxError:
        r = "SyntaxError"
    except RecursionError:
        r = "RecursionError"
    except Exception as e:  # TokenError etc.
        r = type(e).__name__
    return CountingTokenizer.n, r


def nest(o, c, core="a"):
    return lambda n: "x = " + o * n + core + c * n + "\n"


FAMILIES = {
    # valid nesting
    "paren": nest("(", ")"),
    "brack": nest("[", "]"),
    "brace": nest("{", "}"),
    "call": lambda n: "x = " + "f(" * n + "a" + ")" * n + "\n",
    "subscript": lambda n: "x = " + "a[" * n + "0" + "]" * n + "\n",
    "lambda": lambda n: "x = " + "lambda: " * n + "0\n",
    "dict": lambda n: "x = " + "{1: " * n + "2" + "}" * n + "\n",
    "listcomp": lambda n: "x = " + "[" * n + "a" + " for a in b]" * n + "\n",
    "tuple_target": lambda n: "(" * n + "a" + ", b)" * n + " = x\n",
    "paren_arith": lambda n: "x = " + "(" * n + "a" + " + 1)" * n + "\n",
    "for_target": lambda n: "for " + "(" * n + "a" + ", b)" * n + " in x: pass\n",
    "with_target": lambda n: "with x as " + "(" * n + "a" + ", b)" * n + ": pass\n",
    "del_target": lambda n: "del " + "(" * n + "a" + ", b)" * n + "\n",
    "subproc": lambda n: "$(echo " * n + "a" + ")" * n + "\n",
    "subproc_py": lambda n: "$(echo @(" * n + "a" + "))" * n + "\n",
    "blocks": lambda n: "".join("  " * i + "if a:\n" for i in range(n)) + "  " * n + "pass\n",
    "match_seq": lambda n: "match x:\n case " + "[" * n + "1" + "]" * n + ": pass\n",
    "match_map": lambda n: "match x:\n case " + "{1: " * n + "2" + "}" * n + ": pass\n",
    "match_cls": lambda n: "match x:\n case " + "A(" * n + "1" + ")" * n + ": pass\n",
    "binop_chain": lambda n: "x = a" + " + a" * n + "\n",
    "cmp_chain": lambda n: "x = a" + " < a" * n + "\n",
    "bool_chain": lambda n: "x = a" + " and a or a" * n + "\n",
    "attr_chain": lambda n: "x = a" + ".b" * n + "\n",
    "args": lambda n: "f(" + "a, " * n + ")\n",
    "kwargs": lambda n: "f(" + "".join(f"k{i}=1, " for i in range(n)) + ")\n",
    "stmts": lambda n: "x = 1\n" * n,
    "elif_chain": lambda n: "if a:\n pass\n" + "elif b:\n pass\n" * n,
    "fstring_fields": lambda n: "f'" + "{a}" * n + "'\n",
    "fstring_spec_nest": lambda n: "f'" + "{a:" * n + "}" * n + "'\n",
    "str_concat": lambda n: "x = " + "'a' " * n + "\n",
    "params": lambda n: "def f(" + "".join(f"a{i}, " for i in range(n)) + "): pass\n",
    "decorators": lambda n: "@d\n" * n + "def f(): pass\n",
    "help": lambda n: "a?" + ".b?" * n + "\n",
    "env_nest": lambda n: "${" * n + "'a'" + "}" * n + "\n",
    # invalid variants (second, diagnostic pass)
    "inv_paren_then_err": lambda n: "x = " + "(" * n + "a" + ")" * n + "\ny z w\n",
    "inv_brack_then_err": lambda n: "x = " + "[" * n + "a" + "]" * n + "\ny z w\n",
    "inv_brace_then_err": lambda n: "x = " + "{" * n + "a" + "}" * n + "\ny z w\n",
    "inv_call_then_err": lambda n: "x = " + "f(" * n + "a" + ")" * n + "\ny z w\n",
    "inv_paren_inner": lambda n: "x = " + "(" * n + "a b" + ")" * n + "\n",
    "inv_brack_inner": lambda n: "x = " + "[" * n + "a b" + "]" * n + "\n",
    "inv_dict_inner": lambda n: "x = " + "{1: " * n + "a b" + "}" * n + "\n",
    "inv_target": lambda n: "(" * n + "a" + ")" * n + " = \n",
    "inv_del": lambda n: "del " + "(" * n + "a+1" + ")" * n + "\n",
    "inv_stmts_then_err": lambda n: "x = 1\n" * n + "y z w\n",
    "inv_args": lambda n: "f(" + "a, " * n + " b c)\n",
    "inv_binop": lambda n: "x = a" + " + a" * n + " +\n",
    "inv_blocks": lambda n: "".join("  " * i + "if a:\n" for i in range(n)) + "  " * n + "x y\n",
    "inv_match": lambda n: "match x:\n case " + "[" * n + "1 1" + "]" * n + ": pass\n",
    "inv_lambda": lambda n: "x = " + "lambda: " * n + "a b\n",
    "inv_subproc_wrong_close": lambda n: "$(" * n + " a ]\n",
    "inv_subproc_then_err": lambda n: "$(echo " * n + "a" + ")" * n + "\ny z w\n",
    "inv_fstring": lambda n: "f'" + "{a}" * n + "{a b}'\n",
    "inv_listcomp": lambda n: "x = " + "[" * n + "a" + " for a in b]" * n + " c\n",
}


# nested constructs whose INNERMOST expression is wrong in a way no invalid_* rule reports at once (the diagnostic pass walks back out
# through every level): every nesting kind x every kind of inner error
_NESTS = {"call": ("f(", ")"), "subscript": ("a[", "]"), "paren": ("(", ")"), "brack": ("[", "]"), "dict": ("{1: ", "}"), "tupl": ("(0, ", ")"),
          "kwcall": ("f(k=", ")"), "lambda_call": ("g(lambda: ", ")"), "await": ("h(await ", ")")}
_ERRS = {"trailing_op": "1 +", "two_names": "a b", "dot": "a.", "not": "not", "star2": "1 **", "unclosed_str_op": "'s' -", "colon": "a :", "at": "a @"}
for _nk, (_o, _c) in _NESTS.items():
    for _ek, _e in _ERRS.items():
        FAMILIES[f"inv_{_nk}_inner_{_ek}"] = (lambda o, c, e: (lambda n: "x = " + o * n + e + c * n + "\n"))(_o, _c, _e)


def main():
    tier = sys.argv[1] if len(sys.argv) > 1 else "quick"
    sizes = (6, 12) if tier == "quick" else (10, 20)
    out = {"sizes": sizes, "families": {}, "ratio": RATIO, "slack": SLACK}
    t0 = time.time()
    for name, fam in FAMILIES.items():
        n1, n2 = sizes
        w1, r1 = work(fam(n1))
        w2, r2 = work(fam(n2))
        entry = {"n": n1, "work_n": w1, "outcome_n": r1, "work_2n": w2, "outcome_2n": r2,
                 "ratio": round(w2 / max(1, w1), 2), "sample": fam(3)}
        entry["violates"] = bool(w2 > RATIO * w1 + SLACK and r1 == r2 and r1 in ("ok", "SyntaxError", "cap")) or r2 == "cap"
        out["families"][name] = entry
    out["seconds"] = round(time.time() - t0, 2)
    print(json.dumps(out))


if __name__ == "__main__":
    main()
