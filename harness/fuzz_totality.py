"""Bounded stand-in for C03: every input terminates with a tree or SyntaxError/IndentationError/TokenError.

usage: fuzz_totality.py <seed> <count>  (stdin: JSON list of seed sources)  -> JSON {"evaluations", "failures": [...]}
Inputs: every prefix and single-edit mutation (delete / insert / replace from a small alphabet) of the seed sources,
character soup over an adversarial alphabet.  A case hangs if it takes > 5 s.
"""
from __future__ import annotations

import ast
import json
import random
import signal
import sys

from peg_parser.parser import XonshParser
from peg_parser.tokenize import TokenError


ALPHABET = list("\\'\"`{}()[]$!?@&|:;,.=+-*/<>%^~# \t\n\r\f\x0b") + ["a", "1", "f'", 'f"', "'''", '"""', "p'", "€", "\ud800", "\x00", "0x", "1e", "$(", "![", "@(", "${", "with!", "if", "def", "\\\n"]


class Hang(BaseException):
    pass


def _alarm(s, f):
    raise Hang()


signal.signal(signal.SIGALRM, _alarm)


def outcome(src, mode):
    signal.alarm(5)
    try:
        t = XonshParser.parse_string(src, mode=mode)
        if t is None:
            return "None-returned"
        if not isinstance(t, (ast.Module, ast.Expression)):
            return f"returned {type(t).__name__}"
        return None
    except (SyntaxError, TokenError):
        return None
    except RecursionError:
        return "RecursionError"
    except Hang:
        return "HANG"
    except BaseException as e:  # noqa: BLE001
        return f"{type(e).__name__}: {e}"[:200]
    finally:
        signal.alarm(0)


def main():
    seed, count = int(sys.argv[1]), int(sys.argv[2])
    seeds = json.load(sys.stdin)
    rnd = random.Random(seed)
    cases = []
    for s in seeds:
        for i in range(0, len(s) + 1):
            cases.append(s[:i])
    while len(cases) < count:
        s = rnd.choice(seeds)
        k = rnd.random()
        i = rnd.randrange(len(s) + 1)
        if k < 0.3 and s:
            j = min(len(s), i + rnd.randint(1, 3))
            cases.append(s[:i] + s[j:])
        elif k < 0.65:
            cases.append(s[:i] + rnd.choice(ALPHABET) + s[i:])
        elif k < 0.85 and s:
            cases.append(s[:i] + rnd.choice(ALPHABET) + s[i + 1:])
        else:
            cases.append("".join(rnd.choice(ALPHABET) for _ in range(rnd.randint(1, 12))))
    cases = list(dict.fromkeys(cases))[:count]
    fails = []
    n = 0
    for c in cases:
        for mode in ("exec", "eval"):
            n += 1
            o = outcome(c, mode)
            if o is not None:
                fails.append({"input": c, "mode": mode, "observed": o})
    print(json.dumps({"evaluations": n, "distinct": len(cases), "failures": fails[:200], "nfail": len(fails)}))


if __name__ == "__main__":
    main()
