"""Bounded stand-in for C17: VERIF_SEED-seeded random small well-formed grammars, each run through the REAL generator.

usage: random_grammars.py <repo> <seed> <count>  -> JSON list [{"text", "grammar": <dump>, "source": <generated module>, "error"}]
Grammar shapes cover: ordered choice, sequences, optional, * and +, separated lists, positive/negative lookahead, cut,
forced tokens, groups, direct and indirect left recursion, memo flags (also on non-leader members of a cycle).
"""
from __future__ import annotations

import io
import json
import os
import random
import sys
import tempfile


def main(argv):
    repo, seed, count = argv[1], int(argv[2]), int(argv[3])
    sys.path.insert(0, repo)
    sys.path.insert(0, os.path.dirname(os.path.abspath(__file__)))
    from dump_grammar import rhs_tree  # noqa
    from pegen.build import build_parser
    from tasks.generator import XonshParserGenerator

    rnd = random.Random(seed)
    out = []
    tmpdir = tempfile.mkdtemp(prefix="xpverif-rg-")
    lits = ["'+'", "'-'", "'('", "')'", "','", "'.'", "'if'", '"soft"']
    toks = ["NAME", "NUMBER", "STRING"]

    def atom(names, depth, allow_rec=True):
        k = rnd.random()
        if k < 0.35:
            return rnd.choice(lits)
        if k < 0.5:
            return rnd.choice(toks)
        if k < 0.85 and allow_rec:
            return rnd.choice(names)
        if depth < 2:
            return "(" + alts(names, depth + 1, rnd.randint(1, 2), False) + ")"
        return rnd.choice(lits)

    def item(names, depth, first):
        a = atom(names, depth)
        k = rnd.random()
        nonnull = a if (a in lits or a in toks) else rnd.choice(lits + toks)
        if k < 0.10:
            return f"[{a}]"
        if k < 0.16:
            return f"{nonnull}*"
        if k < 0.22:
            return f"{nonnull}+"
        if k < 0.28:
            return f"{rnd.choice(lits)}.{nonnull}+"
        if k < 0.33:
            return f"&{a}"
        if k < 0.38:
            return f"!{a}"
        if k < 0.41 and not first:
            return "~"
        if k < 0.44 and not first:
            return "&&" + rnd.choice(lits)
        if k < 0.60:
            return f"{rnd.choice('abcde')}={a}"
        return a

    def alt(names, depth, with_action):
        n = rnd.randint(1, 3)
        its = [item(names, depth, i == 0) for i in range(n)]
        if all(i.startswith(("&", "!", "[", "~")) or i.endswith("*") for i in its):
            its.append(rnd.choice(lits + toks))
        s = " ".join(its)
        if with_action and rnd.random() < 0.3:
            vs = [i.split("=")[0] for i in its if "=" in i and i[0] in "abcde"]
            if vs:
                s += " { (" + ", ".join(dict.fromkeys(vs)) + ",) }"
        return s

    def alts(names, depth, n, with_action=True):
        return " | ".join(alt(names, depth, with_action) for _ in range(n))

    for gi in range(count):
        k = rnd.randint(2, 5)
        names = [f"r{i}" for i in range(k)]
        lines = ["start: r0 $"]
        for i, nm in enumerate(names):
            body = []
            na = rnd.randint(1, 3)
            for j in range(na):
                if rnd.random() < 0.25:
                    # left-recursive alternative (direct or through another rule)
                    lead = rnd.choice(names)
                    body.append(f"{lead} {rnd.choice(lits)} {rnd.choice(toks)}")
                else:
                    body.append(alt(names, 0, True))
            body.append(rnd.choice(toks))          # base case keeps every rule productive and non-nullable
            memo = " (memo)" if rnd.random() < 0.3 else ""
            lines.append(f"{nm}{memo}: " + " | ".join(body))
        if rnd.random() < 0.5:
            # twin groups: same shape (and the same text once item names are dropped) but different bindings / nested actions;
            # a generator that shares one helper rule between them returns the wrong action value for the second
            t1, t2 = rnd.choice(toks), rnd.choice(toks)
            l1 = rnd.choice(lits)
            twins = [(f"(a={t1} b={t2} {{ a }})", f"(b={t1} a={t2} {{ a }})"),
                     (f"(a={t1} {t2} {{ a }})", f"({t1} a={t2} {{ a }})"),
                     (f"((n={t1} {t2} {{ n }}) {l1} NAME)", f"(({t1} n={t2} {{ n }}) {l1} NAME)"),
                     (f"(a=&{t1} {t2})", f"(&{t1} {t2})"),
                     (f"(a={t1} b={t2} {{ (a, b) }})", f"(a={t1} b={t2} {{ (b, a) }})")]
            x, y = rnd.choice(twins)
            if rnd.random() < 0.5:
                x, y = y, x
            lines.append(f"rt: p={x} {rnd.choice(lits)} q={y} {{ (p, q) }}")
            lines[1] = lines[1] + " | rt"
        text = "\n".join(lines) + "\n"
        path = os.path.join(tmpdir, f"g{gi}.gram")
        open(path, "w").write(text)
        rec = {"text": text}
        try:
            grammar, _p, _t = build_parser(path)
            buf = io.StringIO()
            gen = XonshParserGenerator(grammar, buf)
            gen.generate(path)
            rec["source"] = buf.getvalue()
            rec["grammar"] = {"metas": dict(grammar.metas), "tokens": sorted(gen.tokens),
                              "rules": [{"name": n, "type": r.type, "memo": bool(r.memo), "nullable": bool(r.nullable),
                                         "left_recursive": bool(r.left_recursive), "leader": bool(r.leader), "rhs": rhs_tree(r.rhs)}
                                        for n, r in grammar.rules.items()]}
        except Exception as e:  # ill-formed for the generator (e.g. no leader candidate): not part of the domain
            rec["error"] = f"{type(e).__name__}: {e}"
        os.unlink(path)
        out.append(rec)
    os.rmdir(tmpdir)
    json.dump(out, sys.stdout)


if __name__ == "__main__":
    main(sys.argv)
