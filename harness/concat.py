"""Bounded stand-in for C14: parse(A+B).body == parse(A).body ++ shift(parse(B).body, lines(A)).
stdin: JSON {"pool": [...], "pairs": [[i,j],...], "triples": [[i,j,k],...]}"""
import ast
import json
import sys

from peg_parser.parser import XonshParser


def parse(src):
    try:
        return XonshParser.parse_string(src, mode="exec"), None
    except BaseException as e:  # noqa: BLE001
        return None, f"{type(e).__name__}: {e}"[:160]


def dumps(body):
    return [ast.dump(n, include_attributes=True) for n in body]


def main():
    req = json.load(sys.stdin)
    pool = req["pool"]
    single = {}
    for i, s in enumerate(pool):
        t, err = parse(s)
        single[i] = (t, err)
    fails, n = [], 0
    for combo in req["pairs"] + req["triples"]:
        if any(single[i][0] is None for i in combo):
            continue
        n += 1
        src = "".join(pool[i] for i in combo)
        t, err = parse(src)
        if t is None:
            fails.append({"input": src, "what": f"each part parses alone but the concatenation raises {err}", "parts": [pool[i] for i in combo]})
            continue
        expect = []
        off = 0
        for i in combo:
            body = XonshParser.parse_string(pool[i], mode="exec").body      # fresh tree (increment_lineno mutates)
            for node in body:
                ast.increment_lineno(node, off)
            expect.extend(dumps(body))
            off += pool[i].count("\n")
        got = dumps(t.body)
        if got != expect:
            k = next((k for k, (a, b) in enumerate(zip(got, expect)) if a != b), min(len(got), len(expect)))
            fails.append({"input": src, "what": f"statement #{k + 1} of the concatenation differs from the separately parsed one",
                          "observed": {"got": (got[k] if k < len(got) else None) and got[k][:300], "expected": (expect[k] if k < len(expect) else None) and expect[k][:300]},
                          "parts": [pool[i] for i in combo]})
    print(json.dumps({"evaluations": n, "failures": fails[:100], "unparsable": [pool[i] for i, v in single.items() if v[0] is None][:10]}))


if __name__ == "__main__":
    main()
