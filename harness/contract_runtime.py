"""Run-time cross-check of E1 contracts: the SAME clause texts the VC generator discharges are evaluated natively, on the real functions,
for randomly generated concrete arguments (bounded; it validates the encoding / the engine, it proves nothing).

stdin : {"seed": int, "n": int, "contracts": {"<Class.method>": {"params": {name: type string}, "requires": [...], "ensures": [...],
                                                               "requires_assumed": [...], "generator": bool}}}
stdout: {"functions": {name: {"calls": k, "clauses_checked": c, "clauses_skipped": [...], "failures": [{"clause", "args", "observed"}]}}}

Spec vocabulary implemented natively: node_start node_end node_wf tok_wf pos_le is_none has_field is_translation all_located has_p_prefix strip_p
tok_of le_isbytes le_val le_numkind lit_isbytes lit_val lit_numkind lit_fold brk runs run_begin implies old.  Clauses that use anything else
(ghost indices, token-generator views, memo-cache views) are skipped and listed.
"""
import ast
import copy
import enum
import functools
import io
import json
import random
import re
import sys

import peg_parser.subheader as sub
from peg_parser.parser import XonshParser
from peg_parser.tokenize import Token, TokenInfo, generate_tokens
from peg_parser.tokenizer import Tokenizer

POS4 = ("lineno", "col_offset", "end_lineno", "end_col_offset")


# ----------------------------------------------------------------------------------------------- native spec functions
def node_start(n):
    return tuple(n.start) if isinstance(n, TokenInfo) else (n.lineno, n.col_offset)


def node_end(n):
    return tuple(n.end) if isinstance(n, TokenInfo) else (n.end_lineno, n.end_col_offset)


def pos_le(a, b):
    return tuple(a) <= tuple(b)


def tok_wf(t):
    return t.start[0] >= 1 and t.start[1] >= 0 and t.end[1] >= 0 and tuple(t.start) <= tuple(t.end)


def node_wf(n):
    return tok_wf(n) if isinstance(n, TokenInfo) else (n.lineno >= 1 and n.col_offset >= 0 and (n.lineno, n.col_offset) <= (n.end_lineno, n.end_col_offset))


def is_none(x):
    return x is None


def has_field(o, name):
    return getattr(o, name, None) is not None


def _match(node, val, holes):
    if isinstance(node, ast.Name) and len(node.id) >= 2 and node.id[0] in "HS" and node.id[1:].isdigit():
        h = holes[int(node.id[1:])]
        if node.id[0] == "H":
            return val is h or (not isinstance(h, ast.AST) and val == h)
        return isinstance(val, ast.Constant) and val.value == h
    if type(val) is not type(node):
        return False
    for f in node._fields:
        want, got = getattr(node, f, None), getattr(val, f, None)
        if isinstance(want, ast.expr_context):
            if type(got) is not type(want):
                return False
        elif isinstance(want, ast.AST):
            if not _match(want, got, holes):
                return False
        elif isinstance(want, list):
            if len(want) == 1 and isinstance(want[0], ast.Starred) and isinstance(want[0].value, ast.Name) and want[0].value.id == "_":
                continue
            if len(want) == 1 and isinstance(want[0], ast.Starred) and isinstance(want[0].value, ast.Name) and want[0].value.id[0] == "A" and want[0].value.id[1:].isdigit():
                h = holes[int(want[0].value.id[1:])]
                if not (isinstance(got, list) and len(got) == len(h) and all(a is b for a, b in zip(got, h))):
                    return False
                continue
            got = [] if got is None else got
            if len(got) != len(want):
                return False
            for w, g in zip(want, got):
                if isinstance(w, ast.AST):
                    if not _match(w, g, holes):
                        return False
                elif w != g:
                    return False
        elif want is None:
            if got is not None:
                return False
        elif want != got:
            return False
    return True


def is_translation(tree, text, *holes):
    return _match(ast.parse(text, mode="eval").body, tree, holes)


def all_located(result, l, c, el, ec, *holes):
    seen = set()
    holes = [x for h in holes for x in (h if isinstance(h, (list, tuple)) else [h])]        # a list handed in: each of its elements is a hole

    def walk(v):
        if isinstance(v, ast.AST):
            if any(v is h for h in holes) or id(v) in seen:
                return True
            seen.add(id(v))
            if "lineno" in getattr(v, "_attributes", ()) and not isinstance(v, (ast.expr_context, ast.operator)):
                if [getattr(v, a, None) for a in POS4] != [l, c, el, ec]:
                    return False
            return all(walk(getattr(v, f, None)) for f in v._fields)
        if isinstance(v, (list, tuple)):
            return all(walk(x) for x in v)
        return True
    return walk(result)


def _q(s):
    idx = [i for i in (s.find("'"), s.find('"')) if i >= 0]
    return min(idx) if idx else -1


def has_p_prefix(s):
    q = _q(s)
    return q > 0 and "p" in s[:q].lower()


def strip_p(s):
    q = _q(s)
    return s[:q].lower().replace("p", "", 1) + s[q:]


def tok_of(x):
    return x


def le_val(text):
    return ast.literal_eval(text)


def le_isbytes(text):
    return isinstance(ast.literal_eval(text), bytes)


def _numkind(v):
    return 2 if isinstance(v, complex) else (1 if isinstance(v, (int, float)) and not isinstance(v, bool) else 0)


def le_numkind(text):
    return _numkind(ast.literal_eval(text))


def lit_numkind(v):
    return _numkind(v)


def lit_isbytes(v):
    return isinstance(v, bytes)


def lit_val(v):
    return v


def lit_fold(parts, n):
    return functools.reduce(lambda a, b: a + b, [ast.literal_eval(p.string) for p in parts[:n]])


def brk(args, j):
    return node_end(args[j - 1]) != node_start(args[j])


def runs(args, i):
    return 0 if i <= 0 else 1 + sum(1 for j in range(1, i) if brk(args, j))


def run_begin(args, i):
    b = 0
    for j in range(1, i):
        if brk(args, j):
            b = j
    return b


def _true(*_a, **_k):
    return True


NATIVE = {f.__name__: f for f in (node_start, node_end, pos_le, tok_wf, node_wf, is_none, has_field, is_translation, all_located, has_p_prefix, strip_p, tok_of,
                                  le_val, le_isbytes, le_numkind, lit_numkind, lit_isbytes, lit_val, lit_fold, brk, runs, run_begin)}
# invariants of the tokenizer object: true of the fresh tokenizer every call is made with
NATIVE.update({"tk_ok": _true, "toks_wf": _true, "can_peek": _true,
               "parts_wf": lambda parts: all(node_wf(p) for p in parts), "tree_wf": lambda n: n is None or all(node_wf(x) for x in ast.walk(n) if hasattr(x, "lineno"))})
UNSUPPORTED_NAMES = {"yield_at", "yielded", "_i", "gen_pos", "gen_item", "gen_len", "gen_cat", "gen_count", "cache_ok", "cache_has", "cache_end", "cache_tree", "lr_cache_ok",
                     "em_cached", "endmarker_pulled", "endmarker_last", "last", "prefix_of", "lines_ok", "lines_left", "wf_error", "exc", "node_id", "truthy", "layout",
                     "indent_col", "indents_wf", "mode_kind_of", "mode_level_of", "pat_kind", "pat_q", "same_frame", "is_blank_char", "tok_type"}


def collect_olds(clauses, env):
    """values of every old(<e>) of the clauses, taken NOW (before the call): {ast.dump(e): value}"""
    out = {}
    for cl in clauses:
        try:
            tree = ast.parse(cl.strip(), mode="eval")
        except SyntaxError:
            continue
        for n in ast.walk(tree):
            if isinstance(n, ast.Call) and isinstance(n.func, ast.Name) and n.func.id == "old" and len(n.args) == 1:
                try:
                    v = eval(compile(ast.fix_missing_locations(ast.Expression(body=n.args[0])), "<old>", "eval"), dict(env))
                except Exception as e:  # noqa: BLE001
                    v = e
                if isinstance(v, list):
                    v = list(v)            # the list as it is now (the callee may replace elements)
                out[ast.dump(n.args[0])] = v
    return out


class Lazy(ast.NodeTransformer):
    """implies(a, b) -> (not a) or b ;  old(e) -> the value e had before the call"""
    def __init__(self, pre):
        self.pre = pre if isinstance(pre, dict) else {}
        self.olds = {}

    def visit_Call(self, node):
        if isinstance(node.func, ast.Name) and node.func.id == "old" and len(node.args) == 1:
            k = f"__old_{len(self.olds)}"
            key = ast.dump(node.args[0])
            if key not in self.pre:
                raise KeyError("old() value was not recorded")
            if isinstance(self.pre[key], Exception):
                raise self.pre[key]
            self.olds[k] = self.pre[key]
            return ast.copy_location(ast.Name(id=k, ctx=ast.Load()), node)
        self.generic_visit(node)
        if isinstance(node.func, ast.Name) and node.func.id == "implies" and len(node.args) == 2:
            return ast.copy_location(ast.BoolOp(op=ast.Or(), values=[ast.UnaryOp(op=ast.Not(), operand=node.args[0]), node.args[1]]), node)
        return node


def evaluate(clause, env, pre_env):
    tree = ast.parse(clause.strip(), mode="eval")
    names = {n.id for n in ast.walk(tree) if isinstance(n, ast.Name)}
    bad = (names & UNSUPPORTED_NAMES) - set(env)
    if bad:
        return None, f"uses {sorted(bad)}"
    tr = Lazy(pre_env)
    tree = ast.fix_missing_locations(tr.visit(tree))
    e2 = dict(env)
    e2.update(tr.olds)
    return bool(eval(compile(tree, "<clause>", "eval"), e2)), None


# ----------------------------------------------------------------------------------------------- argument generation
WORDS = ["a", "ls", "-l", "x1", "foo.py", "'s t'", '"q"', "p'/tmp'", "Pr\"/x\"", "b'by'", "u'uni'", "rb'\\\\n'", "??", "?", ",", ")", "3", "1.5", "2j", "f"]


class Gen:
    def __init__(self, rnd):
        self.r = rnd

    def tok(self, line=None, col=None, string=None, typ=None):
        r = self.r
        s = string if string is not None else r.choice(WORDS)
        ln = line if line is not None else r.randint(1, 4)
        c = col if col is not None else r.randint(0, 12)
        t = typ if typ is not None else (Token.STRING if s[-1] in "'\"" else Token.OP if not s[0].isalnum() and s[0] not in "_-" else Token.NAME)
        return TokenInfo(t, s, (ln, c), (ln, c + len(s)), " " * c + s + "\n")

    def locs(self):
        ln, c = self.r.randint(1, 4), self.r.randint(0, 10)
        w = self.r.randint(1, 9)
        return {"lineno": ln, "col_offset": c, "end_lineno": ln + self.r.choice([0, 0, 1]), "end_col_offset": c + w}

    def node(self, kind=None, at=None):
        r = self.r
        kind = kind or r.choice(["Name", "Constant", "Starred", "Tuple", "BinOp", "Call"])
        L = at or self.locs()
        if kind == "Name":
            return ast.Name(id=r.choice(["x", "y", "env"]), ctx=sub.Load, **L)
        if kind == "Constant":
            return ast.Constant(value=r.choice(["lit", "", "HOME", 1, None]), **L)
        if kind == "Starred":
            return ast.Starred(value=ast.Name(id="s", ctx=sub.Load, **L), ctx=sub.Load, **L)
        if kind == "Tuple":
            return ast.Tuple(elts=[ast.Constant(value="t", **L)], ctx=sub.Load, **L)
        if kind == "BinOp":
            return ast.BinOp(left=ast.Name(id="l", ctx=sub.Load, **L), op=ast.Add(), right=ast.Constant(value=1, **L), **L)
        return ast.Call(func=ast.Name(id="f", ctx=sub.Load, **L), args=[], keywords=[], **L)

    def pieces(self, kinds, n):
        """n tokens / nodes laid out left to right, touching or not, now and then continued on the next line"""
        out, ln, c = [], self.r.randint(1, 3), self.r.randint(0, 4)
        for _ in range(n):
            if self.r.random() < 0.15:
                ln, c = ln + 1, self.r.randint(0, 6)
            elif self.r.random() < 0.5:
                c += self.r.randint(1, 3)
            k = self.r.choice(kinds)
            if k == "Tok":
                t = self.tok(ln, c, self.r.choice(["a", "-l", "x.y", "1", "/"]))
                out.append(t)
                c = t.end[1]
            else:
                w = self.r.randint(1, 5)
                out.append(self.node(k, {"lineno": ln, "col_offset": c, "end_lineno": ln, "end_col_offset": c + w}))
                c += w
        return out

    def value(self, ty):
        ty = re.sub(r"\s*=\s*[^\]\[=]*$", "", ty).strip()          # a default value after the type
        r = self.r
        if ty.startswith("opt["):
            return None if r.random() < 0.4 else self.value(ty[4:-1])
        if ty.startswith("union["):
            return self.value(r.choice(self.split(ty[6:-1], "|")))
        if ty.startswith("oneof["):
            return r.choice([t.strip().strip("'") for t in ty[6:-1].split("|")])
        if ty == "Tok":
            return self.tok()
        if ty in ("int", "nat"):
            return r.randint(0, 9)
        if ty == "str":
            return r.choice(["", "a", "msg"])
        if ty == "bool":
            return r.random() < 0.5
        if ty.startswith("const:"):
            return getattr(sub, ty[6:])
        if ty == "seq[Tok]":
            return [self.tok(1, 4 * i, s) for i, s in enumerate(r.choices(["'a'", '"b"', "''", "u'k'", "b'x'", "r'\\n'", "'''t'''"], k=r.randint(1, 4)))]
        if ty == "seq[val]":
            return [self.node() for _ in range(r.randint(0, 3))]
        if ty.startswith("objseq["):
            inner = ty[7:-1]
            if inner.startswith("(") and "ast.Name" in inner:                       # expand_help: (name, question-mark token) pairs on one line
                out, c = [], r.randint(0, 3)
                for _ in range(r.randint(0, 3)):
                    nm = ast.Name(id=r.choice(["a", "bb"]), ctx=sub.Load, lineno=1, col_offset=c, end_lineno=1, end_col_offset=c + 2)
                    q = r.choice(["?", "??"])
                    out.append((nm, TokenInfo(Token.OP, q, (1, c + 2), (1, c + 2 + len(q)), "")))
                    c += 3 + len(q)
                return out
            if "ast.JoinedStr" in inner:                                                # concatenate_strings: string tokens and f-string nodes
                out, c = [], r.randint(0, 3)
                for _ in range(r.randint(1, 4)):
                    if r.random() < 0.6:
                        s = r.choice(["'a'", '"b"', "''", "u'k'", "r'\\n'", "p'/x'", 'P"/y"'])
                        out.append(self.tok(1, c, s, Token.STRING))
                        c += len(s) + 1
                    else:
                        vals = [] if r.random() < 0.3 else [ast.Constant(value="t", lineno=1, col_offset=c + 2, end_lineno=1, end_col_offset=c + 3)]
                        out.append(ast.JoinedStr(values=vals, lineno=1, col_offset=c, end_lineno=1, end_col_offset=c + 5))
                        c += 6
                return out
            if "ast.FormattedValue" in inner:                                          # parts of an f-string
                return self.value("abslist[obj:StrPart]")
            if inner.startswith("(") or inner.startswith("obj:"):
                return [self.value(inner) for _ in range(r.randint(0, 3))]
            kinds = [("Tok" if k.strip() == "Tok" else k.strip().split(".")[-1].replace("PosNode", "Call")) for k in self.split(inner[6:-1] if inner.startswith("union[") else inner, "|")]
            return self.pieces(kinds, r.randint(0, 5))
        if ty == "none":
            return None
        if ty.startswith("(") and ty.endswith(")"):
            return tuple(self.value(t) for t in self.split(ty[1:-1], ","))
        if ty == "obj:ast.arg":
            return ast.arg(arg=r.choice(["a", "b", "kw"]), annotation=None, **self.locs())
        if ty == "obj:AnyNode":
            return self.node()
        if ty.startswith("abslist["):
            return [ast.Constant(value=r.choice(["t", "a\\nb", ""]), **self.locs()) if r.random() < 0.6 else
                    ast.FormattedValue(value=self.node("Name"), conversion=-1, format_spec=None, **self.locs()) for _ in range(r.randint(0, 3))]
        if ty.startswith("obj:"):
            cls = ty[4:].split("#")[0]
            if cls == "PosNode":
                return self.node(r.choice(["Call", "BinOp"]))
            if cls == "ast.withitem":
                return ast.withitem(context_expr=self.node("Name"), optional_vars=None)
            if cls.startswith("ast."):
                return self.node(cls[4:])
        raise NotImplementedError(ty)

    @staticmethod
    def split(text, sep):
        out, depth, cur = [], 0, ""
        for ch in text:
            depth += ch in "[("
            depth -= ch in "])"
            if ch == sep and depth == 0:
                out.append(cur.strip())
                cur = ""
            else:
                cur += ch
        return out + ([cur.strip()] if cur.strip() else [])


# arguments whose contract type says less than the call sites do
def _str_tree(g):
    t = g.value("opt[union[obj:ast.Constant|obj:ast.Starred|obj:ast.Tuple|obj:PosNode]]")
    if isinstance(t, ast.Constant):
        t.value = g.r.choice(["w", "", "a.b"])          # shape of the contract: the text gathered so far (subprocess words are strings)
    return t


LITERALS = ["'a'", '"b"', "''", "u'k'", "b'x'", "rb'\\n'", "'\\x'", "b'é'", "'''t\nu'''", "1", "0x1f", "1.5", "2j", "1e3", "0777", "1_000", "'\\N{DASH}'", "'\\u12'"]


def _lit_tok(g):
    s = g.r.choice(LITERALS)
    return g.tok(g.r.randint(1, 3), g.r.randint(0, 6), s, Token.STRING if s[-1] in "'\"" else Token.NUMBER)


def _target_tree(g, depth=0):
    """a small expression tree as the invalid-target search sees it (None now and then)"""
    r = g.r
    if depth == 0 and r.random() < 0.1:
        return None
    L = g.locs()
    k = r.choice(["Name", "Subscript", "Attribute", "Call", "Starred", "Compare", "List", "Tuple"] if depth < 2 else ["Name", "Call", "Attribute"])
    nm = ast.Name(id="n", ctx=sub.Load, **L)
    if k == "Name":
        return nm
    if k == "Subscript":
        return ast.Subscript(value=nm, slice=ast.Constant(value=0, **L), ctx=sub.Load, **L)
    if k == "Attribute":
        return ast.Attribute(value=nm, attr="a", ctx=sub.Load, **L)
    if k == "Call":
        return ast.Call(func=nm, args=[], keywords=[], **L)
    if k == "Starred":
        return ast.Starred(value=_target_tree(g, depth + 1), ctx=sub.Load, **L)
    if k == "Compare":
        return ast.Compare(left=_target_tree(g, depth + 1), ops=[r.choice([ast.In(), ast.Lt()])], comparators=[nm], **L)
    return (ast.List if k == "List" else ast.Tuple)(elts=[_target_tree(g, depth + 1) for _ in range(r.randint(0, 3))], ctx=sub.Load, **L)


OVERRIDES = {
    ("get_invalid_target", "node"): _target_tree, ("raise_syntax_error_invalid_target", "node"): _target_tree,
    ("get_invalid_target", "target"): lambda g: g.r.choice(list(sub.Target)), ("raise_syntax_error_invalid_target", "target"): lambda g: g.r.choice(list(sub.Target)),
    ("literal_eval", "token"): _lit_tok, ("ensure_real", "number"): _lit_tok, ("ensure_imaginary", "number"): _lit_tok,
    ("_append_node_or_token", "tree"): _str_tree,
    ("proc_macro_arg", "a"): lambda g: [g.r.choice([g.tok(1, 3 * i, g.r.choice(["a", " ", "-l", "  "])), g.r.choice([" ", "x"])]) for i in range(g.r.randint(0, 4))],
}


def fresh_parser():
    tk = Tokenizer(generate_tokens(io.StringIO("x = 1\ny = 2\nz = 3\nw = 4\n").readline))
    p = XonshParser(tk)
    tk.peek()                  # a parse in progress: at least one token read, its line cached (tk_ok)
    return p


def main():
    job = json.load(sys.stdin)
    rnd = random.Random(job.get("seed", 0))
    g = Gen(rnd)
    out = {}
    base_env = {"ast": ast, "TokenInfo": TokenInfo, "Token": Token, "Load": sub.Load, "Store": sub.Store, "Del": sub.Del, **NATIVE}
    for name, c in job["contracts"].items():
        cls, meth = name.split(".") if "." in name else (None, name)
        rec = {"calls": 0, "clauses_checked": 0, "clauses_skipped": [], "failures": [], "rejected_by_requires": 0, "raised": 0}
        out[name] = rec
        skipped = set()
        for _ in range(job.get("n", 200)):
            try:
                kwargs = {p: (OVERRIDES[(meth, p)](g) if (meth, p) in OVERRIDES else g.value(t)) for p, t in c["params"].items() if p != "self"}
            except NotImplementedError as e:
                rec["clauses_skipped"].append(f"cannot generate arguments of type {e}")
                break
            parser = fresh_parser()
            if meth in ("concatenate_strings",) and rnd.random() < 0.5:
                owners = [p for p in kwargs.get("parts", []) if isinstance(p, ast.JoinedStr)]
                if owners:
                    parser._path_token, parser._path_owner = g.tok(1, 0, "f'/z'", Token.STRING), rnd.choice(owners + [ast.JoinedStr(values=[])])
            env = dict(base_env, self=parser, **{k: (v.value if isinstance(v, enum.Enum) else v) for k, v in kwargs.items()})      # enum members: their ordinal, as in the contracts
            try:
                if not all(evaluate(r, env, {})[0] is not False for r in list(c.get("requires", [])) + list(c.get("requires_assumed", []))):
                    rec["rejected_by_requires"] += 1
                    continue
            except Exception:
                rec["rejected_by_requires"] += 1
                continue
            pre = collect_olds(c["ensures"], env)
            pre_shown = {k: _show(v) for k, v in kwargs.items()}
            fn = getattr(XonshParser, meth)
            try:
                call_kw = dict(kwargs)
                res = fn(**call_kw) if isinstance(XonshParser.__dict__.get(meth) or sub.Parser.__dict__.get(meth), staticmethod) else fn(parser, **call_kw)
                if c.get("generator"):
                    res = list(res)
            except SyntaxError:
                rec["raised"] += 1
                continue
            except Exception as e:  # noqa: BLE001
                rec["failures"].append({"clause": "<call>", "args": pre_shown, "observed": f"{type(e).__name__}: {e}"[:200]})
                continue
            rec["calls"] += 1
            env["result"] = res
            if isinstance(res, list) and isinstance(kwargs.get("args"), list) and meth in ("proc_args", "_proc_args"):
                # the ghost `yield_at` of the grouping contract, defined from the specification alone: the k-th argument is closed at the k-th index
                # that is a break or the end of the list
                a = kwargs["args"]
                ends = [i for i in range(1, len(a) + 1) if i == len(a) or brk(a, i)]
                env["yield_at"] = lambda y, _r=res, _e=ends, _n=len(a): next((_e[k] if k < len(_e) else _n + 1 for k, z in enumerate(_r) if z is y), _n + 1)
                env["yielded"] = res
            for cl in c["ensures"]:
                try:
                    ok, why = evaluate(cl, env, pre)
                except Exception as e:  # noqa: BLE001
                    ok, why = False, None
                    rec["failures"].append({"clause": cl[:200], "args": pre_shown, "observed": f"clause raised {type(e).__name__}: {e}"[:200]})
                    continue
                if ok is None:
                    skipped.add(f"{cl[:80]}... ({why})")
                    continue
                rec["clauses_checked"] += 1
                if not ok:
                    rec["failures"].append({"clause": cl[:200], "args": pre_shown, "observed": _show(res)})
            if len(rec["failures"]) > 5:
                break
        rec["clauses_skipped"] += sorted(skipped)
    json.dump({"functions": out}, sys.stdout)


def _show(v):
    if isinstance(v, ast.AST):
        try:
            return ast.dump(v, include_attributes=True)[:300]
        except Exception:
            return repr(v)[:100]
    if isinstance(v, (list, tuple)):
        return [_show(x) for x in v][:8]
    return repr(v)[:120]


if __name__ == "__main__":
    main()
